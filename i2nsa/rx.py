"""Regular-language engine: Brzozowski derivatives over extended regular expressions.

Patterns are parsed with CPython's own front end (``re._parser``) into the subset
{literal, class, category, any, repeat, group, branch, ^ at the start, negative look-ahead in the
top-level sequence}.  Terms support intersection and complement natively, so a negative look-ahead
``r1(?!r2)r3`` followed by continuation K is ``r1 . ((r3 . K) & ~(r2 . Sigma*))``.
The alphabet is the printable ASCII range plus tab, partitioned into the classes that the analysed
patterns distinguish; a "line" never contains a newline.
"""

from __future__ import annotations

import re
import re._constants as sc
import re._parser as sp

from .repo import AnalysisError

UNIVERSE = [9] + list(range(32, 127))

EMPTY = ("empty",)
EPS = ("eps",)


# ---------------------------------------------------------------------- smart constructors
def chars(s) -> tuple:
    s = frozenset(s)
    return ("chr", s) if s else EMPTY


def cat(a, b):
    if a == EMPTY or b == EMPTY:
        return EMPTY
    if a == EPS:
        return b
    if b == EPS:
        return a
    if a[0] == "cat":
        return cat(a[1], cat(a[2], b))
    return ("cat", a, b)


def cat_all(parts):
    out = EPS
    for p in reversed(list(parts)):
        out = cat(p, out)
    return out


def alt(parts):
    flat = set()
    for p in parts:
        if p == EMPTY:
            continue
        if p[0] == "alt":
            flat |= p[1]
        else:
            flat.add(p)
    if any(p == ("not", EMPTY) for p in flat):
        return ("not", EMPTY)
    # merge character sets
    cs = [p for p in flat if p[0] == "chr"]
    if len(cs) > 1:
        merged = frozenset().union(*(c[1] for c in cs))
        flat = {p for p in flat if p[0] != "chr"} | {("chr", merged)}
    if not flat:
        return EMPTY
    if len(flat) == 1:
        return next(iter(flat))
    return ("alt", frozenset(flat))


def conj(parts):
    flat = set()
    for p in parts:
        if p == EMPTY:
            return EMPTY
        if p == ("not", EMPTY):
            continue
        if p[0] == "and":
            flat |= p[1]
        else:
            flat.add(p)
    if not flat:
        return ("not", EMPTY)
    if len(flat) == 1:
        return next(iter(flat))
    return ("and", frozenset(flat))


def neg(a):
    if a[0] == "not":
        return a[1]
    return ("not", a)


def star(a):
    if a in (EMPTY, EPS):
        return EPS
    if a[0] == "star":
        return a
    return ("star", a)


SIGMA_STAR = ("not", EMPTY)


# ---------------------------------------------------------------------- semantics
_null_cache: dict = {}


def nullable(r) -> bool:
    k = r[0]
    if k == "eps" or k == "star":
        return True
    if k in ("empty", "chr"):
        return False
    if r in _null_cache:
        return _null_cache[r]
    if k == "cat":
        v = nullable(r[1]) and nullable(r[2])
    elif k == "alt":
        v = any(nullable(x) for x in r[1])
    elif k == "and":
        v = all(nullable(x) for x in r[1])
    elif k == "not":
        v = not nullable(r[1])
    else:
        raise AnalysisError(f"bad regex term {r!r}")
    _null_cache[r] = v
    return v


_d_cache: dict = {}


def deriv(r, c: int):
    k = r[0]
    if k in ("empty", "eps"):
        return EMPTY
    if k == "chr":
        return EPS if c in r[1] else EMPTY
    key = (r, c)
    if key in _d_cache:
        return _d_cache[key]
    if k == "cat":
        d = cat(deriv(r[1], c), r[2])
        v = alt([d, deriv(r[2], c)]) if nullable(r[1]) else d
    elif k == "alt":
        v = alt(deriv(x, c) for x in r[1])
    elif k == "and":
        v = conj(deriv(x, c) for x in r[1])
    elif k == "not":
        v = neg(deriv(r[1], c))
    elif k == "star":
        v = cat(deriv(r[1], c), r)
    else:
        raise AnalysisError(f"bad regex term {r!r}")
    _d_cache[key] = v
    return v


def char_sets(r, acc=None) -> set:
    acc = set() if acc is None else acc
    k = r[0]
    if k == "chr":
        acc.add(r[1])
    elif k in ("cat",):
        char_sets(r[1], acc)
        char_sets(r[2], acc)
    elif k in ("alt", "and"):
        for x in r[1]:
            char_sets(x, acc)
    elif k in ("not", "star"):
        char_sets(r[1], acc)
    return acc


def partition(terms) -> list[int]:
    """One representative character per class of the coarsest partition respecting all char sets."""
    sets = set()
    for t in terms:
        sets |= char_sets(t)
    sig: dict[tuple, int] = {}
    for c in UNIVERSE:
        s = tuple(c in st for st in sets)
        sig.setdefault(s, c)
    return sorted(sig.values())


def witness(r, limit: int = 20000):
    """A shortest string of the language of r (None when empty)."""
    reps = partition([r])
    seen = {r: ""}
    frontier = [r]
    n = 0
    while frontier:
        nxt = []
        for t in frontier:
            if nullable(t):
                return seen[t], len(seen)
            for c in reps:
                d = deriv(t, c)
                if d == EMPTY or d in seen:
                    continue
                seen[d] = seen[t] + chr(c)
                nxt.append(d)
                n += 1
                if n > limit:
                    raise AnalysisError("derivative automaton too large")
        frontier = nxt
    return None, len(seen)


def is_empty(r):
    w, states = witness(r)
    return w is None, w, states


def subset(a, b):
    """(a subset of b?, counterexample, states explored)."""
    return is_empty(conj([a, neg(b)]))


# ---------------------------------------------------------------------- front end
def _category(cat_code) -> frozenset:
    name = str(cat_code)
    digits = frozenset(range(48, 58))
    word = frozenset(c for c in UNIVERSE if chr(c).isalnum() or c == 95)
    space = frozenset(c for c in UNIVERSE if chr(c).isspace())
    allc = frozenset(UNIVERSE)
    table = {
        "CATEGORY_DIGIT": digits, "CATEGORY_NOT_DIGIT": allc - digits,
        "CATEGORY_WORD": word, "CATEGORY_NOT_WORD": allc - word,
        "CATEGORY_SPACE": space, "CATEGORY_NOT_SPACE": allc - space,
    }
    if name not in table:
        raise AnalysisError(f"unsupported regex category {name}")
    return table[name]


def _in_set(items) -> frozenset:
    out = set()
    negate = False
    for op, av in items:
        if op is sc.NEGATE:
            negate = True
        elif op is sc.LITERAL:
            out.add(av)
        elif op is sc.RANGE:
            out |= set(range(av[0], av[1] + 1))
        elif op is sc.CATEGORY:
            out |= _category(av)
        else:
            raise AnalysisError(f"unsupported construct in character class: {op}")
    out &= set(UNIVERSE)
    return frozenset(set(UNIVERSE) - out) if negate else frozenset(out)


def _repeat(r, lo: int, hi) -> tuple:
    parts = [r] * lo
    if hi is sc.MAXREPEAT or hi == sc.MAXREPEAT:
        parts.append(star(r))
    else:
        opt = alt([r, EPS])
        parts += [opt] * (hi - lo)
    return cat_all(parts)


def _term_seq(items, k, top: bool):
    """Term of the sequence `items` followed by continuation k (right to left for look-aheads)."""
    out = k
    for op, av in reversed(list(items)):
        if op is sc.ASSERT_NOT:
            direction, sub = av
            if direction != 1 or not top:
                raise AnalysisError("only top-level negative look-ahead is supported")
            out = conj([out, neg(_term_seq(sub, SIGMA_STAR, False))])
        elif op is sc.ASSERT:
            direction, sub = av
            if direction != 1 or not top:
                raise AnalysisError("only top-level look-ahead is supported")
            out = conj([out, _term_seq(sub, SIGMA_STAR, False)])
        else:
            out = cat(_term_item(op, av), out)
    return out


def _term_item(op, av):
    if op is sc.LITERAL:
        return chars({av}) if av in UNIVERSE else EMPTY
    if op is sc.NOT_LITERAL:
        return chars(set(UNIVERSE) - {av})
    if op is sc.ANY:
        return chars(UNIVERSE)
    if op is sc.IN:
        return chars(_in_set(av))
    if op is sc.BRANCH:
        return alt(_term_seq(b, EPS, False) for b in av[1])
    if op is sc.SUBPATTERN:
        return _term_seq(av[3], EPS, False)
    if op in (sc.MAX_REPEAT, sc.MIN_REPEAT):
        lo, hi, sub = av
        return _repeat(_term_seq(sub, EPS, False), lo, hi)
    if op is sc.AT:
        raise AnalysisError(f"anchor {av} is only supported at the start of the pattern")
    raise AnalysisError(f"unsupported regex construct {op}")


def line_match_language(pattern: str, flags: int):
    """Language of single lines on which `re.findall` finds a match starting at the line start.

    The pattern must start with ^ (MULTILINE) ; the match may be followed by anything."""
    parsed = list(sp.parse(pattern, flags))
    if not parsed or parsed[0][0] is not sc.AT or parsed[0][1] not in (sc.AT_BEGINNING, sc.AT_BEGINNING_LINE):
        raise AnalysisError("pattern is not anchored at the line start")
    if parsed[0][1] is sc.AT_BEGINNING and not (flags & re.MULTILINE):
        pass
    return _term_seq(parsed[1:], SIGMA_STAR, True)


def exact_language(pattern: str):
    """Language of a model given as an (unanchored, look-ahead free) regular expression: full match."""
    return _term_seq(list(sp.parse(pattern, 0)), EPS, True)


def call_language(pattern: str, flags: int, mode: str):
    """Language of the strings (no newline) on which `re.<mode>(pattern, s)` succeeds, mode in match / fullmatch / search."""
    parsed = list(sp.parse(pattern, flags))
    begin = bool(parsed) and parsed[0][0] is sc.AT and parsed[0][1] in (sc.AT_BEGINNING, sc.AT_BEGINNING_STRING, sc.AT_BEGINNING_LINE)
    if begin:
        parsed = parsed[1:]
    end = bool(parsed) and parsed[-1][0] is sc.AT and parsed[-1][1] in (sc.AT_END, sc.AT_END_STRING, sc.AT_END_LINE)
    if end:
        parsed = parsed[:-1]
    k = EPS if (mode == "fullmatch" or end) else SIGMA_STAR
    body = _term_seq(parsed, k, True)
    return body if (begin or mode in ("match", "fullmatch")) else cat(SIGMA_STAR, body)


def literal(text: str):
    return cat_all([chars({ord(c)}) for c in text])


def group_then_suffix(pattern: str, flags: int, mode: str, suffix: str) -> bool:
    """Is the pattern `^?(group 1)<literal suffix>$` so that group 1 of a match is the whole string minus the suffix?"""
    parsed = list(sp.parse(pattern, flags))
    if parsed and parsed[0][0] is sc.AT and parsed[0][1] in (sc.AT_BEGINNING, sc.AT_BEGINNING_STRING):
        parsed = parsed[1:]
    elif mode == "search":
        return False
    if parsed and parsed[-1][0] is sc.AT and parsed[-1][1] in (sc.AT_END, sc.AT_END_STRING):
        parsed = parsed[:-1]
    elif mode != "fullmatch":
        return False
    if not parsed or parsed[0][0] is not sc.SUBPATTERN or parsed[0][1][0] != 1:
        return False
    lits = parsed[1:]
    return all(op is sc.LITERAL for op, _ in lits) and "".join(chr(av) for _, av in lits) == suffix
