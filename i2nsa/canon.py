"""Idiom normalisation applied to every parsed module before any rule looks at it.

Rules compare shapes and expression texts.  Maintainers rewrite code between equivalent idioms all the time (a list-building
loop into a comprehension, `%`-formatting into an f-string, `if c: x = a else: x = b` into a conditional expression ...).  So
that such rewrites do not look like changes, every module is first brought into ONE canonical idiom per construct.  Every
pass maps semantically equal code to equal code for the value domains the repository uses (lists for the accumulators,
strings for the concatenations); none of them looks at names, so renaming is not covered here.

The passes are purely syntactic, deterministic and idempotent; positions of rewritten nodes are inherited from the node they
replace, so reports still point at the right line.
"""

from __future__ import annotations

import ast
import copy
import re


def _is_empty_list(n: ast.AST) -> bool:
    return (isinstance(n, ast.List) and not n.elts) or (isinstance(n, ast.Call) and isinstance(n.func, ast.Name) and n.func.id == "list" and not n.args and not n.keywords)


def _add_one(stmt: ast.stmt, acc: str):
    """`acc.append(E)` or `acc += [E]` -> E"""
    if isinstance(stmt, ast.Expr) and isinstance(stmt.value, ast.Call) and isinstance(stmt.value.func, ast.Attribute) and stmt.value.func.attr == "append" \
            and isinstance(stmt.value.func.value, ast.Name) and stmt.value.func.value.id == acc and len(stmt.value.args) == 1 and not stmt.value.keywords:
        return stmt.value.args[0]
    if isinstance(stmt, ast.AugAssign) and isinstance(stmt.op, ast.Add) and isinstance(stmt.target, ast.Name) and stmt.target.id == acc \
            and isinstance(stmt.value, ast.List) and len(stmt.value.elts) == 1:
        return stmt.value.elts[0]
    return None


def _uses(name: str, nodes) -> int:
    return sum(1 for n in nodes for x in ast.walk(n) if isinstance(x, ast.Name) and x.id == name)


class _Expr(ast.NodeTransformer):
    """Expression level idioms."""

    def visit_UnaryOp(self, node):
        self.generic_visit(node)
        if isinstance(node.op, ast.Not) and isinstance(node.operand, ast.Compare) and len(node.operand.ops) == 1:
            flip = {ast.In: ast.NotIn, ast.NotIn: ast.In, ast.Eq: ast.NotEq, ast.NotEq: ast.Eq, ast.Is: ast.IsNot, ast.IsNot: ast.Is}
            t = type(node.operand.ops[0])
            if t in flip:
                new = copy.copy(node.operand)
                new.ops = [flip[t]()]
                return ast.copy_location(new, node)
        return node

    def visit_Compare(self, node):
        self.generic_visit(node)
        # x in ("a", "b")  ->  x == "a" or x == "b"     (a tuple literal of constants; x a plain name or attribute: evaluated repeatedly for free)
        if len(node.ops) == 1 and isinstance(node.ops[0], (ast.In, ast.NotIn)) and isinstance(node.comparators[0], ast.Tuple) and 1 <= len(node.comparators[0].elts) <= 4 \
                and all(isinstance(e, ast.Constant) or (isinstance(e, ast.Attribute) and isinstance(e.value, ast.Name)) for e in node.comparators[0].elts) \
                and isinstance(node.left, (ast.Name, ast.Attribute)):
            pos = isinstance(node.ops[0], ast.In)
            parts = [ast.copy_location(ast.Compare(left=copy.deepcopy(node.left), ops=[ast.Eq() if pos else ast.NotEq()], comparators=[e]), node) for e in node.comparators[0].elts]
            if len(parts) == 1:
                return parts[0]
            return ast.copy_location(ast.BoolOp(op=ast.Or() if pos else ast.And(), values=parts), node)
        # membership in d.keys() is membership in d
        if len(node.ops) == 1 and isinstance(node.ops[0], (ast.In, ast.NotIn)):
            c = node.comparators[0]
            if isinstance(c, ast.Call) and isinstance(c.func, ast.Attribute) and c.func.attr == "keys" and not c.args and not c.keywords:
                node.comparators = [c.func.value]
        return node

    def visit_Call(self, node):
        self.generic_visit(node)
        # len("const") -> int
        if isinstance(node.func, ast.Name) and node.func.id == "len" and len(node.args) == 1 and isinstance(node.args[0], ast.Constant) and isinstance(node.args[0].value, str):
            return ast.copy_location(ast.Constant(value=len(node.args[0].value)), node)
        # sum(1 for T in IT if C)  ->  len([T for T in IT if C])
        if isinstance(node.func, ast.Name) and node.func.id == "sum" and len(node.args) == 1 and not node.keywords and isinstance(node.args[0], (ast.GeneratorExp, ast.ListComp)) \
                and isinstance(node.args[0].elt, ast.Constant) and node.args[0].elt.value == 1 and len(node.args[0].generators) == 1:
            g = node.args[0].generators[0]
            elt = copy.deepcopy(g.target)
            for x in ast.walk(elt):
                if hasattr(x, "ctx"):
                    x.ctx = ast.Load()
            comp = ast.ListComp(elt=elt, generators=node.args[0].generators)
            return ast.copy_location(ast.Call(func=ast.Name(id="len", ctx=ast.Load()), args=[ast.copy_location(comp, node)], keywords=[]), node)
        # x.startswith((a, b)) -> x.startswith(a) or x.startswith(b)   (same for endswith)
        if isinstance(node.func, ast.Attribute) and node.func.attr in ("startswith", "endswith") and len(node.args) == 1 and isinstance(node.args[0], ast.Tuple) \
                and node.args[0].elts and not node.keywords:
            vals = [ast.copy_location(ast.Call(func=copy.deepcopy(node.func), args=[e], keywords=[]), node) for e in node.args[0].elts]
            return ast.copy_location(ast.BoolOp(op=ast.Or(), values=vals), node) if len(vals) > 1 else vals[0]
        return node

    def visit_IfExp(self, node):
        self.generic_visit(node)
        # A if not C else B  ->  B if C else A
        if isinstance(node.test, ast.UnaryOp) and isinstance(node.test.op, ast.Not):
            node = ast.copy_location(ast.IfExp(test=node.test.operand, body=node.orelse, orelse=node.body), node)
        # A if C else False  ==  C and A ;  True if C else B  ==  C or B      (C boolean in the repository's uses)
        if isinstance(node.orelse, ast.Constant) and node.orelse.value is False:
            return ast.copy_location(ast.BoolOp(op=ast.And(), values=[node.test, node.body]), node)
        if isinstance(node.body, ast.Constant) and node.body.value is True:
            return ast.copy_location(ast.BoolOp(op=ast.Or(), values=[node.test, node.orelse]), node)
        # D[K] if K in D else X  ==  D.get(K, X)      (and the flipped form)
        t = node.test
        if isinstance(t, ast.Compare) and len(t.ops) == 1 and isinstance(t.ops[0], (ast.In, ast.NotIn)):
            present, absent = (node.body, node.orelse) if isinstance(t.ops[0], ast.In) else (node.orelse, node.body)
            if isinstance(present, ast.Subscript) and ast.dump(present.value) == ast.dump(t.comparators[0]) and ast.dump(present.slice) == ast.dump(t.left) \
                    and isinstance(t.comparators[0], (ast.Name, ast.Attribute)) and not any(isinstance(x, ast.Call) for x in ast.walk(t.left)):
                call = ast.Call(func=ast.Attribute(value=t.comparators[0], attr="get", ctx=ast.Load()), args=[t.left, absent], keywords=[])
                return ast.copy_location(call, node)
        return node

    # ---- string building: %-format, concatenation, str() -> one f-string
    def _parts(self, node):
        """List of ('lit', str) / ('expr', node) or None if the expression is not a string building one."""
        if isinstance(node, ast.Constant) and isinstance(node.value, str):
            return [("lit", node.value)]
        if isinstance(node, ast.JoinedStr):
            out = []
            for v in node.values:
                if isinstance(v, ast.Constant):
                    out.append(("lit", v.value))
                elif isinstance(v, ast.FormattedValue) and v.conversion == -1 and v.format_spec is None:
                    out.append(("expr", v.value))
                else:
                    return None
            return out
        if isinstance(node, ast.Call) and isinstance(node.func, ast.Name) and node.func.id == "str" and len(node.args) == 1 and not node.keywords:
            return [("expr", node.args[0])]
        if isinstance(node, ast.BinOp) and isinstance(node.op, ast.Add):
            a, b = self._parts(node.left), self._parts(node.right)
            if a is None and b is None:
                return None
            # one side is string-like: the other must be a string too for `+` to work
            a = a if a is not None else [("expr", node.left)]
            b = b if b is not None else [("expr", node.right)]
            return a + b
        if isinstance(node, ast.BinOp) and isinstance(node.op, ast.Mod) and isinstance(node.left, ast.Constant) and isinstance(node.left.value, str):
            fmt = node.left.value
            args = list(node.right.elts) if isinstance(node.right, ast.Tuple) else [node.right]
            pieces = re.split(r"(%[sd])", fmt)
            if "%" in "".join(p for p in pieces if p not in ("%s", "%d")):
                return None
            if sum(1 for p in pieces if p in ("%s", "%d")) != len(args) or isinstance(node.right, (ast.Dict, ast.Name)) and len(args) == 1 and isinstance(node.right, ast.Dict):
                return None
            out, k = [], 0
            for p in pieces:
                if p in ("%s", "%d"):
                    out.append(("expr", args[k]))
                    k += 1
                elif p:
                    out.append(("lit", p))
            return out
        return None

    def _joined(self, node):
        parts = self._parts(node)
        if parts is None or not any(k == "expr" for k, _ in parts) or not any(k == "lit" for k, _ in parts):
            return None
        vals, buf = [], ""
        for k, v in parts:
            if k == "lit":
                buf += v
            else:
                if buf:
                    vals.append(ast.Constant(value=buf))
                    buf = ""
                vals.append(ast.FormattedValue(value=v, conversion=-1, format_spec=None))
        if buf:
            vals.append(ast.Constant(value=buf))
        return ast.copy_location(ast.JoinedStr(values=vals), node)

    def visit_BinOp(self, node):
        self.generic_visit(node)
        if isinstance(node.op, (ast.Add, ast.Mod)):
            j = self._joined(node)
            if j is not None:
                return j
        return node

    def visit_JoinedStr(self, node):
        self.generic_visit(node)
        return node


def _stmt_lists(node: ast.AST):
    """Every statement list inside `node` (not descending into nested function definitions)."""
    for n in ast.walk(node):
        if isinstance(n, (ast.FunctionDef, ast.AsyncFunctionDef, ast.Lambda)) and n is not node:
            continue
        for fld in ("body", "orelse", "finalbody"):
            b = getattr(n, fld, None)
            if isinstance(b, list) and b and isinstance(b[0], ast.stmt):
                yield b
        if isinstance(n, ast.Try):
            for h in n.handlers:
                yield h.body


def _bool_typed(e: ast.AST) -> bool:
    if isinstance(e, ast.Compare):
        return True
    if isinstance(e, ast.UnaryOp) and isinstance(e.op, ast.Not):
        return True
    if isinstance(e, ast.BoolOp):
        return all(_bool_typed(v) for v in e.values)
    if isinstance(e, ast.Constant) and isinstance(e.value, bool):
        return True
    return False


def _neg(e: ast.AST) -> ast.AST:
    return _Expr().visit(ast.copy_location(ast.UnaryOp(op=ast.Not(), operand=e), e))


class _Stmt(ast.NodeTransformer):
    """Statement level idioms (operate on statement lists)."""

    def _block(self, stmts: list[ast.stmt], in_loop: bool) -> list[ast.stmt]:
        out: list[ast.stmt] = []
        i = 0
        while i < len(stmts):
            s = stmts[i]
            nxt = stmts[i + 1] if i + 1 < len(stmts) else None
            # acc = [] ; for T in IT: [if C:] acc.append(E)   ->   acc = [E for T in IT if C]
            if isinstance(s, ast.Assign) and len(s.targets) == 1 and isinstance(s.targets[0], ast.Name) and _is_empty_list(s.value) and isinstance(nxt, ast.For) \
                    and not nxt.orelse and len(nxt.body) == 1:
                acc = s.targets[0].id
                inner = nxt.body[0]
                cond = None
                if isinstance(inner, ast.If) and not inner.orelse and len(inner.body) == 1:
                    cond, inner = inner.test, inner.body[0]
                elt = _add_one(inner, acc)
                if elt is not None and _uses(acc, [nxt.iter, elt] + ([cond] if cond is not None else [])) == 0:
                    comp = ast.ListComp(elt=elt, generators=[ast.comprehension(target=nxt.target, iter=nxt.iter, ifs=[cond] if cond is not None else [], is_async=0)])
                    out.append(ast.copy_location(ast.Assign(targets=s.targets, value=ast.copy_location(comp, nxt), lineno=s.lineno), s))
                    i += 2
                    continue
            # x = [] ; x.extend(Y)   ->   x = list(Y)
            if isinstance(s, ast.Assign) and len(s.targets) == 1 and isinstance(s.targets[0], ast.Name) and _is_empty_list(s.value) and isinstance(nxt, ast.Expr) \
                    and isinstance(nxt.value, ast.Call) and isinstance(nxt.value.func, ast.Attribute) and nxt.value.func.attr == "extend" \
                    and isinstance(nxt.value.func.value, ast.Name) and nxt.value.func.value.id == s.targets[0].id and len(nxt.value.args) == 1:
                call = ast.copy_location(ast.Call(func=ast.Name(id="list", ctx=ast.Load()), args=[nxt.value.args[0]], keywords=[]), nxt)
                out.append(ast.copy_location(ast.Assign(targets=s.targets, value=call, lineno=s.lineno), s))
                i += 2
                continue
            # if C: x = A  else: x = B   ->   x = A if C else B
            if isinstance(s, ast.If) and not getattr(s, "_elif", False) and len(s.body) == 1 and len(s.orelse) == 1 and isinstance(s.body[0], ast.Assign) and isinstance(s.orelse[0], ast.Assign) \
                    and len(s.body[0].targets) == 1 and len(s.orelse[0].targets) == 1 and isinstance(s.body[0].targets[0], ast.Name) \
                    and ast.dump(s.body[0].targets[0]) == ast.dump(s.orelse[0].targets[0]):
                val = _Expr().visit(ast.copy_location(ast.IfExp(test=s.test, body=s.body[0].value, orelse=s.orelse[0].value), s))
                out.append(ast.copy_location(ast.Assign(targets=s.body[0].targets, value=val, lineno=s.lineno), s))
                i += 1
                continue
            # if C: return <bool const>  else / next: return <other bool const>   ->   return C / return not C
            if isinstance(s, ast.If) and len(s.body) == 1 and isinstance(s.body[0], ast.Return) and isinstance(s.body[0].value, ast.Constant) and isinstance(s.body[0].value.value, bool) \
                    and _bool_typed(s.test):
                other = None
                consumed = 1
                if len(s.orelse) == 1 and isinstance(s.orelse[0], ast.Return):
                    other = s.orelse[0]
                elif not s.orelse and isinstance(nxt, ast.Return) and i + 2 == len(stmts):
                    other, consumed = nxt, 2
                if other is not None and isinstance(other.value, ast.Constant) and isinstance(other.value.value, bool) and other.value.value != s.body[0].value.value:
                    val = s.test if s.body[0].value.value else _neg(s.test)
                    out.append(ast.copy_location(ast.Return(value=val), s))
                    i += consumed
                    continue
            # if C: return K1 ; return K2   ->   return K1 if C else K2      (constants; the boolean case is handled above)
            if isinstance(s, ast.If) and not s.orelse and len(s.body) == 1 and isinstance(s.body[0], ast.Return) and isinstance(s.body[0].value, ast.Constant) \
                    and isinstance(nxt, ast.Return) and isinstance(nxt.value, ast.Constant) and i + 2 == len(stmts) and not getattr(s, "_elif", False) \
                    and not isinstance(s.body[0].value.value, bool) and not isinstance(nxt.value.value, bool):
                val = ast.copy_location(ast.IfExp(test=s.test, body=s.body[0].value, orelse=nxt.value), s)
                out.append(ast.copy_location(ast.Return(value=val), s))
                i += 2
                continue
            # if C: return False ; return E   ->   return not C and E        (E boolean typed; True: return C or E)
            if isinstance(s, ast.If) and not s.orelse and len(s.body) == 1 and isinstance(s.body[0], ast.Return) and isinstance(s.body[0].value, ast.Constant) \
                    and isinstance(s.body[0].value.value, bool) and isinstance(nxt, ast.Return) and nxt.value is not None and i + 2 == len(stmts) \
                    and _bool_typed(nxt.value) and _bool_typed(s.test) and not getattr(s, "_elif", False):
                if s.body[0].value.value:
                    val = ast.BoolOp(op=ast.Or(), values=[s.test, nxt.value])
                else:
                    val = ast.BoolOp(op=ast.And(), values=[_neg(s.test), nxt.value])
                out.append(ast.copy_location(ast.Return(value=ast.copy_location(_Expr().visit(val), s)), s))
                i += 2
                continue
            # x = K ; if C: x = B   ->   x = B if C else K       (K a constant, C and B do not read x)
            if isinstance(s, ast.Assign) and len(s.targets) == 1 and isinstance(s.targets[0], ast.Name) and isinstance(s.value, ast.Constant) and isinstance(nxt, ast.If) \
                    and not nxt.orelse and len(nxt.body) == 1 and isinstance(nxt.body[0], ast.Assign) and len(nxt.body[0].targets) == 1 \
                    and isinstance(nxt.body[0].targets[0], ast.Name) and nxt.body[0].targets[0].id == s.targets[0].id and not getattr(nxt, "_elif", False) \
                    and _uses(s.targets[0].id, [nxt.test, nxt.body[0].value]) == 0 and not in_loop:
                val = _Expr().visit(ast.copy_location(ast.IfExp(test=nxt.test, body=nxt.body[0].value, orelse=s.value), nxt))
                out.append(ast.copy_location(ast.Assign(targets=s.targets, value=val, lineno=s.lineno), s))
                i += 2
                continue
            # x = E ; return x   ->   return E
            if isinstance(s, ast.Assign) and len(s.targets) == 1 and isinstance(s.targets[0], ast.Name) and isinstance(nxt, ast.Return) and isinstance(nxt.value, ast.Name) \
                    and nxt.value.id == s.targets[0].id and _uses(s.targets[0].id, [s.value]) == 0:
                out.append(ast.copy_location(ast.Return(value=s.value), nxt))
                i += 2
                continue
            # x += [y]  ->  x.append(y)
            if isinstance(s, ast.AugAssign) and isinstance(s.op, ast.Add) and isinstance(s.value, ast.List) and len(s.value.elts) == 1 and isinstance(s.target, (ast.Name, ast.Subscript, ast.Attribute)):
                tgt = copy.deepcopy(s.target)
                for x in ast.walk(tgt):
                    if hasattr(x, "ctx"):
                        x.ctx = ast.Load()
                call = ast.Call(func=ast.Attribute(value=tgt, attr="append", ctx=ast.Load()), args=[s.value.elts[0]], keywords=[])
                out.append(ast.copy_location(ast.Expr(value=ast.copy_location(call, s)), s))
                i += 1
                continue
            # if C: x op= A  else: x op= B   ->   x op= A if C else B
            if isinstance(s, ast.If) and not getattr(s, "_elif", False) and len(s.body) == 1 and len(s.orelse) == 1 and isinstance(s.body[0], ast.AugAssign) \
                    and isinstance(s.orelse[0], ast.AugAssign) and type(s.body[0].op) is type(s.orelse[0].op) and ast.dump(s.body[0].target) == ast.dump(s.orelse[0].target):
                val = ast.copy_location(ast.IfExp(test=s.test, body=s.body[0].value, orelse=s.orelse[0].value), s)
                out.append(ast.copy_location(ast.AugAssign(target=s.body[0].target, op=s.body[0].op, value=val), s))
                i += 1
                continue
            # for v in X: yield v   ->   yield from X      (plain iteration; nothing is sent into these generators)
            if isinstance(s, ast.For) and not s.orelse and isinstance(s.target, ast.Name) and len(s.body) == 1 and isinstance(s.body[0], ast.Expr) \
                    and isinstance(s.body[0].value, ast.Yield) and isinstance(s.body[0].value.value, ast.Name) and s.body[0].value.value.id == s.target.id:
                out.append(ast.copy_location(ast.Expr(value=ast.copy_location(ast.YieldFrom(value=s.iter), s)), s))
                i += 1
                continue
            # if C: x += <string literal>   ->   x += <string literal> if C else ""      (adding the empty string is the identity on strings)
            if isinstance(s, ast.If) and not getattr(s, "_elif", False) and len(s.body) == 1 and not s.orelse and isinstance(s.body[0], ast.AugAssign) \
                    and isinstance(s.body[0].op, ast.Add) and isinstance(s.body[0].target, ast.Name) \
                    and (isinstance(s.body[0].value, ast.JoinedStr) or (isinstance(s.body[0].value, ast.Constant) and isinstance(s.body[0].value.value, str))):
                val = ast.copy_location(ast.IfExp(test=s.test, body=s.body[0].value, orelse=ast.copy_location(ast.Constant(value=""), s)), s)
                out.append(ast.copy_location(ast.AugAssign(target=s.body[0].target, op=ast.Add(), value=val), s))
                i += 1
                continue
            # if A: return A ; return B   ->   return A or B      (A a plain name: evaluating it twice is free)
            if isinstance(s, ast.If) and not s.orelse and len(s.body) == 1 and isinstance(s.body[0], ast.Return) and isinstance(s.test, ast.Name) \
                    and isinstance(s.body[0].value, ast.Name) and s.body[0].value.id == s.test.id and isinstance(nxt, ast.Return) and nxt.value is not None and i + 2 == len(stmts):
                vals = [s.test] + (nxt.value.values if isinstance(nxt.value, ast.BoolOp) and isinstance(nxt.value.op, ast.Or) else [nxt.value])
                out.append(ast.copy_location(ast.Return(value=ast.copy_location(ast.BoolOp(op=ast.Or(), values=vals), s)), s))
                i += 2
                continue
            # flag = <boolean expression> ; if <... flag ...>:   (flag used nowhere else)   ->   the expression inlined into the test
            # args = <literal> ; f(..., args, ...)               (args used nowhere else)   ->   the literal inlined into the call
            if isinstance(s, ast.Assign) and len(s.targets) == 1 and isinstance(s.targets[0], ast.Name) and nxt is not None and self._fn_uses.get(s.targets[0].id) == 2:
                nm = s.targets[0].id
                head = None
                if (isinstance(s.value, (ast.BoolOp, ast.Compare)) or _bool_typed(s.value)) and isinstance(nxt, ast.If):
                    head = "test"
                elif isinstance(s.value, (ast.Constant, ast.Tuple)) and all(isinstance(e, ast.Constant) for e in getattr(s.value, "elts", [])) \
                        and isinstance(nxt, ast.Expr) and isinstance(nxt.value, ast.Call):
                    head = "value"
                if head and sum(1 for x in ast.walk(getattr(nxt, head)) if isinstance(x, ast.Name) and x.id == nm and isinstance(x.ctx, ast.Load)) == 1:
                    new_nxt = copy.copy(nxt)
                    setattr(new_nxt, head, _ArgSubst({nm: s.value}).visit(copy.deepcopy(getattr(nxt, head))))
                    if getattr(nxt, "_elif", False):
                        new_nxt._elif = True
                    stmts = stmts[:i] + [ast.fix_missing_locations(new_nxt)] + stmts[i + 2:]
                    continue
            # x = x + Y  ->  x += Y     (x a plain name)
            if isinstance(s, ast.Assign) and len(s.targets) == 1 and isinstance(s.targets[0], ast.Name) and isinstance(s.value, ast.BinOp) and isinstance(s.value.op, ast.Add) \
                    and isinstance(s.value.left, ast.Name) and s.value.left.id == s.targets[0].id and _uses(s.targets[0].id, [s.value.right]) == 0:
                out.append(ast.copy_location(ast.AugAssign(target=ast.Name(id=s.targets[0].id, ctx=ast.Store()), op=ast.Add(), value=s.value.right), s))
                i += 1
                continue
            # D[K] = D.get(K, X)   ->   D.setdefault(K, X)
            if isinstance(s, ast.Assign) and len(s.targets) == 1 and isinstance(s.targets[0], ast.Subscript) and isinstance(s.value, ast.Call) \
                    and isinstance(s.value.func, ast.Attribute) and s.value.func.attr == "get" and len(s.value.args) == 2 and not s.value.keywords \
                    and ast.dump(s.value.func.value) == ast.dump(s.targets[0].value).replace("Store()", "Load()") \
                    and ast.dump(s.value.args[0]) == ast.dump(s.targets[0].slice):
                call = ast.Call(func=ast.Attribute(value=s.value.func.value, attr="setdefault", ctx=ast.Load()), args=list(s.value.args), keywords=[])
                out.append(ast.copy_location(ast.Expr(value=ast.copy_location(call, s)), s))
                i += 1
                continue
            # x = f"{x}rest"  ->  x += f"rest"     (string building already folded into one f-string)
            if isinstance(s, ast.Assign) and len(s.targets) == 1 and isinstance(s.targets[0], ast.Name) and isinstance(s.value, ast.JoinedStr) and len(s.value.values) >= 2:
                v0 = s.value.values[0]
                if isinstance(v0, ast.FormattedValue) and isinstance(v0.value, ast.Name) and v0.value.id == s.targets[0].id and v0.conversion == -1 and v0.format_spec is None \
                        and _uses(s.targets[0].id, s.value.values[1:]) == 0:
                    rest = ast.copy_location(ast.JoinedStr(values=s.value.values[1:]), s.value)
                    out.append(ast.copy_location(ast.AugAssign(target=ast.Name(id=s.targets[0].id, ctx=ast.Store()), op=ast.Add(), value=rest), s))
                    i += 1
                    continue
            # x |= {*Y}  ->  x.update(Y)
            if isinstance(s, ast.AugAssign) and isinstance(s.op, ast.BitOr) and isinstance(s.value, ast.Set) and len(s.value.elts) == 1 and isinstance(s.value.elts[0], ast.Starred) \
                    and isinstance(s.target, ast.Name):
                call = ast.Call(func=ast.Attribute(value=ast.Name(id=s.target.id, ctx=ast.Load()), attr="update", ctx=ast.Load()), args=[s.value.elts[0].value], keywords=[])
                out.append(ast.copy_location(ast.Expr(value=ast.copy_location(call, s)), s))
                i += 1
                continue
            # for T in IT: acc += E   ->   acc += sum(E for T in IT)      (acc a plain name not read by E or IT)
            if isinstance(s, ast.For) and not s.orelse and len(s.body) == 1 and isinstance(s.body[0], ast.AugAssign) and isinstance(s.body[0].op, ast.Add) \
                    and isinstance(s.body[0].target, ast.Name) and _uses(s.body[0].target.id, [s.body[0].value, s.iter]) == 0 \
                    and not isinstance(s.body[0].value, (ast.List, ast.Constant, ast.JoinedStr)) \
                    and any(isinstance(p_, ast.Assign) and len(p_.targets) == 1 and isinstance(p_.targets[0], ast.Name) and p_.targets[0].id == s.body[0].target.id
                            and isinstance(p_.value, ast.Constant) and isinstance(p_.value.value, (int, float)) and not isinstance(p_.value.value, bool) for p_ in self._fn_assigns):
                gen = ast.GeneratorExp(elt=s.body[0].value, generators=[ast.comprehension(target=s.target, iter=s.iter, ifs=[], is_async=0)])
                call = ast.Call(func=ast.Name(id="sum", ctx=ast.Load()), args=[gen], keywords=[])
                out.append(ast.fix_missing_locations(ast.copy_location(ast.AugAssign(target=s.body[0].target, op=ast.Add(), value=ast.copy_location(call, s)), s)))
                i += 1
                continue
            # flag = True ; for ...: (... flag = False ; break ...) ; if flag: X   ->   for ...: (... break ...) else: X     (flag used nowhere else)
            if isinstance(s, ast.Assign) and len(s.targets) == 1 and isinstance(s.targets[0], ast.Name) and isinstance(s.value, ast.Constant) and isinstance(s.value.value, bool) \
                    and isinstance(nxt, ast.For) and not nxt.orelse and i + 2 < len(stmts) and isinstance(stmts[i + 2], ast.If) and not stmts[i + 2].orelse \
                    and self._fn_uses.get(s.targets[0].id) == 3:
                flag, init = s.targets[0].id, s.value.value
                after = stmts[i + 2]
                want_test = ast.unparse(after.test) == (flag if init else f"not {flag}")
                sets = [(blk, k) for blk in _stmt_lists(nxt) for k, x in enumerate(blk)
                        if isinstance(x, ast.Assign) and len(x.targets) == 1 and isinstance(x.targets[0], ast.Name) and x.targets[0].id == flag]
                if want_test and len(sets) == 1:
                    blk, k = sets[0]
                    x = blk[k]
                    if isinstance(x.value, ast.Constant) and x.value.value is (not init) and k + 1 < len(blk) and isinstance(blk[k + 1], ast.Break) \
                            and sum(1 for b in ast.walk(nxt) if isinstance(b, ast.Break)) == 1:
                        loop = copy.deepcopy(nxt)
                        for blk2 in _stmt_lists(loop):
                            blk2[:] = [y for y in blk2 if not (isinstance(y, ast.Assign) and len(y.targets) == 1 and isinstance(y.targets[0], ast.Name) and y.targets[0].id == flag)]
                        loop.orelse = after.body
                        stmts = stmts[:i] + [ast.fix_missing_locations(loop)] + stmts[i + 3:]
                        continue
            # if A: (if B: X)   ->   if A and B: X      (no else on either)
            if isinstance(s, ast.If) and not s.orelse and len(s.body) == 1 and isinstance(s.body[0], ast.If) and not s.body[0].orelse:
                inner = s.body[0]
                vals = (s.test.values if isinstance(s.test, ast.BoolOp) and isinstance(s.test.op, ast.And) else [s.test]) + \
                    (inner.test.values if isinstance(inner.test, ast.BoolOp) and isinstance(inner.test.op, ast.And) else [inner.test])
                merged = ast.copy_location(ast.If(test=ast.copy_location(ast.BoolOp(op=ast.And(), values=list(vals)), s.test), body=inner.body, orelse=[]), s)
                if getattr(s, "_elif", False):
                    merged._elif = True
                out.append(merged)
                i += 1
                continue
            # d.update({k: v, ...})   ->   d[k] = v ; ...
            if isinstance(s, ast.Expr) and isinstance(s.value, ast.Call) and isinstance(s.value.func, ast.Attribute) and s.value.func.attr == "update" \
                    and len(s.value.args) == 1 and not s.value.keywords and isinstance(s.value.args[0], ast.Dict) and s.value.args[0].keys \
                    and all(k is not None for k in s.value.args[0].keys) and isinstance(s.value.func.value, (ast.Name, ast.Attribute)):
                for k, v in zip(s.value.args[0].keys, s.value.args[0].values):
                    tgt = ast.Subscript(value=copy.deepcopy(s.value.func.value), slice=k, ctx=ast.Store())
                    out.append(ast.fix_missing_locations(ast.copy_location(ast.Assign(targets=[tgt], value=v, lineno=s.lineno), s)))
                i += 1
                continue
            # def f(a, b): return E   (local, only passed around)   ->   lambda a, b: E at its uses
            if isinstance(s, ast.FunctionDef) and not s.decorator_list and self._depth > 0:
                body = [b for b in s.body if not (isinstance(b, ast.Expr) and isinstance(b.value, ast.Constant))]
                a = s.args
                rest = stmts[i + 1:]
                if len(body) == 1 and isinstance(body[0], ast.Return) and body[0].value is not None and not (a.vararg or a.kwarg or a.kwonlyargs or a.posonlyargs or a.defaults) \
                        and not any(isinstance(x, (ast.Await, ast.Yield, ast.YieldFrom)) for x in ast.walk(body[0].value)) \
                        and not any(isinstance(x, ast.Name) and x.id == s.name and not isinstance(x.ctx, ast.Load) for r in rest for x in ast.walk(r)) \
                        and not any(isinstance(x, ast.Name) and x.id == s.name for x in ast.walk(body[0].value)) \
                        and sum(1 for r in rest for x in ast.walk(r) if isinstance(x, ast.Name) and x.id == s.name) == 1:
                    lam = ast.Lambda(args=ast.arguments(posonlyargs=[], args=[ast.arg(arg=x.arg) for x in a.args], kwonlyargs=[], kw_defaults=[], defaults=[]), body=body[0].value)
                    new_rest = [ast.fix_missing_locations(_ArgSubst({s.name: ast.copy_location(lam, s)}).visit(r)) for r in rest]
                    stmts = stmts[:i + 1] + new_rest
                    i += 1
                    continue
            out.append(s)
            i += 1
        return out

    _depth = 0
    _fn_uses: dict = {}
    _fn_assigns: list = []

    def visit_FunctionDef(self, node):
        self._depth += 1
        saved = self._fn_uses
        if self._depth == 1 or True:
            uses: dict = {}
            for x in ast.walk(node):
                if isinstance(x, ast.Name):
                    uses[x.id] = uses.get(x.id, 0) + 1
            self._fn_uses = uses
            self._fn_assigns = [x for x in ast.walk(node) if isinstance(x, ast.Assign)]
        try:
            return self.generic_visit(node)
        finally:
            self._depth -= 1
            self._fn_uses = saved

    visit_AsyncFunctionDef = visit_FunctionDef

    def generic_visit(self, node):
        # an `elif` chain is a decision table, not a conditional assignment: its members keep their statement form
        if isinstance(node, ast.If) and len(node.orelse) == 1 and isinstance(node.orelse[0], ast.If):
            node.orelse[0]._elif = True
        super().generic_visit(node)
        for fld in ("body", "orelse", "finalbody"):
            b = getattr(node, fld, None)
            if isinstance(b, list) and b and isinstance(b[0], ast.stmt):
                in_loop = isinstance(node, (ast.For, ast.While)) and fld == "body"
                prev = None
                cur = b
                # to a fixed point (a rewrite can enable another one)
                for _ in range(4):
                    new = self._block(cur, in_loop)
                    if prev is not None and len(new) == len(cur) and all(a is b_ for a, b_ in zip(new, cur)):
                        break
                    prev, cur = cur, new
                setattr(node, fld, cur)
        if isinstance(node, ast.ExceptHandler):
            node.body = self._block(node.body, False)
        return node

# ---------------------------------------------------------------------- private one-expression helpers are inlined
class _ArgSubst(ast.NodeTransformer):
    def __init__(self, m):
        self.m = m

    def visit_Name(self, n):
        if isinstance(n.ctx, ast.Load) and n.id in self.m:
            return copy.deepcopy(self.m[n.id])
        return n


def _bound_inside(e: ast.AST) -> set[str]:
    out = set()
    for n in ast.walk(e):
        if isinstance(n, ast.comprehension):
            out |= {x.id for x in ast.walk(n.target) if isinstance(x, ast.Name)}
        elif isinstance(n, ast.Lambda):
            out |= {a.arg for a in n.args.args}
        elif isinstance(n, ast.NamedExpr):
            out.add(n.target.id)
    return out


def _inline_helpers(tree: ast.Module) -> ast.Module:
    """``self._helper(a, b)`` -> the helper's single returned expression with its parameters substituted, for private instance/static
    methods whose body is one ``return <expr>`` and whose name is defined once in the module (not an overridable backend hook).  Extracting
    a condition or a selection into such a helper, or inlining one, is invisible to the rules."""
    classes = [c for c in ast.walk(tree) if isinstance(c, ast.ClassDef)]
    names: dict[str, int] = {}
    for c in classes:
        for m in c.body:
            if isinstance(m, (ast.FunctionDef, ast.AsyncFunctionDef)):
                names[m.name] = names.get(m.name, 0) + 1
    for c in classes:
        helpers = {}
        for m in c.body:
            if not isinstance(m, ast.FunctionDef) or not m.name.startswith("_") or m.name.startswith("__") or names.get(m.name) != 1:
                continue
            decos = [ast.unparse(d) for d in m.decorator_list]
            if any(d != "staticmethod" for d in decos):
                continue
            body = [s for s in m.body if not (isinstance(s, ast.Expr) and isinstance(s.value, ast.Constant))]
            if len(body) != 1 or not isinstance(body[0], ast.Return) or body[0].value is None:
                continue
            a = m.args
            if a.vararg or a.kwarg or a.kwonlyargs or a.posonlyargs:
                continue
            if any(isinstance(x, (ast.Await, ast.Yield, ast.YieldFrom)) for x in ast.walk(body[0].value)):
                continue
            params = [x.arg for x in a.args]
            static = "staticmethod" in decos
            if not static:
                if not params:
                    continue
                params = params[1:]
            defaults = dict(zip(params[len(params) - len(a.defaults):], a.defaults)) if a.defaults else {}
            helpers[m.name] = (params, defaults, body[0].value, static, m.args.args[0].arg if not static else None)
        if not helpers:
            continue

        class Inl(ast.NodeTransformer):
            def visit_Call(self, n):
                self.generic_visit(n)
                f = n.func
                if not (isinstance(f, ast.Attribute) and f.attr in helpers and isinstance(f.value, ast.Name) and f.value.id in ("self", c.name)):
                    return n
                params, defaults, expr, static, selfname = helpers[f.attr]
                if f.value.id == c.name and not static:
                    return n
                if any(isinstance(x, ast.Starred) for x in n.args) or any(k.arg is None for k in n.keywords) or len(n.args) > len(params):
                    return n
                m = dict(zip(params, n.args))
                for k in n.keywords:
                    if k.arg not in params or k.arg in m:
                        return n
                    m[k.arg] = k.value
                for p_ in params:
                    if p_ not in m:
                        if p_ not in defaults:
                            return n
                        m[p_] = defaults[p_]
                bound = _bound_inside(expr)
                for v in m.values():
                    if {x.id for x in ast.walk(v) if isinstance(x, ast.Name)} & bound:
                        return n
                if selfname and selfname != "self":
                    m[selfname] = ast.Name(id="self", ctx=ast.Load())
                return ast.copy_location(_ArgSubst(m).visit(copy.deepcopy(expr)), n)

        for m in c.body:
            if isinstance(m, (ast.FunctionDef, ast.AsyncFunctionDef)) and m.name not in helpers:
                Inl().visit(m)
    return tree


def _inline_procedures(tree: ast.Module) -> ast.Module:
    """``_helper(a, b)`` used once, as a statement, where the private module-level helper neither returns nor yields: the helper's
    statements take the place of the call (parameters replaced by the argument names).  'Extract these lines into a private helper' and
    its inverse are invisible to the rules."""
    defs: dict[str, list] = {}
    for n in tree.body:
        if isinstance(n, ast.FunctionDef):
            defs.setdefault(n.name, []).append(n)
    calls: dict[str, int] = {}
    for n in ast.walk(tree):
        if isinstance(n, ast.Name) and isinstance(n.ctx, ast.Load) and n.id in defs:
            calls[n.id] = calls.get(n.id, 0) + 1
    cands = {}
    for name, ds in defs.items():
        if len(ds) != 1 or not name.startswith("_") or name.startswith("__") or calls.get(name) != 1 or ds[0].decorator_list:
            continue
        d = ds[0]
        body = [b for b in d.body if not (isinstance(b, ast.Expr) and isinstance(b.value, ast.Constant))]
        a = d.args
        if a.vararg or a.kwarg or a.kwonlyargs or a.posonlyargs or a.defaults or not body:
            continue
        result = None
        if isinstance(body[-1], ast.Return) and isinstance(body[-1].value, ast.Name) and len(body) > 1:
            # ... ; return <local>  : usable as  x = _helper(...)
            result, body = body[-1].value.id, body[:-1]
        if any(isinstance(x, (ast.Return, ast.Yield, ast.YieldFrom, ast.Await, ast.FunctionDef, ast.AsyncFunctionDef, ast.Lambda, ast.Global, ast.Nonlocal)) for b in body for x in ast.walk(b)):
            continue
        cands[name] = (d, body, [x.arg for x in a.args], result)
    if not cands:
        return tree

    class Splice(ast.NodeTransformer):
        def __init__(self):
            self.done = set()

        def _block(self, stmts, fn_names):
            out = []
            for st in stmts:
                call = st.value if isinstance(st, (ast.Expr, ast.Assign)) else None
                target = st.targets[0].id if isinstance(st, ast.Assign) and len(st.targets) == 1 and isinstance(st.targets[0], ast.Name) else None
                if isinstance(call, ast.Call) and isinstance(call.func, ast.Name) and call.func.id in cands and not call.keywords \
                        and all(isinstance(x, ast.Name) for x in call.args) and (isinstance(st, ast.Expr) or target is not None) \
                        and (cands[call.func.id][3] is not None) == (target is not None):
                    d, body, params, result = cands[call.func.id]
                    if len(params) == len(call.args):
                        m = {p_: x.id for p_, x in zip(params, call.args)}
                        if result is not None:
                            m[result] = target
                        stored = {x.id for b in body for x in ast.walk(b) if isinstance(x, ast.Name) and isinstance(x.ctx, ast.Store)}
                        if not (stored & set(params)):
                            for loc in stored:
                                if loc in fn_names and loc not in m and loc != target:
                                    m[loc] = loc + "_h"

                            class Ren(ast.NodeTransformer):
                                def visit_Name(self, n):
                                    return ast.copy_location(ast.Name(id=m.get(n.id, n.id), ctx=n.ctx), n)
                            for b in body:
                                nb = Ren().visit(copy.deepcopy(b))
                                for x in ast.walk(nb):
                                    if hasattr(x, "lineno"):
                                        x.lineno = st.lineno
                                        x.end_lineno = getattr(st, "end_lineno", st.lineno)
                                out.append(nb)
                            self.done.add(call.func.id)
                            continue
                out.append(st)
            return out

        def visit_FunctionDef(self, node):
            if node.name in cands:
                return node
            names = {x.id for x in ast.walk(node) if isinstance(x, ast.Name)} | {a.arg for a in node.args.args}
            for sub in ast.walk(node):
                for fld in ("body", "orelse", "finalbody"):
                    b = getattr(sub, fld, None)
                    if isinstance(b, list) and b and isinstance(b[0], ast.stmt):
                        setattr(sub, fld, self._block(b, names))
            return node

        visit_AsyncFunctionDef = visit_FunctionDef

    sp = Splice()
    sp.visit(tree)
    tree.body[:] = [n for n in tree.body if not (isinstance(n, ast.FunctionDef) and n.name in sp.done)]
    return tree

# ---------------------------------------------------------------------- keyword arguments of calls to the module's own functions
def _positional_calls(tree: ast.Module) -> ast.Module:
    """``self.is_started(worker, threshold=n)`` -> ``self.is_started(worker, n)``: a keyword argument that names the next positional
    parameter of a function / method defined once in this module is the same call."""
    sigs: dict[str, list] = {}
    count: dict[str, int] = {}
    for n in ast.walk(tree):
        if isinstance(n, (ast.FunctionDef, ast.AsyncFunctionDef)):
            count[n.name] = count.get(n.name, 0) + 1
            a = n.args
            if a.vararg or a.kwarg or a.posonlyargs:
                continue
            sigs[n.name] = [x.arg for x in a.args]
    classes = {c.name for c in ast.walk(tree) if isinstance(c, ast.ClassDef)}

    class K(ast.NodeTransformer):
        def visit_Call(self, n):
            self.generic_visit(n)
            if not n.keywords or any(k.arg is None for k in n.keywords) or any(isinstance(a, ast.Starred) for a in n.args):
                return n
            f = n.func
            name, skip = None, 0
            if isinstance(f, ast.Attribute) and isinstance(f.value, ast.Name) and f.value.id in ({"self", "cls"} | classes):
                name = f.attr
                skip = 1 if f.value.id in ("self", "cls") else 0
            elif isinstance(f, ast.Name):
                name = f.id
            if name is None or count.get(name) != 1 or name not in sigs:
                return n
            params = sigs[name]
            if skip == 0 and isinstance(f, ast.Attribute) and params[:1] in (["self"], ["cls"]):
                return n  # Class.method(obj, ...) spelling of an instance call: leave alone
            params = params[skip:]
            args = list(n.args)
            kws = list(n.keywords)
            while kws and len(args) < len(params) and kws[0].arg == params[len(args)]:
                args.append(kws.pop(0).value)
            if len(args) == len(n.args):
                return n
            return ast.copy_location(ast.Call(func=n.func, args=args, keywords=kws), n)

    return K().visit(tree)


def _inline_method_procedures(tree: ast.Module) -> ast.Module:
    """``node._share(x)`` / ``Cls._bind(a, b)`` used once, as a statement, where the private method neither returns nor yields: the method's
    statements take the place of the call (self -> the receiver, parameters -> the argument names)."""
    count: dict[str, int] = {}
    for n in ast.walk(tree):
        if isinstance(n, (ast.FunctionDef, ast.AsyncFunctionDef)):
            count[n.name] = count.get(n.name, 0) + 1
    uses: dict[str, int] = {}
    for n in ast.walk(tree):
        if isinstance(n, ast.Attribute) and isinstance(n.ctx, ast.Load):
            uses[n.attr] = uses.get(n.attr, 0) + 1
    for cls in [c for c in ast.walk(tree) if isinstance(c, ast.ClassDef)]:
        cands = {}
        for m in cls.body:
            if not isinstance(m, ast.FunctionDef) or not m.name.startswith("_") or m.name.startswith("__") or count.get(m.name) != 1 or uses.get(m.name) != 1:
                continue
            decos = [ast.unparse(d) for d in m.decorator_list]
            if any(d != "staticmethod" for d in decos):
                continue
            body = [b for b in m.body if not (isinstance(b, ast.Expr) and isinstance(b.value, ast.Constant))]
            a = m.args
            if a.vararg or a.kwarg or a.kwonlyargs or a.posonlyargs or a.defaults or not body:
                continue
            if any(isinstance(x, (ast.Return, ast.Yield, ast.YieldFrom, ast.Await, ast.FunctionDef, ast.AsyncFunctionDef, ast.Lambda, ast.Global, ast.Nonlocal)) for b in body for x in ast.walk(b)):
                continue
            cands[m.name] = (body, [x.arg for x in a.args], "staticmethod" in decos)
        if not cands:
            continue
        inlined: set = set()
        for fn in [f for f in cls.body if isinstance(f, (ast.FunctionDef, ast.AsyncFunctionDef)) and f.name not in cands]:
            fn_names = {x.id for x in ast.walk(fn) if isinstance(x, ast.Name)} | {a.arg for a in fn.args.args}
            for blk in _stmt_lists(fn):
                k = 0
                while k < len(blk):
                    st = blk[k]
                    c = st.value if isinstance(st, ast.Expr) else None
                    if isinstance(c, ast.Call) and isinstance(c.func, ast.Attribute) and c.func.attr in cands and isinstance(c.func.value, ast.Name) and not c.keywords \
                            and all(isinstance(x, ast.Name) for x in c.args):
                        body, params, static = cands[c.func.attr]
                        recv = c.func.value.id
                        m = {}
                        if static:
                            if len(params) != len(c.args):
                                k += 1
                                continue
                            m = {p_: x.id for p_, x in zip(params, c.args)}
                        else:
                            if len(params) != len(c.args) + 1 or recv == cls.name:
                                k += 1
                                continue
                            m = {params[0]: recv}
                            m.update({p_: x.id for p_, x in zip(params[1:], c.args)})
                        stored = {x.id for b in body for x in ast.walk(b) if isinstance(x, ast.Name) and isinstance(x.ctx, ast.Store)}
                        if stored & set(params):
                            k += 1
                            continue
                        for loc in stored:
                            if loc in fn_names and loc not in m:
                                m[loc] = loc + "_h"

                        class Ren(ast.NodeTransformer):
                            def visit_Name(self, n):
                                return ast.copy_location(ast.Name(id=m.get(n.id, n.id), ctx=n.ctx), n)
                        new = []
                        for b in body:
                            nb = Ren().visit(copy.deepcopy(b))
                            for x in ast.walk(nb):
                                if hasattr(x, "lineno"):
                                    x.lineno = st.lineno
                                    x.end_lineno = getattr(st, "end_lineno", st.lineno)
                            new.append(nb)
                        blk[k:k + 1] = new
                        k += len(new)
                        inlined.add(c.func.attr)
                        continue
                    k += 1
        # an inlined helper has no caller left: it is dropped so that owner rules see its statements at the place they run
        cls.body[:] = [m_ for m_ in cls.body if not (isinstance(m_, ast.FunctionDef) and m_.name in inlined)]
    return tree


def normalize(tree: ast.Module) -> ast.Module:
    # _positional_calls is not applied: too many rules state their expectation in the keyword spelling the code uses
    tree = _inline_method_procedures(tree)
    tree = _inline_helpers(tree)
    tree = _inline_procedures(tree)
    tree = _Expr().visit(tree)
    tree = _Stmt().visit(tree)
    tree = _Expr().visit(tree)
    ast.fix_missing_locations(tree)
    return tree


# ---------------------------------------------------------------------- canonical text comparison
_EXPECT_CACHE: dict[str, str] = {}
_RAW_UNPARSE = ast.unparse


def canon_text(text: str) -> str:
    """Canonical form of an expected source fragment (expression or statements); unparsable fragments stay as they are."""
    if text in _EXPECT_CACHE:
        return _EXPECT_CACHE[text]
    out = text
    try:
        import warnings

        with warnings.catch_warnings():
            warnings.simplefilter("ignore")
            tree = ast.parse(text)
        out = _RAW_UNPARSE(normalize(tree))
    except (SyntaxError, ValueError, RecursionError):
        pass
    _EXPECT_CACHE[text] = out
    return out


class CanonStr(str):
    """Text of a (normalised) node.  Compared with a plain string, the plain string is normalised the same way first, so the
    expectations written in the rules may use any of the equivalent idioms."""

    __slots__ = ()

    def __eq__(self, other):
        if isinstance(other, str) and not isinstance(other, CanonStr):
            return str.__eq__(self, other) or str.__eq__(self, canon_text(other))
        return str.__eq__(self, other)

    def __ne__(self, other):
        return not self.__eq__(other)

    __hash__ = str.__hash__

    def __contains__(self, item):
        if str.__contains__(self, item):
            return True
        return isinstance(item, str) and not isinstance(item, CanonStr) and str.__contains__(self, canon_text(item))

    def startswith(self, prefix, *a):
        if str.startswith(self, prefix, *a):
            return True
        if isinstance(prefix, str) and not isinstance(prefix, CanonStr):
            return str.startswith(self, canon_text(prefix), *a)
        return False

    def endswith(self, suffix, *a):
        if str.endswith(self, suffix, *a):
            return True
        if isinstance(suffix, str) and not isinstance(suffix, CanonStr):
            return str.endswith(self, canon_text(suffix), *a)
        return False


def unparse(node: ast.AST) -> CanonStr:
    return CanonStr(_RAW_UNPARSE(node))


def install() -> None:
    """Make ast.unparse return CanonStr for the rule code (idempotent)."""
    if ast.unparse is not unparse:
        ast.unparse = unparse


def same_set(found, expected) -> bool:
    """Set equality of texts where the expected ones may be written in any equivalent idiom (hashing cannot see that)."""
    found, expected = list(found), list(expected)
    return len(set(map(str, found))) == len(expected) and all(any(CanonStr(f) == e for f in found) for e in expected)


class CanonDict(dict):
    """dict keyed by node texts; lookups with a plain string try the string and its canonical form."""

    def _k(self, key):
        if dict.__contains__(self, key):
            return key
        if isinstance(key, str):
            c = canon_text(key)
            if dict.__contains__(self, c):
                return c
        return key

    def get(self, key, default=None):
        return dict.get(self, self._k(key), default)

    def __getitem__(self, key):
        return dict.__getitem__(self, self._k(key))

    def __contains__(self, key):
        return dict.__contains__(self, self._k(key))


def parse_expr(text: str) -> ast.AST:
    """An expression written in any equivalent idiom, normalised like the analysed code."""
    import warnings

    with warnings.catch_warnings():
        warnings.simplefilter("ignore")
        tree = ast.parse(text)
    tree = normalize(tree)
    return tree.body[0].value


# ---------------------------------------------------------------------- single-definition locals
def _pure(e: ast.AST) -> bool:
    """No call, no await, no comprehension: safe to substitute textually."""
    return not any(isinstance(x, (ast.Call, ast.Await, ast.Yield, ast.YieldFrom, ast.ListComp, ast.SetComp, ast.DictComp, ast.GeneratorExp, ast.Lambda, ast.NamedExpr)) for x in ast.walk(e))


def inline_locals(fn: ast.AST, keep: set[str] | frozenset = frozenset()) -> ast.AST:
    """A copy of the function in which every local that is assigned exactly once, by a plain `name = <pure expression>`,
    is replaced by that expression wherever it is read (hoisting a sub-expression into a local, or inlining a local that is
    used once, then give the same code).  Names in `keep`, parameters and loop variables are left alone."""
    fn = copy.deepcopy(fn)
    params = {a.arg for a in fn.args.posonlyargs + fn.args.args + fn.args.kwonlyargs} if hasattr(fn, "args") else set()
    for _ in range(3):
        assigns: dict[str, list] = {}
        other_bind: set[str] = set(params)
        for n in ast.walk(fn):
            if isinstance(n, ast.Assign) and len(n.targets) == 1 and isinstance(n.targets[0], ast.Name):
                assigns.setdefault(n.targets[0].id, []).append(n)
            elif isinstance(n, (ast.AugAssign, ast.AnnAssign)) and isinstance(n.target, ast.Name):
                other_bind.add(n.target.id)
            elif isinstance(n, (ast.For, ast.AsyncFor, ast.comprehension)):
                other_bind |= {x.id for x in ast.walk(n.target) if isinstance(x, ast.Name)}
            elif isinstance(n, (ast.With, ast.AsyncWith)):
                other_bind |= {x.id for i in n.items if i.optional_vars is not None for x in ast.walk(i.optional_vars) if isinstance(x, ast.Name)}
            elif isinstance(n, ast.ExceptHandler) and n.name:
                other_bind.add(n.name)
            elif isinstance(n, ast.Assign):
                for t in n.targets:
                    other_bind |= {x.id for x in ast.walk(t) if isinstance(x, ast.Name) and isinstance(x.ctx, ast.Store)}
        subst = {}
        for name, defs in assigns.items():
            if len(defs) == 1 and name not in other_bind and name not in keep and _pure(defs[0].value):
                # the expression must not read something that is re-bound later in the function (cheap test: its names are params or single-def)
                reads = {x.id for x in ast.walk(defs[0].value) if isinstance(x, ast.Name)}
                if name not in reads:
                    subst[name] = defs[0]
        if not subst:
            break

        class Sub(ast.NodeTransformer):
            depth = 0

            def visit_Name(self, node):
                if isinstance(node.ctx, ast.Load) and node.id in subst and self.depth < 6:
                    self.depth += 1
                    try:
                        return self.visit(copy.deepcopy(subst[node.id].value))
                    finally:
                        self.depth -= 1
                return node

        class Drop(ast.NodeTransformer):
            def generic_visit(self, node):
                super().generic_visit(node)
                for fld in ("body", "orelse", "finalbody"):
                    b = getattr(node, fld, None)
                    if isinstance(b, list) and b and isinstance(b[0], ast.stmt):
                        nb = [x for x in b if not any(x is d for d in subst.values())]
                        setattr(node, fld, nb or [ast.Pass()])
                return node

        fn = Drop().visit(fn)
        fn = Sub().visit(fn)
        fn = _Expr().visit(fn)
        fn = _FlattenJoined().visit(fn)
    ast.fix_missing_locations(fn)
    return fn


class _FlattenJoined(ast.NodeTransformer):
    """f'{f"a{x}"}b' -> f'a{x}b'"""

    def visit_JoinedStr(self, node):
        self.generic_visit(node)
        vals = []
        for v in node.values:
            if isinstance(v, ast.FormattedValue) and v.conversion == -1 and v.format_spec is None and isinstance(v.value, ast.JoinedStr):
                vals.extend(v.value.values)
            elif isinstance(v, ast.FormattedValue) and v.conversion == -1 and v.format_spec is None and isinstance(v.value, ast.Constant) and isinstance(v.value.value, str):
                vals.append(ast.Constant(value=v.value.value))
            else:
                vals.append(v)
        merged = []
        for v in vals:
            if isinstance(v, ast.Constant) and merged and isinstance(merged[-1], ast.Constant):
                merged[-1] = ast.Constant(value=merged[-1].value + v.value)
            else:
                merged.append(v)
        node.values = merged
        return node
