"""CLI: ``python -m i2nsa check <property id> [--tier quick|thorough]``.

Exit 0: every rule instance of the property holds (known findings are printed).
Exit 1: ``VIOLATION property=<id> replay=<path>`` for each broken, unlisted rule instance.
Exit 2: ``ANALYSIS-ERROR``: the analysis could not be carried out (never a silent pass).
"""

from __future__ import annotations

import argparse
import glob
import importlib
import json
import os
import sys
import time
import traceback

from .ctx import Ctx, VERIF_ROOT, finding_matches, load_known_findings
from .repo import AnalysisError, Repo

EVIDENCE_DIR = os.path.join(VERIF_ROOT, "evidence")

COMMON_ASSUMPTIONS = [
    "CPython's ast module represents the repository sources faithfully; nothing from /repo is imported or executed",
    "exceptions are over-approximated: every statement containing a call may raise into an enclosing handler",
    "dynamic features (monkey-patching, getattr dispatch beyond the listed sites) are not modelled",
    "decided clauses are necessary conditions of the behavioural property, not the behaviour itself",
]


def property_module(pid: str):
    try:
        return importlib.import_module(f"i2nsa.props.{pid.lower()}")
    except ModuleNotFoundError as error:
        if error.name and error.name.endswith(pid.lower()):
            return None
        raise


def run_property(pid: str, tier: str, seed: int, repo: Repo | None = None) -> Ctx:
    mod = property_module(pid)
    if mod is None:
        raise AnalysisError(f"no check implemented for {pid}")
    repo = repo or Repo()
    ctx = Ctx(pid, repo, tier, seed)
    try:
        mod.run(ctx)
    except AnalysisError as error:
        ctx.deferred.append(str(error))
    if ctx.deferred and all(i.ok for i in ctx.instances):
        raise AnalysisError("; ".join(ctx.deferred[:3]))
    for d in ctx.deferred:
        ctx.note(f"analysis of one rule was not possible (reported violations take precedence): {d}")
    minimum = getattr(mod, "MIN_INSTANCES", 1)
    if len(ctx.instances) < minimum and all(i.ok for i in ctx.instances):
        raise AnalysisError(
            f"{pid}: only {len(ctx.instances)} rule instances evaluated, expected at least {minimum}"
        )
    return ctx


def write_evidence(pid, tier, seed, ctx, wall, violations, known, error=None, selftest=None) -> str:
    if os.environ.get("I2NSA_NO_EVIDENCE"):
        return ""
    os.makedirs(EVIDENCE_DIR, exist_ok=True)
    mod = property_module(pid)
    insts = ctx.instances if ctx else []
    distinct_rules = sorted({i.rule for i in insts})
    samples = [i.as_dict() for i in insts]
    coverage = {
        "explanation": (getattr(mod, "EXPLANATION", "") if mod else "")
        or "repository-specific static rules over the ast of /repo/avocado_i2n",
        "rule": "one evaluation per (rule instance, site); an instance is non-trivial when it matched "
        "at least one construct of the current tree and was evaluated to a verdict; distinct = "
        "distinct (rule, anchor, construct) triples",
        "evaluations": max(len(insts), 0),
        "distinct_nontrivial": len({i.key() for i in insts}),
        "obligations": len(insts),
        "discharged": sum(1 for i in insts if i.ok),
        "distinct_rules": distinct_rules,
        "samples": samples,
        "exhaustive": bool(getattr(mod, "EXHAUSTIVE", False)) if mod else False,
        "functions_analysed": sorted(ctx.functions_analysed) if ctx else [],
        "paths_enumerated": ctx.paths_enumerated if ctx else 0,
        "modules_parsed": len(ctx.repo.sources) if ctx else 0,
        "source_digest": ctx.repo.digest() if ctx else "",
        "tables": ctx.tables if ctx else {},
        "notes": ctx.notes if ctx else [],
        "known_findings_reported": known,
        "decided_clauses": getattr(mod, "DECIDED", []) if mod else [],
        "not_decided": getattr(mod, "NOT_DECIDED", []) if mod else [],
    }
    if ctx and ctx.extra:
        coverage.update(ctx.extra)
    if selftest is not None:
        coverage["selftest"] = selftest
    if error:
        coverage["analysis_error"] = error
    ev = {
        "property_id": pid,
        "tier": tier,
        "seed": seed,
        "level": "other",
        "coverage": coverage,
        "assumptions": COMMON_ASSUMPTIONS + (ctx.assumptions if ctx else []) + (
            list(getattr(mod, "ASSUMPTIONS", [])) if mod else []),
        "wall_s": round(wall, 3),
        "violations": len(violations),
    }
    path = os.path.join(EVIDENCE_DIR, f"{pid}.json")
    with open(path, "w") as fd:
        json.dump(ev, fd, indent=1, default=str)
    return path


def cmd_check(pid: str, tier: str, seed: int) -> int:
    t0 = time.time()
    ctx = None
    try:
        ctx = run_property(pid, tier, seed)
        selftest = None
        if tier == "thorough":
            from . import selftest as st

            selftest = st.run_for_property(pid, seed)
            if not os.environ.get("I2NSA_NO_SWEEP"):
                # sensitivity of the rules to generic one-site edits of the analysed functions (a measure, never a verdict)
                from . import automut

                sw = automut.sweep(pid, sample=int(os.environ.get("I2NSA_SWEEP_SAMPLE", "240")), seed=seed)
                selftest["sensitivity_sweep"] = {k: sw[k] for k in ("functions", "edits_generated", "edits_in_code", "pinned", "pinned_ratio", "by_kind", "logging_edits")}
                selftest["sensitivity_sweep"]["silent_examples"] = [
                    {"function": m["fref"], "line": m["line"], "kind": m["kind"], "old": m["old"][:80], "new": m["new"][:60]} for m in sw["silent"][:25]]
    except AnalysisError as error:
        print(f"ANALYSIS-ERROR property={pid} {error}")
        write_evidence(pid, tier, seed, ctx, time.time() - t0, [], [], error=str(error))
        return 2
    except Exception:  # a traceback must not look like a violation
        tb = traceback.format_exc()
        print(f"ANALYSIS-ERROR property={pid} internal error:\n{tb}")
        write_evidence(pid, tier, seed, ctx, time.time() - t0, [], [], error=tb)
        return 2

    kf = load_known_findings()
    known_lines, violations = [], []
    for inst in ctx.instances:
        if inst.ok:
            continue
        entry = next((e for e in kf.get("findings", []) if e.get("property") == pid and finding_matches(e, inst)), None)
        if entry is not None:
            known_lines.append(f"KNOWN-FINDING: property={pid} {inst.rule} {inst.anchor} :: {inst.construct} -- {entry.get('what', '')}")
        else:
            violations.append(inst)

    vdir = os.path.join(EVIDENCE_DIR, "violations")
    os.makedirs(vdir, exist_ok=True)
    for old in glob.glob(os.path.join(vdir, f"{pid}.*.json")):
        os.remove(old)

    print(f"i2nsa {pid} tier={tier}: {len(ctx.repo.sources)} modules, {len(ctx.functions_analysed)} functions analysed, "
          f"{ctx.paths_enumerated} paths, {len(ctx.instances)} rule instances "
          f"({sum(1 for i in ctx.instances if i.ok)} hold)")
    for inst in ctx.instances:
        print(f"  [{'ok' if inst.ok else 'BROKEN'}] {inst.rule} {inst.kind} {inst.anchor} :: {inst.construct}")
    for n in ctx.notes:
        print(f"  note: {n}")
    for line in known_lines:
        print(line)
    rc = 0
    for n, inst in enumerate(violations):
        path = os.path.join(vdir, f"{pid}.{n}.json")
        with open(path, "w") as fd:
            json.dump({"property": pid, **inst.as_dict()}, fd, indent=1, default=str)
        print(f"  broken: {inst.rule} at {inst.anchor}: {inst.message or inst.construct}")
        print(f"VIOLATION property={pid} replay={path}")
        rc = 1
    if selftest is not None:
        skipped = [r["name"] for r in selftest.get("results", []) if r.get("status") == "skipped"]
        print(f"  self-test: {selftest.get('breakers_reported', 0)} breakers reported, {selftest.get('preservers_silent', 0)} preservers silent, "
              f"{len(skipped)} skipped{(' ' + str(skipped)) if skipped else ''}")
    if selftest is not None and selftest.get("failed"):
        print(f"ANALYSIS-ERROR property={pid} checker self-test failed: {selftest['failed']}")
        rc = rc or 2
    write_evidence(pid, tier, seed, ctx, time.time() - t0, violations, known_lines, selftest=selftest)
    return rc


def cmd_explain(path: str) -> int:
    with open(path) as fd:
        rec = json.load(fd)
    pid = rec["property"]
    try:
        ctx = run_property(pid, "quick", 0)
    except AnalysisError as error:
        print(f"ANALYSIS-ERROR property={pid} {error}")
        return 2
    found = [i for i in ctx.instances if i.rule == rec["rule"] and i.anchor == rec["anchor"]
             and i.construct == rec["construct"]]
    if not found:
        print(f"instance no longer present: {rec['rule']} {rec['anchor']} :: {rec['construct']}")
        same_rule = [i for i in ctx.instances if i.rule == rec["rule"]]
        for i in same_rule:
            print(f"  now: [{'ok' if i.ok else 'BROKEN'}] {i.anchor} :: {i.construct}")
        return 0 if all(i.ok for i in same_rule) else 1
    rc = 0
    for i in found:
        print(json.dumps(i.as_dict(), indent=1, default=str))
        if not i.ok:
            print(f"VIOLATION property={pid} replay={path}")
            rc = 1
    return rc


def main(argv=None) -> int:
    ap = argparse.ArgumentParser(prog="i2nsa")
    sub = ap.add_subparsers(dest="cmd", required=True)
    c = sub.add_parser("check")
    c.add_argument("property")
    c.add_argument("--tier", default=None)
    e = sub.add_parser("explain")
    e.add_argument("path")
    a = sub.add_parser("all")
    a.add_argument("--tier", default=None)
    args = ap.parse_args(argv)
    seed = int(os.environ.get("VERIF_SEED", "0") or 0)
    if args.cmd == "check":
        tier = os.environ.get("VERIF_TIER") or args.tier or "quick"
        return cmd_check(args.property.upper(), tier, seed)
    if args.cmd == "explain":
        return cmd_explain(args.path)
    if args.cmd == "all":
        tier = os.environ.get("VERIF_TIER") or args.tier or "quick"
        rc = 0
        for n in range(1, 21):
            pid = f"C{n:02d}"
            if property_module(pid) is None:
                continue
            rc = max(rc, cmd_check(pid, tier, seed))
        return rc
    return 2


if __name__ == "__main__":
    sys.exit(main())
