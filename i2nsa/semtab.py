"""Semantic tables of small functions: a function (or block) as a set of rows  premise -> outcome.

Sibling and reference comparisons that look at statement text break on behaviour-preserving refactorings (early return instead of a
conditional expression, exclusive branches reordered, nested ifs merged into one `and`, a local hoisted or inlined).  A table row is a
feasible path through the block: the conjunction of the conditions taken (after substituting path-local definitions), the way the path
leaves, the returned / raised value, the final definitions of the requested output names and the visible effects in order (calls used
as statements, stores to attributes and subscripts) -- all after substitution of locals and an optional renaming.  Two tables agree when
every row of one is covered by the rows of the other with the same outcome (the disjunction of their premises is implied), both ways.
"""

from __future__ import annotations

import ast
import copy

from . import norm
from .facts import PathView
from .paths import PathEnum

LOGGERS = ("logging.", "log.", "LOG_UI.", "LOG_JOB.")


class _Ren(ast.NodeTransformer):
    def __init__(self, m):
        self.m = m

    def visit_Name(self, n):
        return ast.copy_location(ast.Name(id=self.m.get(n.id, n.id), ctx=n.ctx), n)

    def visit_arg(self, n):
        n.arg = self.m.get(n.arg, n.arg)
        return n

    def visit_Attribute(self, n):
        self.generic_visit(n)
        key = "." + n.attr
        if key in self.m:
            n.attr = self.m[key][1:]
        return n


def renamed(node: ast.AST, m: dict | None) -> ast.AST:
    """Deep copy with names renamed (keys 'x' rename names/parameters, keys '.x' rename attributes)."""
    node = copy.deepcopy(node)
    return ast.fix_missing_locations(_Ren(m).visit(node)) if m else node


def is_logging(s: ast.stmt) -> bool:
    return isinstance(s, ast.Expr) and isinstance(s.value, ast.Call) and ast.unparse(s.value.func).startswith(LOGGERS)


def strip(stmts: list[ast.stmt]) -> list[ast.stmt]:
    """Without docstring and (recursively) without debug output."""
    out = []
    for s in stmts:
        if isinstance(s, ast.Expr) and isinstance(s.value, ast.Constant):
            continue
        if is_logging(s):
            continue
        s = copy.copy(s)
        for fld in ("body", "orelse", "finalbody"):
            if isinstance(getattr(s, fld, None), list) and getattr(s, fld) and isinstance(getattr(s, fld)[0], ast.stmt):
                inner = strip(getattr(s, fld))
                setattr(s, fld, inner or ([ast.Pass()] if fld == "body" else []))
        out.append(s)
    return out


def _effect(v: PathView, i: int, s: ast.stmt) -> str | None:
    if isinstance(s, ast.Expr) and isinstance(s.value, (ast.Call, ast.Await)):
        return v.canon_text(s.value, i)
    if isinstance(s, ast.Assign) and any(not isinstance(t, ast.Name) for t in s.targets):
        tg = ", ".join(v.canon_text(t, i) for t in s.targets)
        return f"{tg} = {v.canon_text(s.value, i)}"
    if isinstance(s, ast.AugAssign) and not isinstance(s.target, ast.Name):
        return f"{v.canon_text(s.target, i)} {type(s.op).__name__}= {v.canon_text(s.value, i)}"
    if isinstance(s, ast.Delete):
        return "del " + ", ".join(v.canon_text(t, i) for t in s.targets)
    return None


class _Alpha(ast.NodeTransformer):
    """Bound variables of comprehensions are renamed by position (the name chosen for a loop variable is not behaviour)."""

    def __init__(self):
        self.n = 0

    def _comp(self, node):
        m = {}
        for g in node.generators:
            for t in ast.walk(g.target):
                if isinstance(t, ast.Name) and t.id not in m:
                    m[t.id] = f"_c{self.n}"
                    self.n += 1

        class R(ast.NodeTransformer):
            def visit_Name(self, n):
                return ast.copy_location(ast.Name(id=m.get(n.id, n.id), ctx=n.ctx), n)
        node = R().visit(node)
        return self.generic_visit(node)

    visit_ListComp = visit_SetComp = visit_GeneratorExp = visit_DictComp = _comp


def alpha(text):
    if not text or " for " not in text:
        return text
    try:
        e = ast.parse(text, mode="eval").body
    except SyntaxError:
        return text
    return ast.unparse(ast.fix_missing_locations(_Alpha().visit(e)))


def block_table(stmts: list[ast.stmt], outs: tuple[str, ...] = (), rename: dict | None = None, depth: int = 6, effects: bool = True) -> list[tuple]:
    stmts = strip([renamed(s, rename) for s in stmts])
    # outputs start as their incoming value (lets `x = f(x)` fold into the final definition)
    stmts = [ast.fix_missing_locations(ast.Assign(targets=[ast.Name(id=o, ctx=ast.Store())], value=ast.Name(id=o + "__in", ctx=ast.Load()), lineno=1, col_offset=0))
             for o in outs] + stmts
    rows = []
    for pth in PathEnum(None).block(stmts):
        v = PathView(pth, subst_depth=depth)
        if not v.feasible():
            continue
        prem = norm.conj([v.cond_formula(i) for i, st in enumerate(v.steps) if st.kind == "cond"])
        if not norm.satisfiable(prem):
            continue
        n = len(v.steps)
        if pth.exit == "raise":
            val = PathEnum._raised_name(pth.exit_node)
        elif pth.exit == "return" and pth.exit_node is not None and pth.exit_node.value is not None:
            val = v.canon_text(pth.exit_node.value, n)
        else:
            val = None
        finals = tuple((o, v.canon_text(ast.Name(id=o, ctx=ast.Load()), n)) for o in outs)
        eff = tuple(e for i, st in enumerate(v.steps) if st.kind == "stmt" for e in [_effect(v, i, st.node)] if e) if effects else ()
        iters = tuple((st.extra, v.canon_text(st.node.iter, i)) for i, st in enumerate(v.steps) if st.kind == "iter")
        rows.append((prem, (pth.exit, alpha(val), tuple((k_, alpha(t_)) for k_, t_ in finals), tuple(alpha(e_) for e_ in eff), iters)))
    return rows


def function_table(fn: ast.AST, outs: tuple[str, ...] = (), rename: dict | None = None, depth: int = 6, effects: bool = True) -> list[tuple]:
    return block_table(fn.body, outs, rename, depth, effects)


def reference_table(source: str, outs: tuple[str, ...] = (), depth: int = 6, effects: bool = True) -> list[tuple]:
    """Table of a reference block written as source text (normalised like the analysed code)."""
    import textwrap

    from . import canon

    tree = canon.normalize(ast.parse(textwrap.dedent(source)))
    body = tree.body
    if len(body) == 1 and isinstance(body[0], (ast.FunctionDef, ast.AsyncFunctionDef)):
        body = body[0].body
    return block_table(body, outs, None, depth, effects)


def _exclusive(a: str, b: str) -> bool:
    """Two atoms that cannot hold together: startswith / equality of one subject with incompatible constants."""
    try:
        ea, eb = ast.parse(a, mode="eval").body, ast.parse(b, mode="eval").body
    except SyntaxError:
        return False

    def sw(e):
        if isinstance(e, ast.Call) and isinstance(e.func, ast.Attribute) and e.func.attr == "startswith" and len(e.args) == 1 \
                and isinstance(e.args[0], ast.Constant) and isinstance(e.args[0].value, str):
            return ast.unparse(e.func.value), e.args[0].value
        return None

    def eq(e):
        if isinstance(e, ast.Compare) and len(e.ops) == 1 and isinstance(e.ops[0], ast.Eq) and isinstance(e.comparators[0], ast.Constant):
            return ast.unparse(e.left), e.comparators[0].value
        return None
    x, y = sw(ea), sw(eb)
    if x and y and x[0] == y[0]:
        return not (x[1].startswith(y[1]) or y[1].startswith(x[1]))
    x, y = eq(ea), eq(eb)
    if x and y and x[0] == y[0]:
        return x[1] != y[1]
    return False


def axioms(*tables) -> object:
    atoms: list[str] = []
    for t in tables:
        for prem, _ in t:
            for a in norm.atoms_of(prem):
                if a not in atoms:
                    atoms.append(a)
    ax = []
    for i, a in enumerate(atoms):
        for b in atoms[i + 1:]:
            if _exclusive(a, b):
                ax.append(norm.neg(norm.conj([norm.formula(ast.parse(a, mode="eval").body), norm.formula(ast.parse(b, mode="eval").body)])))
    return norm.conj(ax)


def mismatch(ta: list[tuple], tb: list[tuple]) -> str | None:
    """None when the tables agree, else a description of the first row of one not covered by the other."""
    if not ta or not tb:
        return "empty table"
    ax = axioms(ta, tb)
    ta = [(norm.conj([p, ax]), o) for p, o in ta if norm.satisfiable(norm.conj([p, ax]))]
    tb = [(norm.conj([p, ax]), o) for p, o in tb if norm.satisfiable(norm.conj([p, ax]))]
    for name, rows, others in (("first", ta, tb), ("second", tb, ta)):
        for prem, out in rows:
            alts = [p2 for p2, o2 in others if o2 == out]
            if not alts or not norm.implies(prem, norm.disj(alts)):
                near = [o2 for p2, o2 in others if norm.satisfiable(norm.conj([prem, p2]))]
                return f"when {norm.show(prem)[:160]}: {_show(out)} (only in the {name}; the other gives {'; '.join(_show(o) for o in near[:2]) or 'nothing'})"
    return None


def _show(out) -> str:
    kind, val, finals, eff, iters = out
    parts = [kind + (f" {val}" if val is not None else "")]
    parts += [f"{k}={t}" for k, t in finals]
    parts += list(eff)
    return " | ".join(parts)[:300]


# ---------------------------------------------------------------------- dictionary idiom: d.get(k, default)  vs  `k in d` / d[k]
class _GetSplit(ast.NodeTransformer):
    def __init__(self, recv: str, key: str, present: bool):
        self.recv, self.key, self.present = recv, key, present

    def visit_Call(self, n):
        self.generic_visit(n)
        if isinstance(n.func, ast.Attribute) and n.func.attr == "get" and len(n.args) == 2 and not n.keywords \
                and ast.unparse(n.func.value) == self.recv and ast.unparse(n.args[0]) == self.key:
            if self.present:
                return ast.Subscript(value=n.func.value, slice=n.args[0], ctx=ast.Load())
            return n.args[1]
        return n


_NOOP = __import__('re').compile(r"^[\w.]+\.(update|extend)\((\(\)|\[\]|set\(\)|\{\})\)$")


class _Simplify(ast.NodeTransformer):
    """{}.keys() / {}.get(k, d) / {*()} / x | set() / x + 0"""

    def visit_Call(self, n):
        self.generic_visit(n)
        if isinstance(n.func, ast.Attribute) and isinstance(n.func.value, ast.Dict) and not n.func.value.keys:
            if n.func.attr in ("keys", "values", "items") and not n.args:
                return ast.Tuple(elts=[], ctx=ast.Load())
            if n.func.attr == "get" and len(n.args) == 2:
                return n.args[1]
        return n

    def visit_Set(self, n):
        self.generic_visit(n)
        elts = [e for e in n.elts if not (isinstance(e, ast.Starred) and isinstance(e.value, ast.Tuple) and not e.value.elts)]
        if not elts:
            return ast.Call(func=ast.Name(id="set", ctx=ast.Load()), args=[], keywords=[])
        n.elts = elts
        return n

    def visit_BoolOp(self, n):
        # `acc |= x` is folded by the path view into `acc or x`
        self.generic_visit(n)
        if isinstance(n.op, ast.Or):
            vals = [v for v in n.values if ast.unparse(v) != "set()"]
            if len(vals) == 1:
                return vals[0]
            n.values = vals or n.values
        return n

    def visit_BinOp(self, n):
        self.generic_visit(n)
        empty_set = isinstance(n.right, ast.Call) and ast.unparse(n.right) == "set()"
        zero = isinstance(n.right, ast.Constant) and n.right.value == 0 and not isinstance(n.right.value, bool)
        if (isinstance(n.op, ast.BitOr) and empty_set) or (isinstance(n.op, ast.Add) and zero):
            return n.left
        return n


def split_gets(table: list[tuple]) -> list[tuple]:
    """Case-split every row on `k in d` for each `d.get(k, default)` in its outcome (the two spellings of 'missing means default')."""
    out = []
    work = list(table)
    guard = 0
    while work and guard < 200:
        guard += 1
        prem, outcome = work.pop(0)
        kind, val, finals, eff, iters = outcome
        texts = [val] + [t for _, t in finals] + list(eff)
        found = None
        for t in texts:
            if not t:
                continue
            try:
                e = ast.parse(t, mode="eval").body
            except SyntaxError:
                continue
            for n in ast.walk(e):
                if isinstance(n, ast.Call) and isinstance(n.func, ast.Attribute) and n.func.attr == "get" and len(n.args) == 2 and not n.keywords \
                        and isinstance(n.func.value, (ast.Name, ast.Attribute)):
                    found = (ast.unparse(n.func.value), ast.unparse(n.args[0]))
                    break
            if found:
                break
        if not found:
            out.append((prem, outcome))
            continue
        recv, key = found
        atom = norm.formula(ast.parse(f"{key} in {recv}", mode="eval").body)
        for present in (True, False):
            p2 = norm.conj([prem, atom if present else norm.neg(atom)])
            if not norm.satisfiable(p2):
                continue

            def tr(t):
                if not t:
                    return t
                try:
                    e = ast.parse(t, mode="eval").body
                except SyntaxError:
                    return t
                e = _Simplify().visit(_GetSplit(recv, key, present).visit(e))
                return ast.unparse(ast.fix_missing_locations(e))
            # adding nothing is no effect: acc.update(()) / acc.extend([]) left over from `d.get(k, {}).keys()` with k missing
            eff2 = tuple(t2 for t2 in (tr(t) for t in eff) if not _NOOP.match(t2 or ""))
            work.append((p2, (kind, tr(val), tuple((k, tr(t)) for k, t in finals), eff2, iters)))
    return out + work
