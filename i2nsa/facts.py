"""Facts along an enumerated path: valid guards, local definitions, events."""

from __future__ import annotations

import ast

from . import norm
from .paths import Path, Step, step_assigned, step_awaits, step_calls, step_own_nodes, step_rebound
from .repo import AnalysisError, call_name, dotted


class PathView:
    """Derived facts over one path (with an optional renaming of names to canonical roles)."""

    def __init__(self, path: Path, rename: dict[str, str] | None = None, subst_depth: int = 4,
                 initial_env: dict[str, ast.AST] | None = None):
        self.path = path
        self.steps = path.steps
        self.rename = rename or {}
        self.depth = subst_depth
        self._envs: list[dict[str, ast.AST]] = []
        env: dict[str, ast.AST] = dict(initial_env or {})
        for st in self.steps:
            self._envs.append(dict(env))
            assigned = step_rebound(st)
            old_env = env
            env = dict(env)
            # drop definitions that are, or read, a re-bound name (in-place mutation of an input does not
            # change the value a local already holds)
            for name in list(env):
                if name in assigned or (norm.names_in(env[name]) & assigned):
                    del env[name]
            if st.kind == "stmt" and isinstance(st.node, ast.Assign) and len(st.node.targets) == 1:
                t = st.node.targets[0]
                if isinstance(t, ast.Name) and not _contains_await(st.node.value):
                    if t.id not in norm.names_in(st.node.value):
                        env[t.id] = st.node.value
                    elif t.id in old_env and not (norm.names_in(old_env[t.id]) & (assigned - {t.id})):
                        # x = f(x): fold the previous definition in
                        env[t.id] = norm.substitute(st.node.value, {t.id: old_env[t.id]}, None, 1)
            elif st.kind == "stmt" and isinstance(st.node, ast.AugAssign) and isinstance(st.node.target, ast.Name) \
                    and isinstance(st.node.op, (ast.BitAnd, ast.BitOr)) and st.node.target.id in old_env \
                    and not _contains_await(st.node.value):
                # flag &= cond / flag |= cond on a local boolean: fold into the definition
                op = ast.And() if isinstance(st.node.op, ast.BitAnd) else ast.Or()
                env[st.node.target.id] = ast.BoolOp(op=op, values=[old_env[st.node.target.id], st.node.value])
            elif st.kind == "stmt" and isinstance(st.node, ast.AugAssign) and isinstance(st.node.target, ast.Name) \
                    and isinstance(st.node.op, ast.Add) and st.node.target.id in old_env and not _contains_await(st.node.value) \
                    and st.node.target.id not in norm.names_in(st.node.value):
                # acc += value on a local with a known definition: fold into the definition
                env[st.node.target.id] = ast.BinOp(left=old_env[st.node.target.id], op=ast.Add(), right=st.node.value)
            elif st.kind == "stmt" and isinstance(st.node, ast.AnnAssign) and st.node.value is not None:
                t = st.node.target
                if isinstance(t, ast.Name) and t.id not in norm.names_in(st.node.value):
                    env[t.id] = st.node.value
        self._envs.append(dict(env))

    # ------------------------------------------------------------------ expressions
    def env_at(self, idx: int) -> dict[str, ast.AST]:
        return self._envs[idx]

    def canon(self, expr: ast.AST, idx: int) -> ast.AST:
        return norm.substitute(expr, self.env_at(idx), self.rename, self.depth)

    def canon_text(self, expr: ast.AST, idx: int) -> str:
        return norm.text(self.canon(expr, idx))

    def formula_of(self, expr: ast.AST, idx: int):
        return norm.formula(expr, self.env_at(idx), self.rename, self.depth)

    def cond_formula(self, idx: int):
        st = self.steps[idx]
        f = self.formula_of(st.node, idx)
        return f if st.pol else norm.neg(f)

    def feasible(self) -> bool:
        """False when the path's own conditions contradict each other after local substitution
        (e.g. ``flag = False`` followed by the true branch of ``if flag``)."""
        fs = [self.cond_formula(i) for i, st in enumerate(self.steps) if st.kind == "cond"]
        for f in fs:
            if not norm.atoms_of(f) and not norm.evaluate(f, {}):
                return False
        return True

    # ------------------------------------------------------------------ guards
    def premise(self, idx: int, since: int = 0, invalidating_calls: set[str] | None = None,
                inner: ast.AST | None = None):
        """Conjunction of the conditions evaluated in steps [since, idx) still valid at idx.

        A condition is stale when a name it reads (before or after substitution) is re-bound or
        mutated in place between its evaluation and idx, or when one of `invalidating_calls`
        happens in between.  `inner` is a node inside step idx (a call inside a condition): the
        short-circuit operands evaluated before it are added.
        """
        parts = []
        for i in range(since, idx):
            st = self.steps[i]
            if st.kind != "cond":
                continue
            f = self.cond_formula(i)
            # what the condition itself reads (locals it tests keep their value when their inputs change)
            names = norm.names_in(st.node)
            stale = False
            for k in range(i + 1, idx):
                mid = self.steps[k]
                if names & step_assigned(mid):
                    stale = True
                    break
                if invalidating_calls:
                    if any(call_name(c) in invalidating_calls for c in step_calls(mid)):
                        stale = True
                        break
            if not stale:
                parts.append(f)
        if inner is not None and idx < len(self.steps):
            parts += self._shortcircuit(self.steps[idx], inner, idx)
        return norm.conj(parts)

    def _shortcircuit(self, st: Step, inner: ast.AST, idx: int):
        """Facts known when `inner` (inside the expression of step idx) is evaluated."""
        out = []

        def contains(n: ast.AST) -> bool:
            return any(x is inner for x in ast.walk(n))

        def rec(e: ast.AST) -> None:
            if isinstance(e, ast.BoolOp):
                for k, v in enumerate(e.values):
                    if contains(v):
                        for prev in e.values[:k]:
                            f = self.formula_of(prev, idx)
                            out.append(f if isinstance(e.op, ast.And) else norm.neg(f))
                        rec(v)
                        return
            elif isinstance(e, ast.IfExp):
                if contains(e.body):
                    out.append(self.formula_of(e.test, idx))
                    rec(e.body)
                elif contains(e.orelse):
                    out.append(norm.neg(self.formula_of(e.test, idx)))
                    rec(e.orelse)
                elif contains(e.test):
                    rec(e.test)
            else:
                for c in ast.iter_child_nodes(e):
                    if contains(c):
                        rec(c)
                        return

        for root in step_own_nodes(st):
            if contains(root):
                rec(root)
        return out

    # ------------------------------------------------------------------ events
    def calls(self, pred=None):
        """Yield (step index, call node) for the calls evaluated by each step, in path order."""
        for i, st in enumerate(self.steps):
            for c in step_calls(st):
                if pred is None or pred(c):
                    yield i, c
        if self.path.exit_node is not None and self.path.exit in ("return", "raise"):
            from .repo import calls_in

            for c in calls_in(self.path.exit_node):
                if pred is None or pred(c):
                    yield len(self.steps), c

    def awaits(self):
        for i, st in enumerate(self.steps):
            for a in step_awaits(st):
                yield i, a
        if self.path.exit_node is not None and self.path.exit in ("return", "raise"):
            for x in ast.walk(self.path.exit_node):
                if isinstance(x, ast.Await):
                    yield len(self.steps), x

    def stmts(self, pred=None):
        for i, st in enumerate(self.steps):
            if st.kind == "stmt" and (pred is None or pred(st.node)):
                yield i, st.node


def _contains_await(e: ast.AST) -> bool:
    return any(isinstance(x, ast.Await) for x in ast.walk(e))


# ---------------------------------------------------------------------- predicates
def is_call_named(*names: str):
    s = set(names)

    def pred(n: ast.AST) -> bool:
        return isinstance(n, ast.Call) and call_name(n) in s

    return pred


def recv_text(call: ast.Call) -> str | None:
    """Receiver expression text of a method call ``recv.m(...)``."""
    if isinstance(call.func, ast.Attribute):
        return ast.unparse(call.func.value)
    return None


def arg(call: ast.Call, pos: int, name: str | None = None) -> ast.AST | None:
    if pos is not None and pos < len(call.args):
        a = call.args[pos]
        if isinstance(a, ast.Starred):
            return None
        return a
    if name:
        for kw in call.keywords:
            if kw.arg == name:
                return kw.value
    return None


def atom(textual: str):
    """Formula atom from python expression text, canonicalised the same way as code."""
    return norm.formula(ast.parse(textual, mode="eval").body)


def stores_attr(stmt: ast.AST, attr: str) -> list[tuple[ast.AST, ast.AST | None]]:
    """(target, value) pairs of stores to ``<x>.<attr>`` in a simple statement."""
    out = []
    if isinstance(stmt, ast.Assign):
        for t in stmt.targets:
            for tt in (t.elts if isinstance(t, (ast.Tuple, ast.List)) else [t]):
                if isinstance(tt, ast.Attribute) and tt.attr == attr:
                    out.append((tt, stmt.value))
    elif isinstance(stmt, (ast.AugAssign, ast.AnnAssign)):
        if isinstance(stmt.target, ast.Attribute) and stmt.target.attr == attr:
            out.append((stmt.target, stmt.value))
    return out


def dict_writes(nodes, recv: str) -> list[tuple[ast.AST | None, ast.AST, ast.AST]]:
    """Writes to the dict `recv` (text of the receiver) found in `nodes`, in order: (key node | None, value node, site).
    ``recv[k] = v``, ``recv.update({k: v})`` and ``recv.update(k=v)`` are the same thing; ``recv.update(other)`` has key None."""
    if isinstance(nodes, ast.AST):
        nodes = [nodes]
    out = []
    for root in nodes:
        for n in ast.walk(root):
            if isinstance(n, ast.Assign):
                for t in n.targets:
                    if isinstance(t, ast.Subscript) and ast.unparse(t.value) == recv:
                        out.append((t.slice, n.value, n))
            elif isinstance(n, ast.Call) and isinstance(n.func, ast.Attribute) and n.func.attr == "update" and ast.unparse(n.func.value) == recv:
                for a in n.args:
                    if isinstance(a, ast.Dict):
                        for k, v in zip(a.keys, a.values):
                            out.append((k, v, n))
                    else:
                        out.append((None, a, n))
                for k in n.keywords:
                    out.append((ast.Constant(value=k.arg) if k.arg else None, k.value, n))
    out.sort(key=lambda t: (getattr(t[2], "lineno", 0), getattr(t[2], "col_offset", 0)))
    return out
