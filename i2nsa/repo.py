"""Package index: parses every module of /repo/avocado_i2n afresh on every run.

Nothing from the repository is imported or executed; all facts come from ``ast``.
"""

from __future__ import annotations

import ast
import hashlib
import os
from dataclasses import dataclass, field


class AnalysisError(Exception):
    """The analysis itself cannot be carried out (vanished anchor, unmodelled construct)."""


REPO_ROOT = os.environ.get("I2NSA_REPO", "/repo")
PACKAGE = "avocado_i2n"
#: number of modules confirmed by reading the pinned tree; fewer is an analysis error
MIN_MODULES = 30


@dataclass
class FuncInfo:
    """A function or method of the package."""

    module: str  # path relative to the package, e.g. "cartgraph/graph.py"
    qualname: str  # e.g. "TestGraph.traverse_node"
    node: ast.AST  # ast.FunctionDef | ast.AsyncFunctionDef
    cls: str | None  # enclosing class name (innermost) or None
    is_async: bool
    decorators: list[str] = field(default_factory=list)

    @property
    def ref(self) -> str:
        return f"{self.module}:{self.qualname}"

    @property
    def name(self) -> str:
        return self.node.name

    def params(self) -> list[str]:
        a = self.node.args
        return [x.arg for x in a.posonlyargs + a.args] + (
            [a.vararg.arg] if a.vararg else []
        ) + [x.arg for x in a.kwonlyargs] + ([a.kwarg.arg] if a.kwarg else [])


@dataclass
class ClassInfo:
    module: str
    qualname: str
    node: ast.ClassDef
    bases: list[str]


class Repo:
    """All parsed modules of the analysed package (optionally with in-memory overrides)."""

    def __init__(self, root: str | None = None, overrides: dict[str, str] | None = None):
        self.root = root or REPO_ROOT
        self.pkgdir = os.path.join(self.root, PACKAGE)
        self.overrides = overrides or {}
        self.sources: dict[str, str] = {}
        self.trees: dict[str, ast.Module] = {}
        self.raw_trees: dict[str, ast.Module] = {}
        self.functions: dict[str, FuncInfo] = {}
        self.classes: dict[str, ClassInfo] = {}
        self.by_name: dict[str, list[FuncInfo]] = {}
        self.imports: dict[str, dict[str, str]] = {}
        self._load()

    # ------------------------------------------------------------------ loading
    def _load(self) -> None:
        if not os.path.isdir(self.pkgdir):
            raise AnalysisError(f"package directory not found: {self.pkgdir}")
        for dirpath, dirnames, filenames in os.walk(self.pkgdir):
            dirnames[:] = sorted(d for d in dirnames if d != "__pycache__")
            for fn in sorted(filenames):
                if not fn.endswith(".py"):
                    continue
                full = os.path.join(dirpath, fn)
                rel = os.path.relpath(full, self.pkgdir)
                if rel in self.overrides:
                    src = self.overrides[rel]
                else:
                    with open(full, encoding="utf-8") as fd:
                        src = fd.read()
                self.sources[rel] = src
        for rel in self.overrides:
            if rel not in self.sources:
                self.sources[rel] = self.overrides[rel]
        if len(self.sources) < MIN_MODULES:
            raise AnalysisError(
                f"only {len(self.sources)} modules found under {self.pkgdir}, "
                f"expected at least {MIN_MODULES}"
            )
        for rel, src in self.sources.items():
            try:
                tree = ast.parse(src, filename=rel)
            except SyntaxError as error:
                raise AnalysisError(f"syntax error in {rel}: {error}") from error
            if not os.environ.get("I2NSA_NO_CANON"):
                from . import canon

                canon.install()
                self.raw_trees[rel] = ast.parse(src, filename=rel)
                tree = canon.normalize(tree)
            else:
                self.raw_trees[rel] = tree
            self.trees[rel] = tree
            self._index_module(rel, tree)

    def digest(self) -> str:
        h = hashlib.sha256()
        for rel in sorted(self.sources):
            h.update(rel.encode())
            h.update(self.sources[rel].encode())
        return h.hexdigest()

    def _index_module(self, rel: str, tree: ast.Module) -> None:
        imports: dict[str, str] = {}
        for node in ast.walk(tree):
            if isinstance(node, ast.Import):
                for alias in node.names:
                    imports[alias.asname or alias.name.split(".")[0]] = alias.name
            elif isinstance(node, ast.ImportFrom):
                mod = ("." * node.level) + (node.module or "")
                for alias in node.names:
                    imports[alias.asname or alias.name] = f"{mod}.{alias.name}"
        self.imports[rel] = imports

        def visit(body: list[ast.stmt], prefix: str, cls: str | None) -> None:
            for stmt in body:
                if isinstance(stmt, (ast.FunctionDef, ast.AsyncFunctionDef)):
                    qual = f"{prefix}{stmt.name}"
                    info = FuncInfo(
                        rel,
                        qual,
                        stmt,
                        cls,
                        isinstance(stmt, ast.AsyncFunctionDef),
                        [ast.unparse(d) for d in stmt.decorator_list],
                    )
                    # a property setter/getter pair shares the qualname: keep all
                    key = f"{rel}:{qual}"
                    n = 2
                    while key in self.functions:
                        key = f"{rel}:{qual}#{n}"
                        n += 1
                    self.functions[key] = info
                    self.by_name.setdefault(stmt.name, []).append(info)
                    visit(stmt.body, qual + ".<locals>.", cls)
                elif isinstance(stmt, ast.ClassDef):
                    qual = f"{prefix}{stmt.name}"
                    self.classes[f"{rel}:{qual}"] = ClassInfo(
                        rel, qual, stmt, [ast.unparse(b) for b in stmt.bases]
                    )
                    visit(stmt.body, qual + ".", stmt.name)
                elif isinstance(stmt, (ast.If, ast.Try, ast.With, ast.For, ast.While)):
                    for sub in _sub_bodies(stmt):
                        visit(sub, prefix, cls)

        visit(tree.body, "", None)

    # ------------------------------------------------------------------ lookups
    def func(self, ref: str) -> FuncInfo:
        """Return the function ``module:qualname``; a vanished anchor is an analysis error."""
        if ref not in self.functions:
            raise AnalysisError(f"anchor function vanished: {ref}")
        return self.functions[ref]

    def has_func(self, ref: str) -> bool:
        return ref in self.functions

    def cls(self, ref: str) -> ClassInfo:
        if ref not in self.classes:
            raise AnalysisError(f"anchor class vanished: {ref}")
        return self.classes[ref]

    def module(self, rel: str) -> ast.Module:
        if rel not in self.trees:
            raise AnalysisError(f"anchor module vanished: {rel}")
        return self.trees[rel]

    def all_functions(self, module_prefixes: tuple[str, ...] | None = None):
        for key, info in self.functions.items():
            if module_prefixes is None or info.module.startswith(module_prefixes):
                yield info

    def class_methods(self, clsref: str) -> dict[str, FuncInfo]:
        """Methods defined directly in a class."""
        info = self.cls(clsref)
        out = {}
        for key, f in self.functions.items():
            if f.module == info.module and f.qualname.startswith(info.qualname + "."):
                rest = f.qualname[len(info.qualname) + 1 :]
                if "." not in rest:
                    out.setdefault(rest, f)
        return out

    def find_class(self, name: str) -> list[ClassInfo]:
        return [c for c in self.classes.values() if c.qualname.split(".")[-1] == name]

    def mro(self, clsref: str) -> list[ClassInfo]:
        """Linearised package-internal ancestors (depth first, left to right, no duplicates)."""
        out: list[ClassInfo] = []
        seen = set()

        def rec(c: ClassInfo) -> None:
            key = f"{c.module}:{c.qualname}"
            if key in seen:
                return
            seen.add(key)
            out.append(c)
            for base in c.bases:
                name = base.split(".")[-1]
                cands = self.find_class(name)
                same = [x for x in cands if x.module == c.module]
                for x in same or cands[:1]:
                    rec(x)

        rec(self.cls(clsref))
        return out

    def resolve_method(self, clsref: str, name: str) -> FuncInfo | None:
        for c in self.mro(clsref):
            m = self.class_methods(f"{c.module}:{c.qualname}")
            if name in m:
                return m[name]
        return None


def _sub_bodies(stmt: ast.stmt) -> list[list[ast.stmt]]:
    out = []
    for fld in ("body", "orelse", "finalbody"):
        sub = getattr(stmt, fld, None)
        if isinstance(sub, list) and sub and isinstance(sub[0], ast.stmt):
            out.append(sub)
    for h in getattr(stmt, "handlers", []) or []:
        out.append(h.body)
    return out


def call_name(call: ast.Call) -> str | None:
    """Last component of the callee: ``a.b.c(...)`` -> ``c``; ``f(...)`` -> ``f``."""
    f = call.func
    if isinstance(f, ast.Attribute):
        return f.attr
    if isinstance(f, ast.Name):
        return f.id
    return None


def dotted(expr: ast.AST) -> str | None:
    """``a.b.c`` -> "a.b.c" for pure Name/Attribute chains, else None."""
    parts = []
    while isinstance(expr, ast.Attribute):
        parts.append(expr.attr)
        expr = expr.value
    if isinstance(expr, ast.Name):
        parts.append(expr.id)
        return ".".join(reversed(parts))
    return None


def calls_in(node: ast.AST, include_nested_defs: bool = False):
    """Yield ast.Call nodes in evaluation-ish (source) order."""
    out = []

    def rec(n: ast.AST) -> None:
        if not include_nested_defs and isinstance(
            n, (ast.FunctionDef, ast.AsyncFunctionDef, ast.Lambda, ast.ClassDef)
        ) and n is not node:
            return
        for child in ast.iter_child_nodes(n):
            rec(child)
        if isinstance(n, ast.Call):
            out.append(n)

    rec(node)
    out.sort(key=lambda c: (c.lineno, c.col_offset))
    return out
