"""Systematic sensitivity sweep: generic single-site edits of the functions a property's check analyses.

For every function the check of a property touches, generate the classic one-site edits a maintainer slip produces
(condition negated, boolean operand dropped, statement deleted, constant changed, call arguments swapped, a name
replaced by another parameter/local of the same function, comparison operator changed, break/continue swapped) as
in-memory source variants of the *current* tree, and run the property's quick analysis on each.  Nothing is executed
from /repo and nothing is written to it.

The sweep does not decide the property.  It measures how much of the analysed code the rules actually pin down
(`pinned` = the edit is reported or makes the analysis refuse to run) and lists the edits no rule notices, which is
how blind spots are found before a seeded change finds them.  Edits inside logging / debug output are generated too
and are expected to be silent; they are classified separately.

usage: python -m i2nsa.automut Cxx [--jobs N] [--out FILE] [--limit N]
"""

from __future__ import annotations

import ast
import json
import os
import sys
from concurrent.futures import ProcessPoolExecutor

from .repo import AnalysisError, Repo

LOG_NAMES = {"logging", "log", "LOG_UI", "LOG_JOB", "print"}


def _in_logging(node: ast.AST, parents: dict) -> bool:
    if isinstance(node, ast.Expr) and isinstance(node.value, ast.Call):
        node = node.value
    cur = node
    while cur is not None:
        if isinstance(cur, ast.Call):
            f = cur.func
            root = f
            while isinstance(root, ast.Attribute):
                root = root.value
            if isinstance(root, ast.Name) and root.id in LOG_NAMES:
                return True
        if isinstance(cur, ast.Raise):
            return "raise-message" if cur is not node else False
        cur = parents.get(cur)
    return False


def _span(src_lines: list[str], node: ast.AST) -> tuple[int, int]:
    """Absolute character offsets of a node in the module source."""
    start = sum(len(l) for l in src_lines[: node.lineno - 1]) + len(src_lines[node.lineno - 1].encode()[: node.col_offset].decode())
    end = sum(len(l) for l in src_lines[: node.end_lineno - 1]) + len(src_lines[node.end_lineno - 1].encode()[: node.end_col_offset].decode())
    return start, end


def raw_function(repo, f):
    """The un-normalised node of a function (edit positions refer to the real source text)."""
    tree = repo.raw_trees.get(f.module)
    if tree is None:
        return f.node
    for x in ast.walk(tree):
        if isinstance(x, (ast.FunctionDef, ast.AsyncFunctionDef)) and x.name == f.node.name and x.lineno == f.node.lineno:
            return x
    return f.node


def generate(src: str, fn: ast.AST) -> list[dict]:
    """Single-site edits inside one function: [{kind, line, old, new, start, end, logging}]."""
    lines = src.splitlines(keepends=True)
    parents = {}
    for p in ast.walk(fn):
        for c in ast.iter_child_nodes(p):
            parents[c] = p
    out = []

    def add(kind, node, new_text, note=""):
        s, e = _span(lines, node)
        old = src[s:e]
        if old == new_text:
            return
        out.append({"kind": kind, "line": node.lineno, "old": old[:160], "new": new_text[:160], "start": s, "end": e, "text": new_text,
                    "logging": bool(_in_logging(node, parents)), "note": note})

    args = fn.args
    params = [a.arg for a in args.posonlyargs + args.args + args.kwonlyargs if a.arg not in ("self", "cls")]
    locals_ = sorted({n.id for n in ast.walk(fn) if isinstance(n, ast.Name) and isinstance(n.ctx, ast.Store)})
    loop_vars = sorted({t.id for l in ast.walk(fn) if isinstance(l, (ast.For, ast.comprehension)) for t in ast.walk(l.target) if isinstance(t, ast.Name)})
    swap_pool = [p for p in dict.fromkeys(params + loop_vars + locals_)]
    body_nodes = [n for st in fn.body for n in ast.walk(st)]
    # skip the docstring
    doc = fn.body[0] if fn.body and isinstance(fn.body[0], ast.Expr) and isinstance(fn.body[0].value, ast.Constant) and isinstance(fn.body[0].value.value, str) else None
    for n in body_nodes:
        if doc is not None and (n is doc or parents.get(n) is doc):
            continue
        if isinstance(n, (ast.If, ast.While, ast.IfExp)):
            add("cond-negate", n.test, f"(not ({ast.unparse(n.test)}))")
        if isinstance(n, ast.Assert):
            add("cond-negate", n.test, f"(not ({ast.unparse(n.test)}))")
        if isinstance(n, ast.comprehension):
            for t in n.ifs:
                add("filter-negate", t, f"(not ({ast.unparse(t)}))")
                add("filter-true", t, "True")
        if isinstance(n, ast.BoolOp) and len(n.values) >= 2:
            for k in range(len(n.values)):
                rest = [v for j, v in enumerate(n.values) if j != k]
                op = " and " if isinstance(n.op, ast.And) else " or "
                add("boolop-drop", n, "(" + op.join(f"({ast.unparse(v)})" for v in rest) + ")", note=f"operand {k} dropped")
            add("boolop-flip", n, "(" + (" or " if isinstance(n.op, ast.And) else " and ").join(f"({ast.unparse(v)})" for v in n.values) + ")")
        if isinstance(n, ast.Compare) and len(n.ops) == 1:
            swap = {ast.Eq: "!=", ast.NotEq: "==", ast.Lt: "<=", ast.LtE: "<", ast.Gt: ">=", ast.GtE: ">", ast.In: "not in", ast.NotIn: "in", ast.Is: "is not", ast.IsNot: "is"}
            o = swap.get(type(n.ops[0]))
            if o:
                add("cmp-op", n, f"({ast.unparse(n.left)} {o} {ast.unparse(n.comparators[0])})")
        if isinstance(n, ast.Constant) and not isinstance(parents.get(n), ast.JoinedStr):
            if isinstance(n.value, bool):
                add("const", n, repr(not n.value))
            elif isinstance(n.value, int):
                add("const", n, repr(n.value + 1))
            elif isinstance(n.value, str) and n.value and not isinstance(parents.get(n), ast.Expr):
                add("const", n, repr(n.value + "_x"))
            elif n.value is None and isinstance(parents.get(n), (ast.Return, ast.Assign, ast.Compare)):
                pass
        if isinstance(n, ast.Call) and len(n.args) >= 2 and not any(isinstance(a, ast.Starred) for a in n.args):
            a = [ast.unparse(x) for x in n.args]
            if a[0] != a[1]:
                a[0], a[1] = a[1], a[0]
                kw = [f"{k.arg}={ast.unparse(k.value)}" if k.arg else f"**{ast.unparse(k.value)}" for k in n.keywords]
                add("arg-swap", n, f"{ast.unparse(n.func)}({', '.join(a + kw)})")
        if isinstance(n, ast.Name) and isinstance(n.ctx, ast.Load) and n.id in swap_pool:
            par = parents.get(n)
            # only where a wrong variable is a typical slip: call receiver, call argument, subscript base, attribute base
            if isinstance(par, (ast.Attribute, ast.Subscript, ast.Call, ast.keyword, ast.Compare)):
                for other in params:
                    if other != n.id and n.id in params:
                        add("name-swap", n, other, note=f"{n.id} -> {other}")
        if isinstance(n, ast.Break):
            add("break-continue", n, "continue")
        if isinstance(n, ast.Continue):
            add("break-continue", n, "break")
        if isinstance(n, (ast.Expr, ast.Assign, ast.AugAssign, ast.Raise, ast.Return, ast.Continue, ast.Break, ast.Delete)) and n is not doc:
            if isinstance(n, ast.Return) and n.value is None:
                continue
            par = parents.get(n)
            add("stmt-delete", n, "pass")
        if isinstance(n, ast.Return) and n.value is not None and isinstance(n.value, ast.Constant) and isinstance(n.value.value, bool):
            pass  # covered by const
        if isinstance(n, ast.UnaryOp) and isinstance(n.op, ast.Not):
            add("not-drop", n, f"({ast.unparse(n.operand)})")
        if isinstance(n, ast.Await):
            pass
    # de-duplicate identical edits
    seen = set()
    uniq = []
    for m in out:
        k = (m["start"], m["end"], m["text"])
        if k not in seen:
            seen.add(k)
            uniq.append(m)
    return uniq


_W: dict = {}


def _run(job):
    pid, rel, fref, m = job
    from .__main__ import run_property

    base = _W.get("repo")
    if base is None:
        base = _W["repo"] = Repo()
        try:
            ctx0 = run_property(pid, "quick", 0, base)
            _W["base"] = {i.key() for i in ctx0.instances if not i.ok}
        except AnalysisError as error:
            _W["base"] = None
    if _W["base"] is None:
        return {**m, "fref": fref, "verdict": "base-error"}
    src = base.sources[rel]
    mutated = src[: m["start"]] + m["text"] + src[m["end"]:]
    try:
        compile(mutated, rel, "exec")
    except SyntaxError:
        return {**m, "fref": fref, "verdict": "no-compile"}
    try:
        ctx = run_property(pid, "quick", 0, Repo(overrides={rel: mutated}))
        broken = [i for i in ctx.instances if not i.ok and i.key() not in _W["base"]]
        if broken:
            return {**m, "fref": fref, "verdict": "reported", "rule": broken[0].rule}
        return {**m, "fref": fref, "verdict": "silent"}
    except AnalysisError as error:
        return {**m, "fref": fref, "verdict": "refused", "rule": str(error)[:100]}
    except Exception as error:  # an internal error of the checker on odd input counts as refused, and is listed
        return {**m, "fref": fref, "verdict": "refused", "rule": f"internal: {type(error).__name__}: {error}"[:100]}


def sweep(pid: str, jobs: int = 16, limit: int | None = None, functions: list[str] | None = None, sample: int | None = None, seed: int = 0) -> dict:
    from .__main__ import run_property

    repo = Repo()
    ctx = run_property(pid, "quick", 0, repo)
    touched = sorted(ctx.functions_analysed)
    if functions:
        touched = [t for t in touched if any(f in t for f in functions)]
    work = []
    for fref in touched:
        try:
            f = repo.func(fref)
        except Exception:
            continue
        src = repo.sources[f.module]
        for m in generate(src, raw_function(repo, f)):
            work.append((pid, f.module, fref, m))
    if limit:
        work = work[:limit]
    generated = len(work)
    if sample and len(work) > sample:
        import random

        work = random.Random(seed).sample(work, sample)
    with ProcessPoolExecutor(max_workers=jobs) as ex:
        res = list(ex.map(_run, work, chunksize=8))
    for r in res:
        r.pop("text", None)
    code = [r for r in res if not r["logging"] and r["verdict"] in ("reported", "refused", "silent")]
    pinned = [r for r in code if r["verdict"] in ("reported", "refused")]
    by_kind = {}
    for r in code:
        k = by_kind.setdefault(r["kind"], [0, 0])
        k[1] += 1
        k[0] += r["verdict"] != "silent"
    by_fn = {}
    for r in code:
        k = by_fn.setdefault(r["fref"], [0, 0])
        k[1] += 1
        k[0] += r["verdict"] != "silent"
    return {
        "property": pid, "functions": len(touched), "edits_generated": generated, "edits": len(res), "edits_in_code": len(code), "pinned": len(pinned),
        "pinned_ratio": round(len(pinned) / max(1, len(code)), 3),
        "by_kind": {k: {"pinned": v[0], "of": v[1]} for k, v in sorted(by_kind.items())},
        "by_function": {k: {"pinned": v[0], "of": v[1]} for k, v in sorted(by_fn.items())},
        "silent": [r for r in code if r["verdict"] == "silent"],
        "logging_edits": sum(1 for r in res if r["logging"]),
    }


def _run_any(job):
    """Global sweep: an edit is pinned when any of the properties analysing the function notices it."""
    pids, rel, fref, m = job
    first = None
    for pid in pids:
        r = _run_p((pid, rel, fref, m))
        if r["verdict"] in ("reported", "refused"):
            r["by"] = pid
            return r
        first = first or r
    first["by"] = None
    return first


def _run_p(job):
    """Like _run, with a per-property base cache (one worker serves several properties)."""
    pid, rel, fref, m = job
    from .__main__ import run_property

    base = _W.get("repo")
    if base is None:
        base = _W["repo"] = Repo()
    if ("base", pid) not in _W:
        try:
            ctx0 = run_property(pid, "quick", 0, base)
            _W[("base", pid)] = {i.key() for i in ctx0.instances if not i.ok}
        except AnalysisError:
            _W[("base", pid)] = None
    b = _W[("base", pid)]
    if b is None:
        return {**m, "fref": fref, "verdict": "base-error"}
    src = base.sources[rel]
    mutated = src[: m["start"]] + m["text"] + src[m["end"]:]
    try:
        compile(mutated, rel, "exec")
    except SyntaxError:
        return {**m, "fref": fref, "verdict": "no-compile"}
    try:
        ctx = run_property(pid, "quick", 0, Repo(overrides={rel: mutated}))
        broken = [i for i in ctx.instances if not i.ok and i.key() not in b]
        if broken:
            return {**m, "fref": fref, "verdict": "reported", "rule": broken[0].rule}
        return {**m, "fref": fref, "verdict": "silent"}
    except AnalysisError as error:
        return {**m, "fref": fref, "verdict": "refused", "rule": str(error)[:100]}
    except Exception as error:
        return {**m, "fref": fref, "verdict": "refused", "rule": f"internal: {type(error).__name__}: {error}"[:100]}


def global_sweep(jobs: int = 16, props: list[str] | None = None, kinds: set[str] | None = None) -> dict:
    from .__main__ import run_property

    repo = Repo()
    owners: dict[str, list[str]] = {}
    props = props or [f"C{n:02d}" for n in range(1, 21)]
    for pid in props:
        ctx = run_property(pid, "quick", 0, repo)
        for fref in ctx.functions_analysed:
            owners.setdefault(fref, []).append(pid)
    work = []
    for fref, pids in sorted(owners.items()):
        try:
            f = repo.func(fref)
        except Exception:
            continue
        for m in generate(repo.sources[f.module], raw_function(repo, f)):
            if kinds is None or m["kind"] in kinds:
                work.append((pids, f.module, fref, m))
    with ProcessPoolExecutor(max_workers=jobs) as ex:
        res = list(ex.map(_run_any, work, chunksize=4))
    for r in res:
        r.pop("text", None)
    code = [r for r in res if not r["logging"] and r["verdict"] in ("reported", "refused", "silent")]
    by_fn = {}
    for r in code:
        k = by_fn.setdefault(r["fref"], [0, 0])
        k[1] += 1
        k[0] += r["verdict"] != "silent"
    return {"functions": len(owners), "owners": owners, "edits_in_code": len(code), "pinned": sum(1 for r in code if r["verdict"] != "silent"),
            "by_function": {k: {"pinned": v[0], "of": v[1]} for k, v in sorted(by_fn.items())}, "silent": [r for r in code if r["verdict"] == "silent"]}


def main(argv: list[str]) -> int:
    import argparse

    ap = argparse.ArgumentParser()
    ap.add_argument("pid")
    ap.add_argument("--jobs", type=int, default=16)
    ap.add_argument("--limit", type=int)
    ap.add_argument("--out")
    ap.add_argument("--fn", action="append")
    ap.add_argument("--kinds")
    a = ap.parse_args(argv)
    if a.pid.upper() == "ALL":
        r = global_sweep(a.jobs, kinds=set(a.kinds.split(",")) if a.kinds else None)
        print(f"ALL: {r['functions']} functions, {r['edits_in_code']} code edits, pinned by some check {r['pinned']} ({r['pinned'] / max(1, r['edits_in_code']):.0%})")
        if a.out:
            json.dump(r, open(a.out, "w"), indent=1)
        return 0
    r = sweep(a.pid.upper(), a.jobs, a.limit, a.fn)
    print(f"{r['property']}: {r['functions']} functions, {r['edits_in_code']} code edits, pinned {r['pinned']} ({r['pinned_ratio']:.0%}); logging-only edits {r['logging_edits']}")
    for k, v in r["by_kind"].items():
        print(f"   {k:16s} {v['pinned']:4d}/{v['of']:4d}")
    if a.out:
        json.dump(r, open(a.out, "w"), indent=1)
    return 0


if __name__ == "__main__":
    sys.exit(main(sys.argv[1:]))
