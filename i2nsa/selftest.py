"""Checker self-test (thorough tier): breakers must fire, preservers must stay silent.

Mutants are in-memory source variants (nothing is written to /repo or /verif): each replaces one
snippet of one module of the *current* tree.  A breaker breaks exactly one rule instance and must
be reported (by the named rule); a preserver is a behaviour-preserving rewrite and must leave the
verdict unchanged.  A snippet that is no longer present in the current tree is skipped (counted),
never failed: the self-test judges the checker, not the repository.
"""

from __future__ import annotations

import ast
import importlib
import os
from concurrent.futures import ProcessPoolExecutor

from .ctx import Ctx
from .repo import AnalysisError, Repo


def _mutants(pid: str):
    mod = importlib.import_module(f"i2nsa.props.{pid.lower()}")
    return list(getattr(mod, "MUTANTS", []))


_BASE: dict = {}


def _run_one(args):
    pid, name, rel, old, new, expect = args
    from .__main__ import run_property

    base = _BASE.get("repo")
    if base is None:
        base = _BASE["repo"] = Repo()
    src = base.sources.get(rel)
    if src is None or src.count(old) < 1:
        return {"name": name, "status": "skipped", "why": "snippet not present in the current tree"}
    mutated = src.replace(old, new, 1)
    try:
        compile(mutated, rel, "exec")
    except SyntaxError as error:
        return {"name": name, "status": "failed", "why": f"mutant does not compile: {error}"}
    if ("broken", pid) not in _BASE:
        try:
            base_ctx = run_property(pid, "quick", 0, base)
            _BASE[("broken", pid)] = {i.key() for i in base_ctx.instances if not i.ok}
        except AnalysisError as error:
            _BASE[("broken", pid)] = error
    base_broken = _BASE[("broken", pid)]
    if isinstance(base_broken, AnalysisError):
        return {"name": name, "status": "skipped", "why": f"base analysis error: {base_broken}"}
    try:
        ctx = run_property(pid, "quick", 0, Repo(overrides={rel: mutated}))
        broken = [i for i in ctx.instances if not i.ok and i.key() not in base_broken]
        err = None
    except AnalysisError as error:
        broken, err = [], str(error)
    if expect is None:
        if err is not None:
            return {"name": name, "status": "failed", "kind": "preserver", "why": f"analysis error on a behaviour-preserving rewrite: {err}"}
        if broken:
            return {"name": name, "status": "failed", "kind": "preserver",
                    "why": f"false alarm on a behaviour-preserving rewrite: {broken[0].rule} {broken[0].message}"}
        return {"name": name, "status": "ok", "kind": "preserver"}
    if err is not None:
        if expect == "ANALYSIS-ERROR":
            return {"name": name, "status": "ok", "kind": "breaker", "reported": "ANALYSIS-ERROR"}
        return {"name": name, "status": "failed", "kind": "breaker", "why": f"analysis error instead of a report: {err}"}
    # match against the rule's own id (the part after "Cxx."), not the property prefix
    hits = [i for i in broken if expect in i.rule.split(".", 1)[-1]]
    if hits:
        return {"name": name, "status": "ok", "kind": "breaker", "reported": hits[0].rule, "message": hits[0].message[:200]}
    return {"name": name, "status": "failed", "kind": "breaker",
            "why": f"breaker not reported by rule {expect}; reported instead: {[i.rule for i in broken]}"}


def run_for_property(pid: str, seed: int = 0) -> dict:
    muts = _mutants(pid)
    jobs = [(pid, *m) for m in muts]
    results = []
    if jobs:
        workers = min(16, len(jobs), os.cpu_count() or 1)
        with ProcessPoolExecutor(max_workers=workers) as ex:
            results = list(ex.map(_run_one, jobs))
    failed = [r for r in results if r["status"] == "failed"]
    return {
        "mutants": len(results),
        "breakers_reported": sum(1 for r in results if r["status"] == "ok" and r.get("kind") == "breaker"),
        "preservers_silent": sum(1 for r in results if r["status"] == "ok" and r.get("kind") == "preserver"),
        "skipped": sum(1 for r in results if r["status"] == "skipped"),
        "failed": [f"{r['name']}: {r['why']}" for r in failed],
        "results": results,
    }
