"""Reusable rule kinds (GUARD, ORDER, COUNT, ATOMIC, OWNER, TABLE helpers)."""

from __future__ import annotations

import ast
import copy
import itertools
from typing import Callable, Iterable

from . import norm
from .ctx import Ctx
from .facts import PathView, arg, is_call_named, recv_text
from .paths import Path, PathEnum, Step, find_loops, first_line, step_calls, step_own_nodes
from .repo import AnalysisError, FuncInfo, Repo, call_name, calls_in, dotted


# ---------------------------------------------------------------------- views
def role_rename(fn: FuncInfo, roles: list[str | None]) -> dict[str, str]:
    """Map the actual parameter names (positional, after self/cls) onto canonical role names."""
    params = fn.params()
    if params and params[0] in ("self", "cls"):
        params = params[1:]
    out = {}
    for actual, role in zip(params, roles):
        if role and actual != role:
            out[actual] = role
    return out


def names_interesting(names: Iterable[str], extra: Callable[[ast.AST], bool] | None = None):
    s = set(names)

    def pred(n: ast.AST) -> bool:
        if isinstance(n, ast.Call) and call_name(n) in s:
            return True
        if isinstance(n, ast.Attribute) and n.attr in s:
            return True
        if isinstance(n, ast.Name) and n.id in s and isinstance(n.ctx, (ast.Store, ast.Del)):
            return True
        if isinstance(n, ast.Await):
            return True
        if isinstance(n, ast.Constant) and isinstance(n.value, str) and n.value in s:
            return True
        return bool(extra and extra(n))

    return pred


def function_views(ctx: Ctx, fref: str, interesting=None, roles: list[str | None] | None = None,
                   max_paths: int = 40000) -> list[PathView]:
    fn = ctx.repo.func(fref)
    ctx.touch(fref)
    pe = PathEnum(interesting, max_paths=max_paths)
    paths = pe.function_paths(fn.node)
    ctx.paths_enumerated += len(paths)
    rename = role_rename(fn, roles) if roles else {}
    return [v for v in (PathView(p, rename) for p in paths) if v.feasible()]


def loop_iteration_views(ctx: Ctx, fref: str, loop: ast.AST, interesting=None,
                         roles: list[str | None] | None = None, pre_steps: list[Step] | None = None,
                         max_paths: int = 40000) -> list[PathView]:
    """Paths through one iteration of `loop` (entered with its condition true)."""
    fn = ctx.repo.func(fref)
    ctx.touch(fref)
    pe = PathEnum(interesting, max_paths=max_paths)
    paths = pe.block(loop.body)
    ctx.paths_enumerated += len(paths)
    rename = role_rename(fn, roles) if roles else {}
    if isinstance(loop, ast.While):
        head = [Step("cond", loop.test, True)]
    else:
        head = [Step("iter", loop, extra="next")]
    head = (pre_steps or []) + head
    return [v for v in (PathView(Path(head + p.steps, p.exit, p.exit_node), rename) for p in paths) if v.feasible()]


def the_loop(ctx: Ctx, fref: str, kind, pred: Callable[[ast.AST], bool], what: str) -> ast.AST:
    fn = ctx.repo.func(fref)
    loops = [l for l in find_loops(fn.node, kind) if pred(l)]
    if len(loops) != 1:
        raise AnalysisError(f"{fref}: expected exactly one {what}, found {len(loops)}")
    return loops[0]


# ---------------------------------------------------------------------- formula helpers
def method_atom(view: PathView, idx: int, recv: ast.AST, method: str, args: list[ast.AST]):
    """Canonical formula of ``recv.method(*args)`` with the locals known at step idx."""
    call = ast.Call(
        func=ast.Attribute(value=copy.deepcopy(recv), attr=method, ctx=ast.Load()),
        args=[copy.deepcopy(a) for a in args],
        keywords=[],
    )
    return view.formula_of(ast.fix_missing_locations(call), idx)


def expr_formula(view: PathView, idx: int, text: str):
    return view.formula_of(ast.parse(text, mode="eval").body, idx)


# ---------------------------------------------------------------------- GUARD
class SiteResult:
    def __init__(self, node: ast.AST):
        self.node = node
        self.paths = 0
        self.failures: list[dict] = []


def guard_rule(
    ctx: Ctx,
    rule: str,
    fref: str,
    views: list[PathView],
    site_pred: Callable[[ast.Call], bool],
    required: Callable[[PathView, int, ast.Call], object],
    since: Callable[[PathView, int, ast.Call], int | None] | None = None,
    invalidating_calls: set[str] | None = None,
    min_sites: int = 1,
    missing_is_violation: bool = False,
    what: str = "",
    kind: str = "GUARD",
    describe_required: str = "",
) -> dict:
    """Every path reaching a matching call site carries valid conditions implying `required`.

    `since(view, idx, call)` may return a step index: only conditions evaluated after it count
    (freshness, e.g. "evaluated after the traversal of the node"); returning None means the
    anchoring event is missing on that path, which breaks the rule.
    """
    sites: dict[int, SiteResult] = {}
    for view in views:
        for idx, call in view.calls(site_pred):
            res = sites.setdefault(id(call), SiteResult(call))
            res.paths += 1
            start = 0
            if since is not None:
                start = since(view, idx, call)
                if start is None:
                    res.failures.append({"reason": "anchoring event missing on path", "path": view.path.describe()})
                    continue
            req = required(view, idx, call)
            prem = view.premise(idx, start, invalidating_calls, inner=call)
            if not norm.implies(prem, req):
                res.failures.append(
                    {
                        "reason": "guard not implied",
                        "required": norm.show(req),
                        "known_on_path": norm.show(prem),
                        "path": view.path.describe(),
                    }
                )
    ok_all = ctx.expect_sites(rule, len(sites), min_sites, fref, missing_is_violation, what or "guarded call site")
    for res in sorted(sites.values(), key=lambda r: (r.node.lineno, r.node.col_offset)):
        ok = not res.failures
        facts = {"paths_through_site": res.paths, "required": describe_required}
        if not ok:
            facts["first_failure"] = res.failures[0]
            facts["failing_paths"] = len(res.failures)
        ctx.record(rule, kind, fref, ast.unparse(res.node), ok, facts,
                   "" if ok else f"call site {ast.unparse(res.node)!r} is reachable without the required guard "
                   f"({describe_required}); e.g. needed {res.failures[0].get('required', '?')}, "
                   f"known {res.failures[0].get('known_on_path', res.failures[0]['reason'])}")
    return sites


def last_call_before(view: PathView, idx: int, pred: Callable[[ast.Call], bool]) -> int | None:
    last = None
    for i, c in view.calls(pred):
        if i < idx:
            last = i
        elif i == idx:
            break
    return last


# ---------------------------------------------------------------------- OWNER scans
def attribute_stores(repo: Repo, attr: str, modules: tuple[str, ...] | None = None):
    """Yield (FuncInfo|None, stmt, how) for every store/mutation of ``<x>.<attr>`` in the package."""
    for rel, tree in repo.trees.items():
        if modules is not None and not rel.startswith(modules):
            continue
        owner_of: dict[int, FuncInfo | None] = {}
        funcs = [f for f in repo.functions.values() if f.module == rel]

        def owner(node: ast.AST) -> FuncInfo | None:
            best = None
            for f in funcs:
                if f.node.lineno <= node.lineno <= (f.node.end_lineno or f.node.lineno):
                    if best is None or f.node.lineno >= best.node.lineno:
                        best = f
            return best

        for node in ast.walk(tree):
            hits = []
            if isinstance(node, ast.Assign):
                for t in node.targets:
                    for tt in (t.elts if isinstance(t, (ast.Tuple, ast.List)) else [t]):
                        hits += _store_hits(tt, attr, "assign")
            elif isinstance(node, ast.AugAssign):
                hits += _store_hits(node.target, attr, "augassign")
            elif isinstance(node, ast.AnnAssign) and node.value is not None:
                hits += _store_hits(node.target, attr, "assign")
            elif isinstance(node, ast.Delete):
                for t in node.targets:
                    hits += _store_hits(t, attr, "delete")
            elif isinstance(node, ast.Call) and isinstance(node.func, ast.Attribute):
                if node.func.attr in norm.MUTATORS:
                    recv = node.func.value
                    if isinstance(recv, ast.Attribute) and recv.attr == attr:
                        hits.append(f"mutator:{node.func.attr}")
                    elif isinstance(recv, ast.Subscript) and isinstance(recv.value, ast.Attribute) and recv.value.attr == attr:
                        hits.append(f"mutator-item:{node.func.attr}")
                if node.func.attr == "setattr" or (isinstance(node.func, ast.Name) and node.func.id == "setattr"):
                    pass
            if isinstance(node, ast.Call) and isinstance(node.func, ast.Name) and node.func.id in ("setattr", "delattr"):
                if len(node.args) >= 2 and isinstance(node.args[1], ast.Constant) and node.args[1].value == attr:
                    hits.append(node.func.id)
            for how in hits:
                yield owner(node), node, how


def _store_hits(target: ast.AST, attr: str, how: str) -> list[str]:
    if isinstance(target, ast.Attribute) and target.attr == attr:
        return [how]
    if isinstance(target, ast.Subscript):
        v = target.value
        while isinstance(v, ast.Subscript):
            v = v.value
        if isinstance(v, ast.Attribute) and v.attr == attr:
            return [how + "-item"]
    return []


def call_sites(repo: Repo, name: str, modules: tuple[str, ...] | None = None):
    """Yield (FuncInfo|None, call) for every call whose callee's last component is `name`."""
    for rel, tree in repo.trees.items():
        if modules is not None and not rel.startswith(modules):
            continue
        funcs = [f for f in repo.functions.values() if f.module == rel]
        for node in ast.walk(tree):
            if isinstance(node, ast.Call) and call_name(node) == name:
                best = None
                for f in funcs:
                    if f.node.lineno <= node.lineno <= (f.node.end_lineno or f.node.lineno):
                        if best is None or f.node.lineno >= best.node.lineno:
                            best = f
                yield best, node


def name_loads(repo: Repo, name: str, modules: tuple[str, ...] | None = None):
    """Yield (FuncInfo|None, node) for attribute or name references `name` that are not calls' callee."""
    for rel, tree in repo.trees.items():
        if modules is not None and not rel.startswith(modules):
            continue
        funcs = [f for f in repo.functions.values() if f.module == rel]
        callees = {id(n.func) for n in ast.walk(tree) if isinstance(n, ast.Call)}
        for node in ast.walk(tree):
            hit = (isinstance(node, ast.Attribute) and node.attr == name) or (
                isinstance(node, ast.Name) and node.id == name
            )
            if hit and id(node) not in callees and isinstance(getattr(node, "ctx", None), ast.Load):
                best = None
                for f in funcs:
                    if f.node.lineno <= node.lineno <= (f.node.end_lineno or f.node.lineno):
                        if best is None or f.node.lineno >= best.node.lineno:
                            best = f
                yield best, node


def owner_rule(ctx: Ctx, rule: str, what: str, found: list[tuple[FuncInfo | None, ast.AST, str]],
               allowed: dict[str, str], min_sites: int = 1, anchor: str = "avocado_i2n") -> None:
    """`found` writers/callers must all be in `allowed` (ref -> reason)."""
    ctx.expect_sites(rule, len(found), min_sites, anchor, False, what)
    seen = set()
    for f, node, how in found:
        ref = f.ref if f is not None else "<module level>"
        ok = ref in allowed
        key = (ref, ast.unparse(node) if not isinstance(node, (ast.FunctionDef,)) else node.name)
        if key in seen:
            continue
        seen.add(key)
        ctx.record(rule, "OWNER", ref, f"{how}: {first_line(node)}", ok,
                   {"what": what, "allowed": allowed.get(ref, sorted(allowed))},
                   "" if ok else f"{what}: unexpected site in {ref}: {first_line(node)} (allowed only in {sorted(allowed)})")


# ---------------------------------------------------------------------- TABLE
class TableSpec:
    """Reference decision table of a function.

    `atoms`: list of (name, matcher) where matcher(text) -> None | value-predicate.  A matcher
    receives the canonical atom text and returns a function valuation->bool when the atom is one
    of the reference's variables.
    `domains`: name -> list of values (booleans by default).
    `reference(valuation) -> outcome` where outcome is a hashable description.
    """

    def __init__(self, domains: dict[str, list], matchers: list[Callable[[str], Callable | None]],
                 reference: Callable[[dict], object], constraint: Callable[[dict], bool] | None = None):
        self.domains = domains
        self.matchers = matchers
        self.reference = reference
        self.constraint = constraint

    def match(self, atom_text: str):
        for m in self.matchers:
            r = m(atom_text)
            if r is not None:
                return r
        return None

    def valuations(self):
        names = list(self.domains)
        for combo in itertools.product(*(self.domains[n] for n in names)):
            val = dict(zip(names, combo))
            if self.constraint is None or self.constraint(val):
                yield val


def eval_with_spec(f, spec: TableSpec, val: dict, free: dict[str, bool]):
    """Evaluate formula f; atoms known to the spec use the valuation, others the `free` map."""
    k = f[0]
    if k == "atom":
        m = spec.match(f[1])
        if m is not None:
            return bool(m(val))
        return free[f[1]]
    if k == "const":
        return f[1]
    if k == "not":
        return not eval_with_spec(f[1], spec, val, free)
    if k == "and":
        return all(eval_with_spec(x, spec, val, free) for x in f[1])
    if k == "or":
        return any(eval_with_spec(x, spec, val, free) for x in f[1])
    raise AnalysisError(f"bad formula {f!r}")


def compile_formula(f, spec: TableSpec):
    """Closure evaluating formula f under (valuation, free): matcher lookups are resolved once."""
    k = f[0]
    if k == "atom":
        m = spec.match(f[1])
        if m is not None:
            return lambda val, free, m=m: bool(m(val))
        name = f[1]
        return lambda val, free, name=name: free[name]
    if k == "const":
        c = f[1]
        return lambda val, free, c=c: c
    if k == "not":
        g = compile_formula(f[1], spec)
        return lambda val, free, g=g: not g(val, free)
    if k in ("and", "or"):
        gs = [compile_formula(x, spec) for x in f[1]]
        if k == "and":
            return lambda val, free, gs=gs: all(g(val, free) for g in gs)
        return lambda val, free, gs=gs: any(g(val, free) for g in gs)
    raise AnalysisError(f"bad formula {f!r}")


def unknown_atoms(f, spec: TableSpec) -> list[str]:
    return [a for a in norm.atoms_of(f) if spec.match(a) is None]


class _Recorder(dict):
    """Valuation stand-in that records which reference variables a matcher reads."""

    def __init__(self, domains):
        super().__init__({k: v[0] for k, v in domains.items()})
        self.read: set[str] = set()

    def __getitem__(self, key):
        self.read.add(key)
        return super().__getitem__(key)


def table_rule(ctx: Ctx, rule: str, fref: str, views: list[PathView], spec: TableSpec,
               outcome_of: Callable[[PathView, dict, dict], object], ignore_atoms: Callable[[str], bool] | None = None,
               construct: str = "", max_free: int = 6) -> None:
    """Compare the extracted decision function with the reference for every valuation.

    For each path, and each valuation of the reference variables (and of the atoms the reference
    does not know, treated as free) under which all of the path's conditions hold, the path's
    outcome must equal reference(valuation).  Every valuation must be covered by some path.
    """
    rows_checked = 0
    names = list(spec.domains)
    mismatches: list[dict] = []
    covered: dict[tuple, set] = {}
    for view in views:
        conds = [view.cond_formula(i) for i, st in enumerate(view.steps) if st.kind == "cond"]
        if ignore_atoms is not None:
            # conditions over state the table does not model (e.g. a work list re-tested after it was mutated) are left out
            conds = [c for c in conds if not any(ignore_atoms(a) for a in norm.atoms_of(c))]
        formulas = list(conds)
        if view.path.exit == "return" and view.path.exit_node.value is not None:
            formulas.append(view.formula_of(view.path.exit_node.value, len(view.steps)))
        free_names: list[str] = []
        rec = _Recorder(spec.domains)
        for f in formulas:
            for a in norm.atoms_of(f):
                m = spec.match(a)
                if m is None:
                    if a not in free_names:
                        free_names.append(a)
                else:
                    try:
                        m(rec)
                    except Exception:  # a matcher must only index the valuation
                        raise AnalysisError(f"matcher for atom {a!r} failed while probing its variables")
        if len(free_names) > max_free:
            raise AnalysisError(f"{fref}: too many atoms unknown to the reference table on one path: {free_names}")
        relevant = [n for n in names if n in rec.read]
        others = [n for n in names if n not in rec.read]
        compiled = [compile_formula(c, spec) for c in conds]
        free_space = [dict(zip(free_names, bits)) for bits in itertools.product((False, True), repeat=len(free_names))]
        other_space = [dict(zip(others, combo)) for combo in itertools.product(*(spec.domains[n] for n in others))]
        for combo in itertools.product(*(spec.domains[n] for n in relevant)):
            partial = dict(zip(relevant, combo))
            probe = dict(rec)  # defaults for the variables the path does not read
            probe.update(partial)
            for free in free_space:
                if not all(g(probe, free) for g in compiled):
                    continue
                got = outcome_of(view, probe, free)
                for rest in other_space:
                    val = dict(rest)
                    val.update(partial)
                    if spec.constraint is not None and not spec.constraint(val):
                        continue
                    rows_checked += 1
                    want = spec.reference(val)
                    key = tuple(val[n] for n in names)
                    covered.setdefault(key, set()).add(repr(got))
                    if got != want and len(mismatches) < 50:
                        mismatches.append({
                            "valuation": dict(val),
                            "also_depends_on": dict(free),
                            "expected": repr(want),
                            "extracted": repr(got),
                            "path": view.path.describe(),
                        })
                    elif got != want:
                        mismatches.append({})
    all_vals = list(spec.valuations())
    uncovered = [dict(val) for val in all_vals if tuple(val[n] for n in names) not in covered]
    ok = not mismatches and not uncovered
    facts = {"rows_checked": rows_checked, "valuations": len(all_vals), "paths": len(views)}
    msg = ""
    if mismatches:
        facts["mismatches"] = [m for m in mismatches if m][:5]
        facts["n_mismatches"] = len(mismatches)
        m = mismatches[0]
        msg = (f"decision table of {fref} differs from the reference: for {m['valuation']}"
               + (f" (and {m['also_depends_on']})" if m["also_depends_on"] else "")
               + f" expected {m['expected']}, code gives {m['extracted']}")
    elif uncovered:
        facts["uncovered"] = uncovered[:5]
        msg = f"no path of {fref} covers valuation {uncovered[0]}"
    # evidence: the extracted table, a few rows per distinct outcome (complete when small)
    by_outcome: dict[str, list] = {}
    for k, v in sorted(covered.items(), key=lambda kv: repr(kv[0])):
        by_outcome.setdefault(" | ".join(sorted(v)), []).append(dict(zip(names, k)))
    rows = []
    per = 64 if len(covered) <= 64 else max(2, 48 // max(1, len(by_outcome)))
    for out, vals in sorted(by_outcome.items()):
        rows.append({"outcome": out, "valuations_with_this_outcome": len(vals), "examples": vals[:per]})
    ctx.tables[f"{ctx.prop}.{rule}"] = rows
    ctx.record(rule, "TABLE", fref, construct or f"decision table of {fref.split(':')[1]}", ok, facts, msg)


def bool_return_outcome(view: PathView, val: dict, free: dict, spec: TableSpec):
    """Outcome of a path of a boolean-valued function: True/False/raise:<Type>."""
    p = view.path
    if p.exit == "raise":
        return "raise:" + (PathEnum._raised_name(p.exit_node) or "?")
    if p.exit == "return":
        v = p.exit_node.value
        if v is None:
            return None
        f = view.formula_of(v, len(view.steps))
        for a in unknown_atoms(f, spec):
            if a not in free:
                return f"opaque:{a}"
        return eval_with_spec(f, spec, val, free)
    if p.exit == "fall":
        return None
    return p.exit


# ---------------------------------------------------------------------- CONST: signature defaults
def signature_defaults(ctx: Ctx, rule: str, table: dict[str, dict[str, str]], why: str) -> None:
    """Default values of the parameters of anchored functions (a changed default changes every call that omits it)."""
    for fref, want in table.items():
        fn = ctx.repo.func(fref)
        ctx.touch(fref)
        a = fn.node.args
        pos = a.posonlyargs + a.args
        got = {}
        for arg, d in zip(pos[len(pos) - len(a.defaults):], a.defaults):
            got[arg.arg] = ast.unparse(d)
        for arg, d in zip(a.kwonlyargs, a.kw_defaults):
            if d is not None:
                got[arg.arg] = ast.unparse(d)
        bad = {k: got.get(k) for k, v in want.items() if got.get(k) != v}
        ctx.record(rule, "CONST", fref, "defaults: " + ", ".join(f"{k}={v}" for k, v in want.items()), not bad, {"found": {k: got.get(k) for k in want}},
                   "" if not bad else f"default value(s) changed: {bad} ({why})")
