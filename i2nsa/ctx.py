"""Check context: collects rule instances, decides the exit code, writes evidence."""

from __future__ import annotations

import ast
import json
import os
import time
from dataclasses import dataclass, field

from .repo import AnalysisError, Repo

VERIF_ROOT = os.path.dirname(os.path.dirname(os.path.abspath(__file__)))
KNOWN_FINDINGS = os.path.join(VERIF_ROOT, "known_findings.json")


@dataclass
class Instance:
    rule: str  # e.g. "C01.1/T.G1"
    kind: str  # GUARD, ORDER, ...
    anchor: str  # module:qualname
    construct: str  # normalised statement / site text
    ok: bool
    facts: dict = field(default_factory=dict)
    message: str = ""

    def key(self) -> tuple:
        return (self.rule, self.anchor, self.construct)

    def as_dict(self) -> dict:
        d = {
            "rule": self.rule,
            "kind": self.kind,
            "anchor": self.anchor,
            "construct": self.construct,
            "verdict": "holds" if self.ok else "BROKEN",
        }
        if self.message:
            d["message"] = self.message
        if self.facts:
            d["facts"] = self.facts
        return d


class Ctx:
    def __init__(self, prop: str, repo: Repo, tier: str = "quick", seed: int = 0):
        self.prop = prop
        self.repo = repo
        self.tier = tier
        self.seed = seed
        self.instances: list[Instance] = []
        self.notes: list[str] = []
        self.functions_analysed: set[str] = set()
        self.paths_enumerated = 0
        self.tables: dict[str, list] = {}
        self.assumptions: list[str] = []
        self.extra: dict = {}
        self.deferred: list[str] = []

    def call(self, fn, *args, **kwargs) -> None:
        """Run one rule; an analysis error of that rule is deferred so that the other rules still run.

        Deferred errors make the whole check exit 2 unless a violation was found (a violation is the more
        specific answer: typically the construct a rule anchors on was removed by the very change it reports)."""
        try:
            fn(self, *args, **kwargs)
        except AnalysisError as error:
            self.deferred.append(str(error))

    # ------------------------------------------------------------------ recording
    def record(self, rule, kind, anchor, construct, ok, facts=None, message="") -> Instance:
        construct = " ".join(str(construct).split())
        if len(construct) > 300:
            construct = construct[:297] + "..."
        inst = Instance(f"{self.prop}.{rule}" if not rule.startswith(self.prop) else rule,
                        kind, anchor, construct, bool(ok), facts or {}, message)
        self.instances.append(inst)
        return inst

    def note(self, text: str) -> None:
        self.notes.append(text)

    def touch(self, fref: str) -> None:
        self.functions_analysed.add(fref)

    def require(self, cond: bool, what: str) -> None:
        """An analysis precondition (anchor shape); failing it is exit 2, never a violation."""
        if not cond:
            raise AnalysisError(what)

    def require_locals(self, fref: str, names) -> None:
        """Rules that refer to a local variable by name are only meaningful while that local exists.

        A vanished local (renamed by a refactoring) is an analysis error (exit 2), never a violation."""
        import ast as _ast

        fn = self.repo.func(fref)
        bound = {n.id for n in _ast.walk(fn.node) if isinstance(n, _ast.Name) and isinstance(n.ctx, (_ast.Store, _ast.Del))}
        bound |= set(fn.params())
        for a in _ast.walk(fn.node):
            if isinstance(a, _ast.arg):
                bound.add(a.arg)
        missing = [n for n in names if n not in bound]
        if missing:
            raise AnalysisError(f"{fref}: local variable(s) {missing} that the rule refers to no longer exist (renamed?)")

    def expect_sites(self, rule: str, found: int, minimum: int, anchor: str, missing_is_violation=False,
                     what: str = "") -> bool:
        """Guard against vacuous passes: fewer sites than confirmed by reading."""
        if found >= minimum:
            return True
        msg = f"rule {rule}: {found} site(s) of {what or 'the anchored construct'} in {anchor}, expected at least {minimum}"
        if missing_is_violation:
            self.record(rule, "COUNT", anchor, f"<missing> {what}", False, {"found": found, "expected_min": minimum}, msg)
            return False
        self.deferred.append(msg)
        return False


def load_known_findings() -> dict:
    if not os.path.exists(KNOWN_FINDINGS):
        return {"findings": [], "fixed": []}
    with open(KNOWN_FINDINGS) as fd:
        return json.load(fd)


def finding_matches(entry: dict, inst: Instance) -> bool:
    return (
        entry.get("rule") == inst.rule
        and entry.get("anchor") == inst.anchor
        and " ".join(entry.get("construct", "").split()) == inst.construct
    )
