"""Rules about graph construction (cartgraph/graph.py, node.py) shared by C06, C07, C09."""

from __future__ import annotations

import ast

from .. import norm
from ..ctx import Ctx
from ..facts import PathView, dict_writes, is_call_named, stores_attr
from ..kinds import (
    attribute_stores,
    call_sites,
    expr_formula,
    function_views,
    guard_rule,
    loop_iteration_views,
    names_interesting,
    owner_rule,
    the_loop,
)
from ..paths import PathEnum, first_line
from ..repo import AnalysisError, call_name, calls_in

GRAPH = "cartgraph/graph.py"
NODE = "cartgraph/node.py"
G = f"{GRAPH}:TestGraph"
N_ = f"{NODE}:TestNode"
GAPC = f"{G}.get_and_parse_nodes_from_composite_node_and_object"
PB = f"{G}.parse_branches_for_node_and_object"
PCB = f"{G}.parse_cloned_branches_for_node_and_object"


# ---------------------------------------------------------------------- C06.1 edge symmetry
def edge_symmetry(ctx: Ctx, rule: str) -> None:
    fref = f"{N_}.descend_from_node"
    fn = ctx.repo.func(fref)
    params = fn.params()
    par, obj = params[1], params[2]
    views = function_views(ctx, fref, None)
    problems = []
    n = 0
    for v in views:
        if v.path.exit == "raise":
            continue
        n += 1
        s_stores = [(i, s) for i, s in v.stmts(lambda s: isinstance(s, ast.Assign) and isinstance(s.targets[0], ast.Subscript)
                                               and ast.unparse(s.targets[0].value) == "self._setup_nodes")]
        c_stores = [(i, s) for i, s in v.stmts(lambda s: isinstance(s, ast.Assign) and isinstance(s.targets[0], ast.Subscript)
                                               and ast.unparse(s.targets[0].value) == f"{par}._cleanup_nodes")]
        if len(s_stores) != 1 or len(c_stores) != 1:
            problems.append((f"a path records the dependency on {len(s_stores)} child side(s) and {len(c_stores)} parent side(s)", v))
            continue
        (si, s), (ci, c) = s_stores[0], c_stores[0]
        # values with the path's locals substituted (a hoisted `{obj}` literal is the literal)
        ok_s = ast.unparse(s.targets[0].slice) == par and v.canon_text(s.value, si) == f"self._setup_nodes.get({par}, set()) | {{{obj}}}"
        ok_c = ast.unparse(c.targets[0].slice) == "self" and v.canon_text(c.value, ci) == f"{par}._cleanup_nodes.get(self, set()) | {{{obj}}}"
        if not (ok_s and ok_c):
            problems.append((f"the two ends are not updated alike: {first_line(s)} / {first_line(c)}", v))
    ctx.record(rule, "PAIR", fref, f"every path: self._setup_nodes[{par}] |= {{{obj}}} and {par}._cleanup_nodes[self] |= {{{obj}}} (additive, same object)",
               not problems and n >= 1, {"paths": n, **({"path": problems[0][1].path.describe()} if problems else {})},
               "" if not problems and n >= 1 else (problems[0][0] if problems else "no normal path"))
    for attr in ("_setup_nodes", "_cleanup_nodes"):
        found = list(attribute_stores(ctx.repo, attr, ("cartgraph/", "plugins/", "intertest_setup.py")))
        owner_rule(ctx, rule + "o", f"write to {attr}", found, {f"{N_}.__init__": "empty dict", fref: "symmetric registration"}, 2)
        dels = [(f, n_, how) for f, n_, how in found if "delete" in how or how.startswith("mutator")]
        ctx.record(rule + "d", "OWNER", "cartgraph/*", f"no deletion or in-place mutation of {attr} anywhere", not dels, {},
                   "" if not dels else f"an edge can be removed or altered on one end: {first_line(dels[0][1])}")
    # read-only views
    c = ctx.repo.cls(f"{NODE}:TestNode.ReadOnlyDict")
    bound = {}
    for s in c.node.body:
        if isinstance(s, ast.Assign) and isinstance(s.value, ast.Name):
            bound[ast.unparse(s.targets[0])] = s.value.id
    want = {"__setitem__", "__delitem__", "pop", "popitem", "clear", "update", "setdefault"}
    ro = ctx.repo.func(f"{NODE}:TestNode.ReadOnlyDict._readonly")
    raises = len(ro.node.body) >= 1 and isinstance(ro.node.body[-1], ast.Raise) and all(
        isinstance(x, (ast.Raise, ast.Expr)) for x in ro.node.body)
    ok = want <= set(bound) and all(bound[k] == "_readonly" for k in want) and raises
    ctx.record(rule + "r", "TYPE", f"{NODE}:TestNode.ReadOnlyDict", "all seven mutators of the public edge views raise", ok, {"bound": sorted(bound)},
               "" if ok else "the read-only view of the edges can be mutated")
    for prop, attr in (("setup_nodes", "_setup_nodes"), ("cleanup_nodes", "_cleanup_nodes")):
        f = ctx.repo.func(f"{N_}.{prop}")
        rets = [r for r in ast.walk(f.node) if isinstance(r, ast.Return)]
        okp = len(rets) == 1 and ast.unparse(rets[0].value) == f"TestNode.ReadOnlyDict(self.{attr})" and "property" in f.decorators
        ctx.record(rule + "v", "TYPE", f.ref, f"{prop} is a property returning ReadOnlyDict(self.{attr})", okp, {}, "" if okp else f"{prop} hands out the mutable edge dict")


# ---------------------------------------------------------------------- C06.2 index consistency
def index_consistency(ctx: Ctx, rule: str) -> None:
    for fname, lst, idx_call in (("new_nodes", "_nodes", "self.nodes_index.insert"), ("new_objects", "_objects", None)):
        fref = f"{G}.{fname}"
        fn = ctx.repo.func(fref)
        loop = the_loop(ctx, fref, ast.For, lambda l: True, "registration loop")
        it = loop.target.id
        views = loop_iteration_views(ctx, fref, loop, None)
        problems = []
        for v in views:
            apps = [c for i, c in v.calls(lambda c: call_name(c) == "append" and ast.unparse(c.func.value) == f"self.{lst}")]
            if len(apps) != 1 or ast.unparse(apps[0].args[0]) != it:
                problems.append("list registration missing or duplicated on a path")
            if idx_call:
                ins = [c for i, c in v.calls(lambda c: ast.unparse(c.func) == idx_call)]
                if len(ins) != 1 or ast.unparse(ins[0].args[0]) != it:
                    problems.append("index registration missing or duplicated on a path")
            else:
                st = [s for i, s in v.stmts(lambda s: isinstance(s, ast.Assign) and ast.unparse(s.targets[0]).startswith("self.objects_index["))]
                if len(st) != 1 or ast.unparse(st[0].value) != it or ast.unparse(st[0].targets[0].slice) != f"{it}.long_suffix":
                    problems.append("object index registration missing or keyed differently")
            if v.path.exit not in ("fall", "continue"):
                problems.append("the registration loop can end early")
        ctx.record(rule, "COUNT", fref, f"each element is added exactly once to self.{lst} and to its index", not problems, {"paths": len(views)},
                   "" if not problems else problems[0])
    found = [(f, n_, how) for f, n_, how in attribute_stores(ctx.repo, "_nodes", ("cartgraph/", "plugins/", "intertest_setup.py"))]
    owner_rule(ctx, rule + "o", "write to TestGraph._nodes", found, {f"{G}.__init__": "empty", f"{G}.new_nodes": "registration"}, 2)
    ins = [(f, c, "call") for f, c in call_sites(ctx.repo, "insert", ("cartgraph/", "plugins/", "intertest_setup.py"))
           if "nodes_index" in ast.unparse(c.func)]
    owner_rule(ctx, rule + "o", "nodes_index.insert call", ins, {f"{G}.new_nodes": "registration"}, 1)
    found = [(f, n_, how) for f, n_, how in attribute_stores(ctx.repo, "_objects", ("cartgraph/", "plugins/", "intertest_setup.py"))]
    owner_rule(ctx, rule + "o", "write to TestGraph._objects", found, {f"{G}.__init__": "empty", f"{G}.new_objects": "registration"}, 2)


# ---------------------------------------------------------------------- C06.3 validate coverage
def validate_coverage(ctx: Ctx, rule: str) -> None:
    n = 0
    for f in ctx.repo.all_functions(("cartgraph/", "plugins/", "intertest_setup.py")):
        for loop in [l for l in ast.walk(f.node) if isinstance(l, ast.For) and isinstance(l.iter, ast.Call)
                     and call_name(l.iter) == "parse_paths_to_object_roots"]:
            n += 1
            ctx.touch(f.ref)
            tgt = loop.target
            third = ast.unparse(tgt.elts[2]) if isinstance(tgt, ast.Tuple) and len(tgt.elts) == 3 else None
            pe = PathEnum(names_interesting({"validate"}))
            paths = pe.block(loop.body)
            bad = [p for p in paths if p.exit in ("fall", "continue") and not any(
                call_name(c) == "validate" and ast.unparse(c.func.value) == third for st in p.steps for c in __import__("i2nsa.paths", fromlist=["x"]).step_calls(st))]
            ctx.record(rule, "COUNT", f.ref, f"for ... in {ast.unparse(loop.iter)[:70]}: {third}.validate() on every pass", third is not None and not bad,
                       {"paths": len(paths)}, "" if third is not None and not bad else "a freshly resolved node is not validated")
            if f.ref == f"{G}.traverse_object_trees":
                # lazily parsed object roots are attached to the shared root before validation
                body_txt = [ast.unparse(s) for s in loop.body]
                att = [i for i, s in enumerate(loop.body) if isinstance(s, ast.For) and "is_object_root()" in ast.unparse(s) and "descend_from_node(root" in ast.unparse(s)]
                val = [i for i, s in enumerate(loop.body) if "validate()" in ast.unparse(s)]
                ok = len(att) == 1 and len(val) == 1 and att[0] < val[0]
                if ok:
                    inner = loop.body[att[0]]
                    ok = ast.unparse(inner.iter) == ast.unparse(tgt.elts[0]) and len(inner.body) == 1 and isinstance(inner.body[0], ast.If)
                    if ok:
                        p = inner.target.id
                        ok = ast.unparse(inner.body[0].test) == f"{p}.is_object_root()" and \
                            ast.unparse(inner.body[0].body[0]) == f"{p}.descend_from_node(root, {p}.get_terminal_object())"
                ctx.record(rule + "r", "ORDER", f.ref, "every lazily parsed parent that is an object root is attached to the shared root, before validate()", ok, {},
                           "" if ok else "lazily parsed object roots are no longer attached to the shared root (unreachable or rootless nodes)")
    ctx.expect_sites(rule, n, 2, "cartgraph/*", False, "loop over parse_paths_to_object_roots")
    callers = [(f, c, "call") for f, c in call_sites(ctx.repo, "parse_branches_for_node_and_object", ("cartgraph/", "plugins/", "intertest_setup.py"))]
    owner_rule(ctx, rule + "o", "call of parse_branches_for_node_and_object", callers, {f"{G}.parse_paths_to_object_roots": "the one resolution loop"}, 1)


# ---------------------------------------------------------------------- C06.4 validate table
VALIDATE_ROWS = [
    ("ValueError", "self in self.setup_nodes or self in self.cleanup_nodes"),
    ("return", "self.is_flat()"),
    ("AssertionError", "len(attr_nets) > 1 or len(param_nets) > 1"),
    ("AssertionError", "self.objects and self.objects[0].suffix != attr_net_name"),
    ("AssertionError", "param_net_name != attr_net_name"),
    ("ValueError", "len(param_vms - attr_vms) > 0"),
    ("ValueError", "len(attr_vms - param_vms) > 0"),
    ("continue", "node.is_flat()"),
    ("ValueError", "len(spurious_objects) > 0"),
    ("ValueError", "not object_state"),
    ("continue", "object_params['get_state'] == '0root'"),
    ("ValueError", "object_state != object_params['get_state']"),
]
VALIDATE_DEFS = {
    "param_nets": "self.params.objects('nets')",
    "attr_nets": "list((o.suffix for o in self.objects if o.key == 'nets'))",
    "param_vms": "set(self.params.objects('vms'))",
    "attr_vms": "set((o.suffix for o in self.objects if o.key == 'vms'))",
    "object_set": "self.setup_nodes[node]",
    "spurious_objects": "object_set - set(self.objects)",
    "object_state": "object_params.get('set_state')",
}


def validate_table(ctx: Ctx, rule: str) -> None:
    fref = f"{N_}.validate"
    fn = ctx.repo.func(fref)
    ctx.require_locals(fref, list(VALIDATE_DEFS) + ["object_params", "param_net_name", "attr_net_name"])
    ctx.touch(fref)
    rows = []
    for node in ast.walk(fn.node):
        if isinstance(node, ast.If) and node.body:
            last = node.body[-1]
            kind = None
            if isinstance(last, ast.Raise):
                kind = PathEnum._raised_name(last)
            elif isinstance(last, ast.Return):
                kind = "return"
            elif isinstance(last, ast.Continue):
                kind = "continue"
            if kind:
                rows.append((node.lineno, kind, norm.formula(node.test)))
    rows.sort()
    want = [(k, norm.formula(ast.parse(t, mode="eval").body)) for k, t in VALIDATE_ROWS]
    missing = []
    pos = 0
    for k, f in want:
        found = None
        for j in range(pos, len(rows)):
            if rows[j][1] == k and norm.equivalent(rows[j][2], f):
                found = j
                break
        if found is None:
            missing.append((k, norm.show(f)))
        else:
            pos = found + 1
    extra_exits = [(k, norm.show(f)) for _, k, f in rows if k in ("return", "continue") and not any(
        k == wk and norm.equivalent(f, wf) for wk, wf in want)]
    ok = not missing and not extra_exits
    ctx.record(rule, "TABLE", fref, f"validate(): {len(VALIDATE_ROWS)} guard -> raise/skip rows in the documented order", ok,
               {"rows_found": len(rows), "missing": missing, "unexpected_early_exits": extra_exits},
               "" if ok else (f"validate() lost or changed the check {missing[0]}" if missing else f"validate() skips checks under a new condition {extra_exits[0]}"))
    defs = {}
    for s in ast.walk(fn.node):
        if isinstance(s, ast.Assign) and len(s.targets) == 1 and isinstance(s.targets[0], ast.Name):
            defs.setdefault(s.targets[0].id, []).append(ast.unparse(s.value))
    bad = {k: defs.get(k) for k, v in VALIDATE_DEFS.items() if v not in (defs.get(k) or [])}
    okd = not bad and defs.get("object_params") == ["dependency_object.object_typed_params(node.params)", "dependency_object.object_typed_params(self.params)"]
    tup = [s for s in ast.walk(fn.node) if isinstance(s, ast.Assign) and isinstance(s.targets[0], ast.Tuple)]
    ctx.record(rule + "d", "PROV", fref, "the quantities compared by validate() (nets, vms, object sets, parent set_state vs own get_state) keep their definitions",
               okd, {"changed": bad}, "" if okd else f"validate() compares different quantities now: {bad or defs.get('object_params')}")
    loops = [l for l in ast.walk(fn.node) if isinstance(l, ast.For)]
    okl = [ast.unparse(l.iter) for l in loops] == ["self.setup_nodes", "object_set"]
    ctx.record(rule + "l", "COUNT", fref, "every setup node and every dependency object of it is checked", okl, {"loops": [ast.unparse(l.iter) for l in loops]},
               "" if okl else "validate() no longer iterates over all setup nodes and their objects")


# ---------------------------------------------------------------------- C06.5 shared root
def shared_root(ctx: Ctx, rule: str) -> None:
    fref = f"{G}.parse_shared_root_from_object_roots"
    fn = ctx.repo.func(fref)
    loop = the_loop(ctx, fref, ast.For, lambda l: ast.unparse(l.iter) == "self.nodes", "loop over self.nodes")
    nd = loop.target.id
    views = loop_iteration_views(ctx, fref, loop, None)
    problems = []
    for v in views:
        prem = v.premise(len(v.steps), 0)
        rootless = expr_formula(v, 0, f"len({nd}.setup_nodes) == 0")
        st = [s for i, s in v.stmts(lambda s: isinstance(s, ast.Assign) and ast.unparse(s.targets[0]) == f"object_roots[{nd}]")]
        if norm.implies(prem, rootless):
            if len(st) != 1:
                problems.append("a node without setup nodes is not collected for attachment to the shared root")
        elif norm.implies(prem, norm.neg(rootless)):
            if st:
                problems.append("a node that has setup nodes is attached to the shared root")
        else:
            problems.append("collection does not depend on the node having no setup nodes")
    att = [l for l in fn.node.body if isinstance(l, ast.For) and ast.unparse(l.iter) == "object_roots.items()"]
    ok_att = len(att) == 1 and len(att[0].body) == 1 and isinstance(att[0].target, ast.Tuple) and \
        ast.unparse(att[0].body[0]) == f"{ast.unparse(att[0].target.elts[0])}.descend_from_node(root_for_all, {ast.unparse(att[0].target.elts[1])})"
    reg = [c for c in calls_in(fn.node) if call_name(c) == "new_nodes" and ast.unparse(c.args[0]) == "root_for_all"]
    parse = [s for s in ast.walk(fn.node) if isinstance(s, (ast.Assign, ast.AnnAssign)) and ast.unparse(s.targets[0] if isinstance(s, ast.Assign) else s.target) == "root_for_all"]
    ok_parse = len(parse) == 1 and "unique=True" in ast.unparse(parse[0].value) and "'all..internal..noop'" in ast.unparse(parse[0].value)
    sd = [w for w in dict_writes(fn.node, "setup_dict") if isinstance(w[0], ast.Constant) and w[0].value == "shared_root" and isinstance(w[1], ast.Constant) and w[1].value == "yes"]
    never = [s for s in ast.walk(fn.node) if stores_attr(s, "should_run")]
    ok_never = len(never) == 1 and isinstance(never[0].value, ast.Lambda) and isinstance(never[0].value.body, ast.Constant) and never[0].value.body.value is False
    ok = not problems and ok_att and len(reg) == 1 and ok_parse and len(sd) == 1 and ok_never
    ctx.record(rule, "COUNT", fref, "every node without setup nodes descends from the one freshly parsed, registered, never-run shared root", ok,
               {"problems": problems, "attached": ok_att, "registered": len(reg), "unique_parse": ok_parse, "never_run": ok_never},
               "" if ok else (problems[0] if problems else "the construction of the shared root changed"))
    fr = f"{G}.traverse_object_trees"
    f2 = ctx.repo.func(fr)
    asserts = [ast.unparse(a.test) for a in f2.node.body if isinstance(a, ast.Assert)]
    ok2 = "len(shared_roots) == 1" in asserts
    ctx.record(rule + "a", "GUARD", fr, "traversal asserts exactly one shared root", ok2, {}, "" if ok2 else "the traversal no longer insists on a single starting node")


# ---------------------------------------------------------------------- C06.7 / C07.6 dependency lookup
def dependency_lookup(ctx: Ctx, rule: str) -> None:
    fref = f"{N_}.get_dependency"
    fn = ctx.repo.func(fref)
    ctx.touch(fref)
    params = fn.params()
    restr, obj = params[1], params[2]
    loop = the_loop(ctx, fref, ast.For, lambda l: ast.unparse(l.iter) == "self.setup_nodes", "loop over self.setup_nodes")
    nd = loop.target.id
    defs = {ast.unparse(s.targets[0]): ast.unparse(s.value) for s in ast.walk(loop) if isinstance(s, ast.Assign) and len(s.targets) == 1}
    ifs = [i for i in loop.body if isinstance(i, ast.If)]
    ok = len(ifs) == 1
    detail = {}
    if ok:
        f = norm.formula(ifs[0].test)
        names = [k for k, v in defs.items() if v == f"[t.long_suffix for t in {nd}.objects]"]
        want = norm.disj([("atom", f"{obj} in {nd}.objects"), ("atom", f"{obj}.long_suffix in {names[0] if names else '?'}")])
        ok = bool(names) and norm.equivalent(f, want)
        detail["object_match"] = norm.show(f)
    ctx.record(rule, "GUARD", fref, "a setup node satisfies a dependency only for the same object (identity or equal long suffix: image AND vm)", ok, detail,
               "" if ok else "an already attached setup node of a different object (e.g. the same image name of another vm) is accepted as the dependency")
    inner = [i for i in ast.walk(ifs[0]) if isinstance(i, ast.If) and i is not ifs[0]] if ifs else []
    tests = [ast.unparse(i.test) for i in inner]
    ok2 = len(inner) == 2 and tests[0] == f"re.search('(\\\\.|^)' + {restr} + '(\\\\.|$)', {nd}.params.get('name'))" \
        and tests[1] == f"{restr} == setup_object_params.get('set_state')" \
        and defs.get("setup_object_params") == f"{obj}.object_typed_params({nd}.params)"
    ctx.record(rule + "b", "GUARD", fref, "match by whole-variant name search, or by the state the setup node sets for that very object", ok2, {"tests": tests},
               "" if ok2 else "the criteria by which an attached setup node is taken as 'the' dependency changed")


# ---------------------------------------------------------------------- C07.1 / C07.2 dependency provenance
def dependency_provenance(ctx: Ctx, rule: str) -> None:
    fn = ctx.repo.func(GAPC)
    ctx.require_locals(GAPC, ["object_params", "setup_restr", "setup_prefix", "setup_obj_restr", "setup_net_restr", "setup_dict", "filtered_parents", "unique_new_node"])
    ctx.touch(GAPC)
    params = fn.params()
    nodep, objp = params[1], params[2]
    rebound = [n for n in ast.walk(fn.node) if isinstance(n, ast.Name) and n.id in (nodep, objp) and isinstance(n.ctx, (ast.Store, ast.Del))]
    ctx.record(rule, "PROV", GAPC, f"parameters {nodep}, {objp} are never re-bound (the dependency is resolved for the object asked about)", not rebound,
               {"rebinding_lines": [n.lineno for n in rebound]},
               "" if not rebound else f"the parameter `{rebound[0].id}` is re-bound (line {rebound[0].lineno}): later uses describe another object")
    got = {k.value: ast.unparse(v) for k, v, _ in dict_writes(fn.node, "setup_dict") if isinstance(k, ast.Constant)}
    want = {"dep_suffix": f"{objp}.long_suffix", "dep_type": f"{objp}.key", "dep_id": f"{objp}.id", "require_existence": "'yes'"}
    ctx.record(rule + "d", "PROV", GAPC, "parent parsing is told the dependent object: dep_suffix/dep_type/dep_id of the object asked about, require_existence yes",
               got == want, {"found": got}, "" if got == want else f"the dependency description handed to the parent parser changed: {got}")
    defs = {}
    for s in ast.walk(fn.node):
        if isinstance(s, ast.Assign) and len(s.targets) == 1 and isinstance(s.targets[0], ast.Name):
            defs.setdefault(s.targets[0].id, []).append(ast.unparse(s.value))
    okd = (defs.get("object_params") == [f"{objp}.object_typed_params({nodep}.params)"] and defs.get("setup_restr") == ["object_params['get']"]
           and defs.get("setup_prefix") == [f"{nodep}.prefix + 'a'"] and defs.get("setup_obj_restr") == [f"{objp}.component_form"]
           and defs.get("setup_net_restr") == [f"{nodep}.objects[0].suffix"] and defs.get("object_dependency") == ["object_params.get('get')"])
    ctx.record(rule + "r", "PROV", GAPC, "restriction = the object's own `get`; variant filter = the object's component form; net = the node's net; prefix = node prefix + 'a'",
               okd, {k: defs.get(k) for k in ("object_params", "setup_restr", "setup_prefix", "setup_obj_restr", "setup_net_restr")},
               "" if okd else "the restriction used to find or parse the parents of an object changed")
    pcalls = [c for c in calls_in(fn.node) if call_name(c) in ("parse_composite_nodes", "get_and_parse_composite_nodes")]
    def _arg0(a):
        # a local naming the restriction string is that string
        if isinstance(a, ast.Name) and len(defs.get(a.id, [])) == 1 and a.id not in ("setup_restr", "setup_prefix"):
            return defs[a.id][0]
        return ast.unparse(a)

    okc = len(pcalls) == 2 and all(
        [_arg0(c.args[0])] + [ast.unparse(a) for a in c.args[1:]] == ["'all..' + setup_restr", f"{nodep}.objects[0]", "setup_prefix"]
        and [(k.arg, ast.unparse(k.value)) for k in c.keywords] == [("params", "setup_dict")] for c in pcalls)
    ctx.record(rule + "c", "PROV", GAPC, "both parsing calls: ('all..' + setup_restr, the node's net, setup_prefix, params=setup_dict)", okc,
               {"calls": [ast.unparse(c)[:120] for c in pcalls]}, "" if okc else "a parent parsing call no longer uses 'all..<get>' with the node's net")
    # reuse rows: exactly one candidate -> its clones, or itself when unique nodes are wanted
    views = function_views(ctx, GAPC, names_interesting({"parse_composite_nodes", "get_and_parse_composite_nodes", "get_dependency"},
                                                       extra=lambda n: isinstance(n, ast.Return)))
    problems = []
    n_fresh = 0
    for v in views:
        if v.path.exit != "return":
            continue
        prem = v.premise(len(v.steps), 0)
        val = ast.unparse(v.path.exit_node.value)
        if "parse_composite_nodes" in val and not val.startswith("self.get_and_parse"):
            n_fresh += 1
            if not norm.implies(prem, expr_formula(v, len(v.steps), "len(filtered_parents) == 0")):
                problems.append("parents are parsed afresh although candidates were already parsed")
    ctx.record(rule + "f", "GUARD", GAPC, "fresh parsing without lookup only when no candidate parent is parsed yet", not problems and n_fresh >= 1, {"paths": n_fresh},
               "" if not problems and n_fresh >= 1 else (problems[0] if problems else "fresh parsing path not found"))
    # reuse of a single cached candidate: only when unique nodes are wanted (else all producers must be looked up)
    n_reuse, bad = 0, None
    for v in views:
        if v.path.exit != "return":
            continue
        val = v.path.exit_node.value
        if isinstance(val, ast.Tuple) and val.elts and ast.unparse(val.elts[0]) == "filtered_parents":
            n_reuse += 1
            req = expr_formula(v, len(v.steps), "unique_new_node and len(filtered_parents) == 1")
            if not norm.implies(v.premise(len(v.steps), 0), req):
                bad = v
    ctx.record(rule + "u", "GUARD", GAPC, "a single already parsed candidate is returned as 'the' parent only if unique nodes are requested", bad is None and n_reuse >= 1,
               {"paths": n_reuse, **({"path": bad.path.describe()} if bad else {})},
               "" if bad is None and n_reuse >= 1 else "a single cached candidate parent is reused although the dependency may have several producers (missing parents, no clones)")


# ---------------------------------------------------------------------- C07.3 / C07.5 edges from resolved parents
def branch_edges(ctx: Ctx, rule: str) -> None:
    fn = ctx.repo.func(PB)
    ctx.require_locals(PB, ["more_parents", "get_parents", "parse_parents", "children", "parents"])
    comp_loop = the_loop(ctx, PB, ast.For, lambda l: ast.unparse(l.iter).endswith(".objects") and any(
        call_name(c) == "get_and_parse_nodes_from_composite_node_and_object" for c in calls_in(l)), "component loop")
    comp = comp_loop.target.id
    outer = next(l for l in ast.walk(fn.node) if isinstance(l, ast.For) and comp_loop in l.body)
    child = outer.target.id
    views = loop_iteration_views(ctx, PB, comp_loop, names_interesting({"descend_from_node", "parse_cloned_branches_for_node_and_object",
                                                                        "new_nodes", "get_and_parse_nodes_from_composite_node_and_object", "more_parents"}))
    problems = []
    for v in views:
        prem = v.premise(len(v.steps), 0)
        some = expr_formula(v, len(v.steps), "len(get_parents + parse_parents) > 0")
        many = expr_formula(v, len(v.steps), "len(get_parents + parse_parents) > 1")
        # more_parents is substituted by its definition
        some2 = expr_formula(v, len(v.steps), "len(more_parents) > 0")
        many2 = expr_formula(v, len(v.steps), "len(more_parents) > 1")
        # arithmetic the propositional layer does not know: more than one implies at least one
        prem = norm.conj([prem, norm.disj([norm.neg(many2), some2]), norm.disj([norm.neg(many), some])])
        if not norm.satisfiable(prem):
            continue
        desc = [c for i, c in v.calls(is_call_named("descend_from_node"))]
        clon = [c for i, c in v.calls(is_call_named("parse_cloned_branches_for_node_and_object"))]
        regs = [(i, c) for i, c in v.calls(is_call_named("new_nodes"))]
        gets = [(i, c) for i, c in v.calls(is_call_named("get_and_parse_nodes_from_composite_node_and_object"))]
        has_some = norm.implies(prem, some2)
        none = norm.implies(prem, norm.neg(some2))
        has_many = norm.implies(prem, many2)
        if not (has_some or none):
            problems.append(("edge creation does not depend on the number of resolved parents", v))
            continue
        if has_some:
            if len(desc) != 1 or [v.canon_text(a, len(v.steps)) for a in desc[0].args] != ["(get_parents + parse_parents)[0]", comp] \
                    or ast.unparse(desc[0].func.value) != child:
                problems.append(("with resolved parents the child does not descend from the first of them via this object", v))
        elif desc:
            problems.append(("an edge is created although no parent was resolved", v))
        if clon:
            if not has_many:
                problems.append(("the child is cloned under a condition other than 'more than one producing parent'", v))
            elif len(clon) != 1 or [v.canon_text(a, len(v.steps)) for a in clon[0].args] != [child, comp, "get_parents + parse_parents"]:
                problems.append(("with several producing parents the child is not cloned once per parent", v))
        elif not norm.implies(prem, norm.neg(many2)):
            problems.append(("with more than one producing parent the child is not cloned for each of them", v))
        if len(gets) != 1 or [ast.unparse(a) for a in gets[0][1].args] != [child, comp, fn.params()[3]]:
            problems.append(("parents are not resolved exactly once per (child, object)", v))
        elif not regs or regs[0][0] <= gets[0][0] or ast.unparse(regs[0][1].args[0]) != "parse_parents":
            problems.append(("newly parsed parents are not registered in the graph right after being parsed", v))
    ctx.record(rule, "TABLE", PB, "per (child, object): 0 parents -> no edge; >=1 -> descend from the first; >=2 -> clone per parent; new parents registered at once",
               not problems and len(views) >= 3, {"paths": len(views), **({"path": problems[0][1].path.describe()} if problems else {})},
               "" if not problems and len(views) >= 3 else (problems[0][0] if problems else "unexpected shape"))
    ok_loops = ast.unparse(outer.iter) == "list(children)" and ast.unparse(comp_loop.iter) == f"{child}.objects"
    ctx.record(rule + "l", "COUNT", PB, "dependencies are resolved for every object of every child", ok_loops, {}, "" if ok_loops else "not every object of a node gets its dependency resolved")


# ---------------------------------------------------------------------- C07.4 cloning
def cloning(ctx: Ctx, rule: str) -> None:
    fn = ctx.repo.func(PCB)
    ctx.require_locals(PCB, ["clones", "child", "parent_state", "child_state", "state_suffixes", "clone_source", "parents", "parent_source", "to_clone", "old_clones"])
    params = fn.params()
    objp = params[2]
    loop = the_loop(ctx, PCB, ast.For, lambda l: ast.unparse(l.iter) == "enumerate(parents)", "loop over the producing parents")
    parent = ast.unparse(loop.target.elts[1])
    views = loop_iteration_views(ctx, PCB, loop, names_interesting({"append", "descend_from_node", "bridge_with_node", "TestNode", "params"}))
    problems = []
    for v in views:
        if v.path.exit == "raise":
            continue
        apps = [c for i, c in v.calls(lambda c: call_name(c) == "append" and ast.unparse(c.func.value) == "clones")]
        if len(apps) != 1 or ast.unparse(apps[0].args[0]) != "child":
            problems.append((f"{len(apps)} clones are produced for one producing parent", v))
    ctx.record(rule, "COUNT", PCB, "exactly one clone per producing parent", not problems and bool(views), {"paths": len(views)},
               "" if not problems else problems[0][0])
    from ..canon import CanonDict

    defs = CanonDict()
    # helper locals that are not part of the rule's vocabulary are substituted first (a hoisted `delimiter + '.' + parent_state` is that expression)
    from ..canon import inline_locals

    KEEP = {"clones", "child", "parent_state", "child_state", "state_suffixes", "clone_source", "parents", "parent_source", "to_clone", "old_clones", "parent_object_params",
            "child_object_params", "clone_config", "clone_name", "variants", "delimiter", "old_clone", "new_clones", "descend_source", "old_bridges"}
    inl = inline_locals(fn.node, keep=KEEP)
    loop_inl = next((l for l in ast.walk(inl) if isinstance(l, ast.For) and ast.unparse(l.iter) == "enumerate(parents)"), loop)
    for s in ast.walk(loop_inl):
        if isinstance(s, ast.Assign) and len(s.targets) == 1:
            defs.setdefault(ast.unparse(s.targets[0]), []).append(ast.unparse(s.value))
    okp = (defs.get("parent_object_params") == [f"{objp}.object_typed_params({parent}.params)"]
           and defs.get("parent_state") == ["parent_object_params.get('set_state', '')"]
           and defs.get("child.params['get_state' + state_suffixes]") == ["parent_state"]
           and defs.get("child.params['set_state' + state_suffixes]") == ["child_state + '.' + parent_state"]
           and defs.get("child_object_params") == [f"{objp}.object_typed_params(child.params)"]
           and defs.get("child_state") == ["child_object_params.get('set_state', '')"]
           and defs.get("child.params['name']") == ["child.params['name'].replace(delimiter, delimiter + '.' + parent_state, 1)"]
           and defs.get("child.params['shortname']") == ["child.params['shortname'].replace(delimiter, delimiter + '.' + parent_state, 1)"])
    ctx.record(rule + "s", "PROV", PCB, "clone: get_state<obj> = that parent's set_state; own set_state renamed '<state>.<parent state>'; name/shortname carry the parent state",
               okp, {k: defs.get(k) for k in ("parent_state", "child.params['get_state' + state_suffixes]", "child.params['set_state' + state_suffixes]")},
               "" if okp else "the branch-specific state naming of clones changed")
    # the clone itself is built from its SOURCE (recipe, net/objects, prefix), not from the branch root or the parent
    sets = [c for c in calls_in(loop) if call_name(c) == "set_objects_from_net"]
    regen = [c for c in calls_in(loop) if call_name(c) == "regenerate_params" and ast.unparse(c.func.value) == "child"]
    okc = (defs.get("clone_config") == ["clone_source.recipe.get_copy()"] and sorted(defs.get("child", [])) == ["TestNode(clone_name, clone_config)", "old_clone"]
           and len(sets) == 1 and ast.unparse(sets[0]) == "child.set_objects_from_net(clone_source.objects[0])" and len(regen) == 1
           and defs.get("clone_name") == ["clone_source.prefix + 'd' + str(i) if i > 0 else clone_source.prefix"])
    ctx.record(rule + "c", "PROV", PCB, "a clone is built from its source: the source's recipe copy, the source's net and objects, the source's prefix (+'d<i>' for the further parents)", okc,
               {"clone_config": defs.get("clone_config"), "objects": [ast.unparse(c) for c in sets]},
               "" if okc else "clones are no longer built from their own clone source (recipe / net and objects / prefix): clones of dependants get foreign objects or names")
    sfx = [s for s in ast.walk(loop) if isinstance(s, (ast.Assign, ast.AugAssign)) and ast.unparse(s.targets[0] if isinstance(s, ast.Assign) else s.target) == "state_suffixes"]
    oks = len(sfx) == 2 and ast.unparse(sfx[0].value) == f"f'_{{{objp}.key}}_{{{objp}.suffix}}'" and \
        ast.unparse(sfx[1].value) == f"f'_{{{objp}.composites[0].suffix}}' if {objp}.key == 'images' else ''"
    ctx.record(rule + "x", "PROV", PCB, "state keys are suffixed by the cloned object (key, suffix, and its vm for images)", oks, {},
               "" if oks else "clone state parameters are written under a different object suffix")
    # fresh clone inherits every setup edge, the cloned-from parent replaced by this parent
    inh = [l for l in ast.walk(loop) if isinstance(l, ast.For) and ast.unparse(l.iter) == "clone_source.setup_nodes.items()"]
    oki = len(inh) == 1
    if oki:
        l = inh[0]
        cs, cc = ast.unparse(l.target.elts[0]), ast.unparse(l.target.elts[1])
        ds = [s for s in l.body if isinstance(s, ast.Assign) and ast.unparse(s.targets[0]) == "descend_source"]
        inner = [x for x in l.body if isinstance(x, ast.For)]
        oki = (len(ds) == 1 and ast.unparse(ds[0].value) == f"{parent} if {cs} == parent_source else {cs}" and len(inner) == 1
               and ast.unparse(inner[0].iter) == cc and len(inner[0].body) == 1
               and ast.unparse(inner[0].body[0]) == f"child.descend_from_node(descend_source, {inner[0].target.id})")
    ctx.record(rule + "i", "COUNT", PCB, "a fresh clone inherits all setup edges of its source, with the cloned-from parent replaced by its own parent", oki, {},
               "" if oki else "clones no longer inherit the other dependencies of their source (missing or spurious setup)")
    # grandchildren queued, source marked
    body = fn.node
    q = [l for l in ast.walk(body) if isinstance(l, ast.For) and ast.unparse(l.iter) == "clone_source.cleanup_nodes"]
    okq = len(q) == 1 and len(q[0].body) == 1 and ast.unparse(q[0].body[0]) == f"to_clone.append(({q[0].target.id}, clones, clone_source))"
    mark = [c for c in calls_in(body) if call_name(c) == "clone_as_source"]
    okq = okq and len(mark) == 1 and ast.unparse(mark[0]) == "clone_source.clone_as_source(clones)"
    whyq = "" if okq else "dependants of a cloned node are no longer cloned consistently"
    if okq:
        # ... on every round: both are plain statements of the work-list loop and no round leaves it before them
        outer = [w for w in ast.walk(body) if isinstance(w, ast.While) and any(x is q[0] for x in ast.walk(w))]
        okq = len(outer) == 1
        if okq:
            w = outer[0]
            direct = {id(s_) for s_ in w.body}
            mark_stmt = [s_ for s_ in w.body if isinstance(s_, ast.Expr) and s_.value is mark[0]]
            okq = id(q[0]) in direct and len(mark_stmt) == 1
            last = max([w.body.index(q[0])] + [w.body.index(m_) for m_ in mark_stmt]) if okq else -1

            def leaves(n, top=True):
                if isinstance(n, (ast.Continue, ast.Break, ast.Return)):
                    return True
                if isinstance(n, (ast.For, ast.While, ast.AsyncFor)) and not top:
                    return any(isinstance(x, ast.Return) for x in ast.walk(n))
                if isinstance(n, (ast.FunctionDef, ast.Lambda)):
                    return False
                return any(leaves(c, False) for c in ast.iter_child_nodes(n))
            early = [s_ for s_ in w.body[:last + 1] if leaves(s_, False)] if okq else []
            if early:
                okq = False
                whyq = (f"a round of the cloning work list can end at line {early[0].lineno} before the source is marked as clone source and its dependants are queued "
                        "(an unmarked source stays runnable next to its clones)")
            elif not okq:
                whyq = "marking the clone source / queueing its dependants became conditional"
    ctx.record(rule + "g", "COUNT", PCB, "on every round of the cloning work list: the source is marked as clone source and every dependant of it is queued for cloning against the new clones", okq, {},
               whyq)
    reuse = [a for a in ast.walk(loop) if isinstance(a, ast.Assert)]
    okr = len(reuse) == 1 and ast.unparse(reuse[0].test) == "len(old_clones) <= 1"
    oc = [s for s in ast.walk(loop) if isinstance(s, ast.Assign) and ast.unparse(s.targets[0]) == "old_clones"]
    okr = okr and len(oc) == 1 and ast.unparse(oc[0].value) == "self.get_nodes_by_name(child.setless_form)"
    ctx.record(rule + "u", "GUARD", PCB, "an equal clone parsed earlier is reused (at most one may exist)", okr, {}, "" if okr else "clones can be duplicated")
    reg = [c for c in calls_in(body) if call_name(c) == "new_nodes"]
    ext = [c for c in calls_in(body) if call_name(c) == "extend" and ast.unparse(c.func.value) == "test_nodes"]
    okn = len(reg) == 1 and len(ext) == 1 and isinstance(reg[0].args[0], ast.Name) and ast.unparse(reg[0].args[0]) == ast.unparse(ext[0].args[0])
    regvar = ast.unparse(reg[0].args[0]) if reg else None
    ctx.record(rule + "n", "COUNT", PCB, "clones of dependants are registered in the graph; first-round clones are returned to the caller for registration (the same collection in both cases)", okn,
               {"registered": regvar}, "" if okn else "clones are not registered in the graph")
    # a clone found by name from an earlier parse is already in the graph: it must not be handed to new_nodes again
    reuse_if = [i for i in ast.walk(loop) if isinstance(i, ast.If) and norm.equivalent(norm.formula(i.test), norm.formula(ast.parse("len(old_clones) > 0", mode="eval").body))]
    okd = okn and len(reuse_if) == 1
    where = []
    if okd:
        apps = [c for c in calls_in(loop) if call_name(c) == "append" and ast.unparse(c.func.value) == regvar]
        for c in apps:
            fresh = any(x is c for s_ in reuse_if[0].orelse for x in ast.walk(s_))
            where.append("fresh branch" if fresh else "every clone (also reused ones)")
            okd = okd and fresh and ast.unparse(c.args[0]) == "child"
        okd = okd and len(apps) == 1
    ctx.record(rule + "d", "COUNT", PCB, "only freshly created clones are registered / returned for registration; a reused earlier clone (found by its set-invariant name) is not added to the graph a second time",
               okd, {"registered_collection": regvar, "appended_in": where},
               "" if okd else f"reused clones are registered again: the collection handed to new_nodes ({regvar}) receives {where or 'no fresh-only append'} — graph.nodes lists the same node twice when a test is selected through two test sets")

# ---------------------------------------------------------------------- C09.1 bridging
def bridge_table(ctx: Ctx, rule: str) -> None:
    fref = f"{N_}.bridge_with_node"
    fn = ctx.repo.func(fref)
    other = fn.params()[1]
    views = function_views(ctx, fref, None)
    problems = []
    n_bridge = 0
    regs = ["_picked_by_setup_nodes", "_dropped_setup_nodes", "_picked_by_cleanup_nodes", "_dropped_cleanup_nodes"]
    in_loops = {id(x) for l in ast.walk(fn.node) if isinstance(l, (ast.For, ast.While)) for x in ast.walk(l)}
    for v in views:
        # classification by the conditions taken (the bridging itself mutates what they tested)
        prem = norm.conj([v.cond_formula(i) for i, st in enumerate(v.steps) if st.kind == "cond" and id(st.node) not in in_loops])
        same = expr_formula(v, 0, f"{other} == self")
        equiv = expr_formula(v, 0, f"re.search({other}.bridged_form, self.params['name'])")
        known = expr_formula(v, 0, f"{other} in self._bridged_nodes")
        apps = [ast.unparse(c) for i, c in v.calls(is_call_named("append"))]
        stores = {ast.unparse(s.targets[0]): ast.unparse(s.value) for i, s in v.stmts(lambda s: isinstance(s, ast.Assign))}
        if norm.implies(prem, same):
            if apps or stores or v.path.exit == "raise":
                problems.append(("bridging a node with itself is not a no-op", v))
        elif norm.implies(prem, norm.neg(equiv)):
            if v.path.exit != "raise" or PathEnum._raised_name(v.path.exit_node) != "ValueError":
                problems.append(("a non-equivalent node is accepted as a bridge", v))
        elif norm.implies(prem, known):
            if apps or stores:
                problems.append(("re-bridging an already bridged node changes state", v))
        elif norm.implies(prem, norm.conj([norm.neg(same), equiv, norm.neg(known)])):
            n_bridge += 1
            bapps = [a for a in apps if "._bridged_nodes.append(" in a]
            if sorted(bapps) != sorted([f"self._bridged_nodes.append({other})", f"{other}._bridged_nodes.append(self)"]):
                problems.append((f"bridging is not recorded symmetrically: {bapps}", v))
            rstores = {t: val for t, val in stores.items() if t.split(".")[-1] in regs}
            if any(val != f"{other}.{t.split('.')[-1]}" for t, val in rstores.items()) or any(t.split(".")[0] == other for t in rstores):
                problems.append((f"a visit register is re-bound to something else than the bridged node's register: {rstores}", v))
        else:
            problems.append(("unexpected path in bridge_with_node", v))
    ctx.record(rule, "TABLE", fref, "same node -> nothing; not equivalent -> ValueError; already bridged -> nothing; else both lists appended and all four registers aliased",
               not problems and n_bridge >= 1, {"paths": len(views), **({"path": problems[0][1].path.describe()} if problems else {})},
               "" if not problems and n_bridge >= 1 else (problems[0][0] if problems else "bridging path not found"))
    # C09.1g: the adoption reaches every node already bridged with self (register sharing must be transitive)
    why = ""
    sites = [a for a in ast.walk(fn.node) if isinstance(a, ast.Assign) and isinstance(a.targets[0], ast.Attribute) and a.targets[0].attr in regs]
    roots = {ast.unparse(a.targets[0].value) for a in sites}
    covered = {a.targets[0].attr for a in sites}
    if covered != set(regs):
        why = f"only {sorted(covered)} are re-bound"
    elif len(roots) != 1:
        why = f"the registers are re-bound on different nodes: {sorted(roots)}"
    else:
        holder = roots.pop()
        loops = [l for l in ast.walk(fn.node) if isinstance(l, (ast.For, ast.While)) and all(any(a is x for x in ast.walk(l)) for a in sites)]
        if holder == "self" or not loops:
            why = ("only the node itself adopts the registers of the node it is bridged with: nodes bridged with it earlier keep the previous registers, so "
                   "equivalent tests end up in groups with separate visit bookkeeping (the order of bridging decides who shares with whom)")
        else:
            loop = loops[-1]
            domain = [ast.unparse(loop.iter)] if isinstance(loop, ast.For) else []
            if isinstance(loop, ast.While):
                work = {n_.id for n_ in ast.walk(loop.test) if isinstance(n_, ast.Name)}
                for a in ast.walk(fn.node):
                    if isinstance(a, ast.Assign) and any(isinstance(t, (ast.Name, ast.Tuple)) for t in a.targets) and work & norm.rebound_names(a):
                        domain.append(ast.unparse(a.value))
                    if isinstance(a, ast.Call) and isinstance(a.func, ast.Attribute) and a.func.attr in ("extend", "append") and ast.unparse(a.func.value) in work:
                        domain.append(ast.unparse(a))
            dom = " ; ".join(domain)
            dnames = set()
            for d_ in domain:
                dnames |= norm.names_in(d_)
            # whose bridge lists feed the adopters: self's own, or a work list walked transitively (a local name popped from it)
            owners = set()
            for d_ in domain:
                try:
                    tree_ = ast.parse(d_, mode="eval")
                except SyntaxError:
                    continue
                for x_ in ast.walk(tree_):
                    if isinstance(x_, ast.Attribute) and x_.attr in ("_bridged_nodes", "bridged_nodes"):
                        owners.add(ast.unparse(x_.value))
            transitive = any(o not in ("self", other) for o in owners)
            if "bridged_nodes" not in dom or not ({"self", other} & dnames if transitive else "self" in dnames):
                why = f"the nodes adopting the registers are not self and the nodes bridged with it: {dom[:160]}"
            elif "self" not in owners and not transitive:
                why = (f"the adopters are taken from the bridge list of the other node only ({dom[:120]}): the nodes bridged with self earlier keep their previous "
                       "registers, so equivalent tests end up in groups with separate visit bookkeeping (the order of bridging decides who shares with whom)")
    ctx.record(rule + "g", "TABLE", fref, "the registers of the bridged node are adopted by self AND by every node already bridged with self (sharing is transitive whatever the bridging order)",
               not why, {"stores": len(sites)}, why)
    found = list(attribute_stores(ctx.repo, "_bridged_nodes", ("cartgraph/", "plugins/", "intertest_setup.py")))
    owner_rule(ctx, rule + "o", "write to _bridged_nodes", found, {f"{N_}.__init__": "empty", fref: "symmetric append"}, 3)
    for r in regs:
        found = [(f, n_, how) for f, n_, how in attribute_stores(ctx.repo, r, ("cartgraph/", "plugins/", "intertest_setup.py")) if how == "assign"]
        owner_rule(ctx, rule + "o", f"re-binding of {r}", found, {f"{N_}.__init__": "fresh register", fref: "aliasing"}, 2)
    ctor = [(f, c, "call") for f, c in call_sites(ctx.repo, "EdgeRegister", ("cartgraph/", "plugins/", "intertest_setup.py"))]
    owner_rule(ctx, rule + "c", "EdgeRegister construction (no copies of registers)", ctor, {f"{N_}.__init__": "four fresh registers"}, 4)
    bn = ctx.repo.func(f"{N_}.bridged_nodes")
    rets = [r for r in ast.walk(bn.node) if isinstance(r, ast.Return)]
    okb = len(rets) == 1 and ast.unparse(rets[0].value) == "tuple(self._bridged_nodes)"
    ctx.record(rule + "v", "TYPE", bn.ref, "bridged_nodes is a read-only tuple view", okb, {}, "" if okb else "the bridge list is handed out mutable")


# ---------------------------------------------------------------------- C09.2 bridging sites
def bridging_sites(ctx: Ctx, rule: str) -> None:
    # (a) composite node in parse_branches: bridged with every node of the same worker-invariant form
    fn = ctx.repo.func(PB)
    ctx.touch(PB)
    nodep = fn.params()[1]
    top_if = next((s for s in fn.node.body if isinstance(s, ast.If) and ast.unparse(s.test) == f"{nodep}.is_flat()"), None)
    ok = False
    if top_if is not None:
        body = top_if.orelse
        defs = [s for s in body if isinstance(s, ast.Assign) and ast.unparse(s.value) == f"self.get_nodes('name', {nodep}.bridged_form)"]
        loops = [l for l in body if isinstance(l, ast.For)]
        ok = len(defs) == 1 and len(loops) == 1 and ast.unparse(loops[0].iter) == ast.unparse(defs[0].targets[0]) and len(loops[0].body) == 1 \
            and ast.unparse(loops[0].body[0]) == f"{nodep}.bridge_with_node({loops[0].target.id})"
    ctx.record(rule, "COUNT", PB, "a composite node is bridged with every graph node of the same worker-invariant form (unfiltered loop)", ok, {},
               "" if ok else "newly resolved composite nodes are no longer bridged with all their equivalents")
    # (b) fresh clones
    fn2 = ctx.repo.func(PCB)
    ctx.touch(PCB)
    loops = [l for l in ast.walk(fn2.node) if isinstance(l, ast.For) and len(l.body) == 1 and "bridge_with_node" in ast.unparse(l.body[0])]
    ok2 = len(loops) == 1
    if ok2:
        l = loops[0]
        defs = [s for s in ast.walk(fn2.node) if isinstance(s, ast.Assign) and ast.unparse(s.targets[0]) == ast.unparse(l.iter)]
        ok2 = len(defs) == 1 and ast.unparse(defs[0].value) == "self.get_nodes('name', child.bridged_form)" \
            and ast.unparse(l.body[0]) == f"child.bridge_with_node({l.target.id})"
    ctx.record(rule + "c", "COUNT", PCB, "a fresh clone is bridged with every graph node of its worker-invariant form", ok2, {},
               "" if ok2 else "fresh clones are no longer bridged with all their equivalents")
    # (c) the update tool bridges every pair of equivalent nodes of the merged graph
    fref = "intertest_setup.py:update"
    fn3 = ctx.repo.func(fref)
    ctx.touch(fref)
    outer = [l for l in fn3.node.body if isinstance(l, ast.For) and any(call_name(c) == "bridge_with_node" for c in calls_in(l))]
    ok3 = len(outer) == 1
    detail = {}
    if ok3:
        o = outer[0]
        inner = [l for l in o.body if isinstance(l, ast.For)]
        ok3 = len(inner) == 1 and ast.unparse(o.iter) == "graph.nodes" and ast.unparse(inner[0].iter) == "graph.nodes" and len(o.body) == 1
        if ok3:
            a, b = o.target.id, inner[0].target.id
            pe = PathEnum(None)
            paths = pe.block(inner[0].body)
            for p in paths:
                v = PathView(p)
                prem = v.premise(len(v.steps), 0)
                same = norm.formula(ast.parse(f"{a} == {b}", mode="eval").body)
                eq = norm.formula(ast.parse(f"{a}.bridged_form == {b}.bridged_form", mode="eval").body)
                br = [c for i, c in v.calls(is_call_named("bridge_with_node"))]
                if p.exit == "break" or p.exit == "return":
                    ok3 = False
                    detail["early_exit"] = p.describe()
                if norm.implies(prem, norm.conj([norm.neg(same), eq])) and p.exit != "raise":
                    if len(br) != 1 or ast.unparse(br[0]) != f"{a}.bridge_with_node({b})":
                        ok3 = False
                elif br and not norm.implies(prem, norm.conj([norm.neg(same), eq])):
                    ok3 = False
    ctx.record(rule + "u", "COUNT", fref, "update(): every ordered pair of distinct nodes with equal worker-invariant form is bridged (all-pairs, no early exit)", ok3, detail,
               "" if ok3 else "the update tool no longer bridges every pair of equivalent nodes (bridging is not transitive: occupancy and results would not be shared)")
    sites = [(f, c, "call") for f, c in call_sites(ctx.repo, "bridge_with_node", ("cartgraph/", "plugins/", "intertest_setup.py"))]
    owner_rule(ctx, rule + "o", "call of bridge_with_node", sites, {PB: "on resolution", PCB: "fresh clones", fref: "merged update graph"}, 3)


# ---------------------------------------------------------------------- C09.4 single parsing entry
def parsing_entry(ctx: Ctx, rule: str) -> None:
    sites = [(f, c) for f, c in call_sites(ctx.repo, "parse_paths_to_object_roots", ("cartgraph/", "plugins/", "intertest_setup.py"))]
    oks = len(sites) == 2
    forms = []
    for f, c in sites:
        forms.append((f.ref if f else None, [ast.unparse(a) for a in c.args]))
        if [ast.unparse(a) for a in c.args][1:] != ["worker.net", "params"]:
            oks = False
    refs = sorted(r for r, _ in forms)
    oks = oks and refs == sorted([f"{G}.parse_object_trees", f"{G}.traverse_object_trees"])
    ctx.record(rule, "OWNER", "cartgraph/*", "eager (parse_object_trees) and lazy (traverse_object_trees) expansion call the same parse_paths_to_object_roots(node, worker.net, params)",
               oks, {"sites": forms}, "" if oks else "lazy and eager expansion no longer share one parsing entry point with the same arguments")
    pn = [(f, c, "call") for f, c in call_sites(ctx.repo, "parse_node_from_object", ("cartgraph/", "plugins/", "intertest_setup.py"))]
    owner_rule(ctx, rule + "o", "call of parse_node_from_object (creation of composite nodes)", pn,
               {f"{G}.parse_nodes_from_flat_node_and_object": "the one composition site", f"{G}.traverse_terminal_node": "ephemeral configuration node",
                f"{G}.parse_composite_nodes": "composition from a restriction"}, 2)
    # lazy expansion condition: flat, not yet unrolled for this worker, and needed
    f = ctx.repo.func(f"{G}.traverse_object_trees")
    ifs = [i for i in ast.walk(f.node) if isinstance(i, ast.If) and any(call_name(c) == "parse_paths_to_object_roots" for c in calls_in(i))
           and "is_unrolled" in ast.unparse(i.test)]
    okc = len(ifs) == 1 and norm.equivalent(norm.formula(ifs[0].test), norm.formula(ast.parse(
        "next.is_flat() and not next.is_unrolled(worker) and (len(unexplored_nodes) > 0 or next.should_parse(worker))", mode="eval").body))
    ctx.record(rule + "c", "GUARD", f.ref, "lazy expansion: flat and not unrolled for this worker and (unexplored nodes remain or should_parse)", okc, {},
               "" if okc else "the condition under which a worker expands a flat node lazily changed")


# ---------------------------------------------------------------------- name forms
def name_forms(ctx: Ctx, rule: str) -> None:
    """setless_form strips the longest matching main restriction; bridged_form generalises the net suffix of it."""
    fref = f"{N_}.setless_form"
    fn = ctx.repo.func(fref)
    ctx.touch(fref)
    loops = [l for l in ast.walk(fn.node) if isinstance(l, ast.For)]
    ok = len(loops) == 1 and ast.unparse(loops[0].iter) == "self.params.objects('main_restrictions')" and isinstance(loops[0].target, ast.Name)
    detail = {}
    if ok:
        l = loops[0]
        r = l.target.id
        views = loop_iteration_views(ctx, fref, l, None)
        acc = None
        for v in views:
            if v.path.exit not in ("fall", "continue"):
                ok = False
            st = [(i, s) for i, s in v.stmts(lambda s: isinstance(s, ast.Assign) and isinstance(s.targets[0], ast.Name))]
            prem = v.premise(len(v.steps), 0)
            starts = norm.formula(ast.parse(f"self.params['name'].startswith({r})", mode="eval").body)
            if st:
                acc = st[0][1].targets[0].id
                if not norm.implies(norm.conj([v.cond_formula(i) for i, s_ in enumerate(v.steps) if s_.kind == "cond"]), starts):
                    ok = False
                val = st[0][1].value
                longer = norm.formula(ast.parse(f"len({r}) > len({acc})", mode="eval").body)
                if isinstance(val, ast.IfExp):
                    f = norm.formula(val.test)
                    good = (norm.equivalent(f, longer) and ast.unparse(val.body) == r and ast.unparse(val.orelse) == acc)
                    ok = ok and good
                elif ast.unparse(val) == r:
                    if not norm.implies(norm.conj([v.cond_formula(i) for i, s_ in enumerate(v.steps) if s_.kind == "cond"]), longer):
                        ok = False
                elif ast.unparse(val) == acc:
                    pass  # the other arm of `acc = r if longer else acc`: keeps the accumulator
                else:
                    ok = False
        rets = [x for x in fn.node.body if isinstance(x, ast.Return)]
        ok = ok and acc is not None and len(rets) == 1 and ast.unparse(rets[0].value) == f"self.params['name'].replace({acc} + '.', '', 1)" \
            and not any(isinstance(x, (ast.Break, ast.Return)) for x in ast.walk(l))
        inits = [s for s in fn.node.body if isinstance(s, ast.Assign) and acc and ast.unparse(s.targets[0]) == acc]
        ok = ok and len(inits) == 1 and ast.unparse(inits[0].value) == "''"
        detail["accumulator"] = acc
    ctx.record(rule, "TABLE", fref, "setless_form = name with the LONGEST main restriction that prefixes it removed (all restrictions are examined)", ok, detail,
               "" if ok else "the set-invariant name form no longer strips the longest matching test set prefix: nodes of nested sets get different identities "
               "(duplicated setup, failed reuse and intersection)")
    fref2 = f"{N_}.bridged_form"
    f2 = ctx.repo.func(fref2)
    ctx.touch(fref2)
    rets = [ast.unparse(r_.value) for r_ in ast.walk(f2.node) if isinstance(r_, ast.Return)]
    ok2 = sorted(rets) == sorted(["self.setless_form", "'\\\\.' + self.setless_form.replace(suffix, '.+') + '$'"])
    sdef = [s for s in f2.node.body if isinstance(s, ast.Assign) and ast.unparse(s.targets[0]) == "suffix"]
    ok2 = ok2 and len(sdef) == 1 and ast.unparse(sdef[0].value) == "self.params['_name_map_file'].get('nets.cfg', '')"
    # which form for which node: the plain form exactly for flat nodes (no objects)
    first = next((i for i in f2.node.body if isinstance(i, ast.If)), None)
    flat_tests = ("len(self.objects) == 0", "self.is_flat()", "not self.objects")
    ok2 = ok2 and first is not None and any(norm.equivalent(norm.formula(first.test), norm.formula(ast.parse(t, mode="eval").body)) for t in flat_tests) \
        and [ast.unparse(x) for x in first.body] == ["return self.setless_form"] and not first.orelse
    ctx.record(rule + "b", "TABLE", fref2, "bridged_form = setless form with the net variant generalised ('.+'), anchored at a variant boundary and the end; flat nodes: setless form", ok2,
               {"returns": rets}, "" if ok2 else "the worker-invariant name form changed: equivalent nodes of different workers may no longer be linked")


# ---------------------------------------------------------------------- identities
def identity_forms(ctx: Ctx, rule: str) -> None:
    """Identity of nodes and objects: built from prefix/suffix and the full name (the keys of all indices and result lookups)."""
    want = {
        f"{N_}.id": ["self.prefix", "'-'", "self.params['name']"],
        f"{N_}.long_prefix": ["self.prefix", "'-'", "nets", "'.'", "vms"],
        "cartgraph/object.py:TestObject.id": ["self.long_suffix", "'-'", "self.params['name']"],
    }
    for fref, parts in want.items():
        f = ctx.repo.func(fref)
        ctx.touch(fref)
        rets = [r for r in ast.walk(f.node) if isinstance(r, ast.Return)]
        got = norm.concat_parts(rets[0].value) if len(rets) == 1 else None
        ctx.record(rule, "CONST", fref, f"{fref.split('.')[-1]} = " + " + ".join(parts), got == parts, {"found": got},
                   "" if got == parts else f"the identity {fref.split(':')[1]} is built differently ({got}): distinct tests or objects may collide, or equal ones differ")
    f = ctx.repo.func(f"{N_}.id_test")
    rets = [r for r in ast.walk(f.node) if isinstance(r, ast.Return)]
    ok = len(rets) == 1 and ast.unparse(rets[0].value) == "TestID(self.prefix, self.params['name'])"
    ctx.record(rule + "t", "CONST", f.ref, "id_test = TestID(prefix, full name) (uid = prefix: distinct per retry prefix)", ok, {}, "" if ok else "the avocado test id of a node is built differently")
    f = ctx.repo.func("cartgraph/object.py:TestObject.object_typed_params")
    ctx.touch(f.ref)
    body = [ast.unparse(s) for s in f.node.body if not (isinstance(s, ast.Expr) and isinstance(s.value, ast.Constant))]
    ok2 = body == ["for composite in self.composites:\n    params = params.object_params(composite.suffix)", "return params.object_params(self.suffix).object_params(self.key)"]
    ctx.record(rule + "p", "CONST", f.ref, "object parameters = params narrowed by every composite's suffix, then the object's suffix, then its type", ok2, {"body": body},
               "" if ok2 else "the per-object view of test parameters changed (states of another object or type may be read)")
    f = ctx.repo.func("cartgraph/object.py:TestObject.component_form")
    rets = [r for r in ast.walk(f.node) if isinstance(r, ast.Return)]
    ok3 = len(rets) == 1 and ast.unparse(rets[0].value) == "self.params['name'].replace(self.key + '.', '')"
    ctx.record(rule + "c", "CONST", f.ref, "component_form = object name without its type prefix (used to restrict parents to the object's variant)", ok3, {},
               "" if ok3 else "the variant form by which parents are restricted to an object's variant changed")
    f = ctx.repo.func("cartgraph/object.py:TestObject.__init__")
    st = {ast.unparse(s.targets[0]): ast.unparse(s.value) for s in ast.walk(f.node) if isinstance(s, ast.Assign)}
    ok4 = st.get("self.suffix") == "suffix.split('_')[0]" and st.get("self._long_suffix") == "suffix"
    ctx.record(rule + "s", "CONST", f.ref, "suffix = first component of the long suffix; long suffix kept whole (image_vm identifies the image of one vm)", ok4, {},
               "" if ok4 else "object suffixes are derived differently")


# ---------------------------------------------------------------------- lazy expansion predicates
def lazy_predicates(ctx: Ctx, rule: str) -> None:
    fref = f"{N_}.should_parse"
    fn = ctx.repo.func(fref)
    loop = the_loop(ctx, fref, ast.For, lambda l: ast.unparse(l.iter) == "self.shared_involved_workers", "loop over involved workers")
    w = loop.target.id
    views = loop_iteration_views(ctx, fref, loop, None)
    problems = []
    for v in views:
        conds = norm.conj([v.cond_formula(i) for i, s in enumerate(v.steps) if s.kind == "cond"])
        done = norm.conj([("atom", f"self.is_unrolled({w})"), ("atom", f"self.is_cleanup_ready({w})"), ("atom", f"empty({w}.restrs)")])
        if v.path.exit == "return":
            if not (isinstance(v.path.exit_node.value, ast.Constant) and v.path.exit_node.value.value is False) or not norm.implies(conds, done):
                problems.append("should_parse answers False for a reason other than 'an unrestricted worker already unrolled and finished all children'")
        elif not norm.implies(conds, norm.neg(done)):
            problems.append("an unrestricted worker that unrolled and finished the node does not stop further parsing")
    tail = [s for s in fn.node.body if isinstance(s, ast.Return)]
    ok = not problems and len(views) >= 2 and len(tail) == 1 and isinstance(tail[0].value, ast.Constant) and tail[0].value.value is True
    ctx.record(rule, "TABLE", fref, "should_parse: False iff some involved, unrestricted worker has unrolled the node and is cleanup-ready on it; else True", ok, {"paths": len(views)},
               "" if ok else (problems[0] if problems else "should_parse changed shape"))
    fref2 = f"{N_}.is_unrolled"
    from ..kinds import TableSpec, table_rule

    f2 = ctx.repo.func(fref2)
    wn = f2.params()[1]
    views2 = function_views(ctx, fref2, None)
    for v_ in views2:
        v_.depth = 0

    def M(name, text, neg=False):
        def m(t):
            if t == text:
                return (lambda v: not v[name]) if neg else (lambda v: v[name])
            return None
        return m

    loops = [l for l in f2.node.body if isinstance(l, ast.For)]
    nd = loops[0].target.id if len(loops) == 1 and isinstance(loops[0].target, ast.Name) else "node"
    matchers = [M("ROOT", "self.is_shared_root()"), M("FLAT", "self.is_flat()"), M("W", wn), M("WNONE", f"{wn} is None"),
                M("INC", f"{wn}.net.long_suffix in self.incompatible_workers"), M("ANYINC", "empty(self.incompatible_workers)", neg=True),
                M("CHILD", f"self.setless_form in {nd}.id"), M("MINE", f"{wn}.id in {nd}.id")]

    def reference(v):
        if v["ROOT"]:
            return "True"
        if not v["FLAT"]:
            return "raise:RuntimeError"
        if (v["W"] and v["INC"]) or (v["WNONE"] and v["ANYINC"]):
            return "True"
        # decided by the children: a child of the same set-invariant name for this worker (any worker if none is given)
        if v["HASCHILD"] and v["CHILD"] and ((v["W"] and v["MINE"]) or v["WNONE"]):
            return "True"
        return "False"

    # a worker object is truthy exactly when it is not None
    spec = TableSpec({k: [True, False] for k in ("ROOT", "FLAT", "W", "WNONE", "INC", "ANYINC", "CHILD", "MINE", "HASCHILD")}, matchers + [M("HASCHILD", "__iter__")], reference,
                     constraint=lambda v: v["W"] != v["WNONE"])

    def outcome(view, val, free):
        if view.path.exit == "raise":
            return "raise:" + (PathEnum._raised_name(view.path.exit_node) or "?")
        val_ = view.path.exit_node.value
        return str(val_.value) if isinstance(val_, ast.Constant) else ast.unparse(val_)

    # the loop over the children: a path that iterates once has HASCHILD, one that skips the loop has not
    class _V:
        pass

    tagged = []
    for v_ in views2:
        iterated = any(st.kind == "iter" and st.extra == "next" for st in v_.steps)
        tagged.append((v_, iterated))
    # encode the iteration as a pseudo condition understood by the table
    import copy as _copy
    from ..paths import Step as _Step

    views3 = []
    for v_, iterated in tagged:
        node = ast.parse("__iter__", mode="eval").body
        reaches_loop = any(st.kind == "iter" for st in v_.steps)
        extra = [_Step("cond", node, iterated)] if reaches_loop else []
        v3 = PathView(type(v_.path)(v_.path.steps + extra, v_.path.exit, v_.path.exit_node), {})
        v3.depth = 0
        views3.append(v3)
    table_rule(ctx, rule + "u", fref2, views3, spec, outcome,
               construct="is_unrolled: shared root -> True; composite -> RuntimeError; incompatible worker (any incompatibility if no worker given) -> True; "
               "a child of the same set-invariant name for this worker (for any worker if none given) -> True; else False")


# ---------------------------------------------------------------------- node objects
def _added_to(stmt: ast.stmt, acc: str):
    """('one', text) for acc.append(x) / acc += [x]; ('many', text) for acc += xs / acc.extend(xs); None otherwise."""
    if isinstance(stmt, ast.AugAssign) and isinstance(stmt.op, ast.Add) and ast.unparse(stmt.target) == acc:
        if isinstance(stmt.value, ast.List) and len(stmt.value.elts) == 1:
            return ("one", ast.unparse(stmt.value.elts[0]))
        return ("many", ast.unparse(stmt.value))
    if isinstance(stmt, ast.Expr) and isinstance(stmt.value, ast.Call) and isinstance(stmt.value.func, ast.Attribute) and ast.unparse(stmt.value.func.value) == acc and len(stmt.value.args) == 1:
        if stmt.value.func.attr == "append":
            return ("one", ast.unparse(stmt.value.args[0]))
        if stmt.value.func.attr == "extend":
            return ("many", ast.unparse(stmt.value.args[0]))
    return None


def node_objects(ctx: Ctx, rule: str) -> None:
    """A node's objects: its net, the net's vms, their images, plus images only this test declares for a vm."""
    fref = f"{N_}.set_objects_from_net"
    fn = ctx.repo.func(fref)
    ctx.touch(fref)
    netp = fn.params()[1]
    first = [s for s in fn.node.body if isinstance(s, ast.Assign) and ast.unparse(s.targets[0]) == "self.objects"]
    loops = [l for l in fn.node.body if isinstance(l, ast.For)]
    ok = len(first) == 1 and ast.unparse(first[0].value) == f"[{netp}]" and len(loops) == 1 and ast.unparse(loops[0].iter) == f"{netp}.components"
    detail = {}
    if ok:
        l = loops[0]
        o = l.target.id
        adds = [a for a in (_added_to(s, "self.objects") for s in l.body) if a is not None]
        ok = adds == [("one", o), ("many", f"{o}.components")]
        inner = [x for x in l.body if isinstance(x, ast.For)]
        vm = [s for s in l.body if isinstance(s, ast.Assign) and ast.unparse(s.targets[0]) == "vm_name"]
        ok = ok and len(inner) == 1 and len(vm) == 1 and ast.unparse(vm[0].value) == f"{o}.suffix"
        if ok:
            detail["extra_images_from"] = ast.unparse(inner[0].iter)
            ok = ast.unparse(inner[0].iter) == "self.params.object_params(vm_name).objects('images')"
            guard = [i for i in inner[0].body if isinstance(i, ast.If)]
            ok = ok and len(guard) == 1 and ast.unparse(guard[0].test) == f"{inner[0].target.id} not in parsed_images" \
                and any(_added_to(x, "self.objects") == ("one", "image") for x in guard[0].body)
    ctx.record(rule, "PROV", fref, "objects = [net] + each vm + its parsed images + every image the node's own vm-specific parameters declare beyond those", ok, detail,
               "" if ok else "images that only this test declares for a vm are no longer taken from the test's own parameters: their dependencies would never be followed")


# ---------------------------------------------------------------------- restriction accumulation
def restriction_updates(ctx: Ctx, rule: str) -> None:
    """TestNode.update_restrs and TestObject.update_restrs: identical, additive, duplicate test by whole line."""
    fa = ctx.repo.func(f"{N_}.update_restrs")
    fb = ctx.repo.func("cartgraph/object.py:TestObject.update_restrs")
    ctx.touch(fa.ref)
    ctx.touch(fb.ref)

    from .. import semtab

    def loop_table(f):
        body = semtab.strip(f.node.body)
        if len(body) != 1 or not isinstance(body[0], ast.For) or not isinstance(body[0].target, ast.Tuple) or len(body[0].target.elts) != 2:
            return None
        l = body[0]
        ren = {f.params()[1]: "RESTRS", l.target.elts[0].id: "SUFFIX", l.target.elts[1].id: "RESTR"}
        if ast.unparse(semtab.renamed(l.iter, ren)) != "RESTRS.items()":
            return None
        return semtab.block_table(l.body, (), ren)

    ta, tb = loop_table(fa), loop_table(fb)
    want = semtab.reference_table("""
        self.restrs[SUFFIX] = self.restrs.get(SUFFIX, "")
        if RESTR != "":
            if RESTR.rstrip() not in self.restrs[SUFFIX].splitlines():
                self.restrs[SUFFIX] += RESTR
    """)
    why = "not a single loop over the items of the given restrictions" if ta is None or tb is None else (semtab.mismatch(ta, tb) or semtab.mismatch(ta, want))
    same = exact = not why
    ctx.record(rule, "SIBLING", f"{fa.ref} / {fb.ref}", "both update_restrs: per suffix, a non-empty restriction is appended unless that exact line is already present", same and exact, {},
               "" if same and exact else "node and object restrictions are no longer accumulated alike / by whole lines (a restriction contained in another one's text would be dropped: lazy and eager parsing then differ)")


# ---------------------------------------------------------------------- cloning a node that is already a clone / matching by name tails
def reclone_source(ctx: Ctx, rule: str) -> None:
    """A test with two independent multi-producer dependencies is cloned twice; the second cloning starts from nodes that are already clones.
    A clone must then inherit its source's *current* parameters (the branch-specific name, get_state, set_state written by the first cloning),
    not the pristine recipe; and a node that has become a clone source is a template only."""
    fn = ctx.repo.func(PCB)
    ctx.touch(PCB)
    src = ast.unparse(fn.node)
    from_recipe = "clone_source.recipe.get_copy()" in src
    inherits = any(isinstance(s_, ast.Assign) and "clone_source.params" in ast.unparse(s_.value) and ast.unparse(s_.targets[0]).startswith("child.") for s_ in ast.walk(fn.node))
    ok = not from_recipe or inherits
    ctx.record(rule, "PROV", PCB, "a clone inherits the current parameters of its clone source (which may itself be a clone with branch-specific name and states), not only the source's recipe",
               ok, {"from_recipe": from_recipe, "inherits_params": inherits},
               "" if ok else "clones are rebuilt from the pristine recipe of their source: when the source is itself a clone (a test with two independent multi-producer dependencies) its "
               "branch-specific name / get_state / set_state are lost - clones with get_state None, missing branches, or only clone sources and nothing runnable")


def bridged_form_anchored(ctx: Ctx, rule: str) -> None:
    """Equivalent nodes are found by matching a regular expression against full node names: it must cover the whole name, or a clone named
    after a producer's state (`user.prepA.two.vms...`) passes for that producer (`all.prepA.two.vms...`)."""
    fref = f"{N_}.bridged_form"
    fn = ctx.repo.func(fref)
    ctx.touch(fref)
    rets = [r for r in ast.walk(fn.node) if isinstance(r, ast.Return) and r.value is not None]
    comp = [r for r in rets if "setless_form.replace" in ast.unparse(r.value) or "replace(suffix" in ast.unparse(r.value)]
    ok = False
    found = None
    if len(comp) == 1:
        found = ast.unparse(comp[0].value)
        parts = norm.concat_parts(comp[0].value)
        ok = bool(parts) and parts[0].startswith(("'^", '"^')) and parts[-1].rstrip("'\"").endswith("$")
    ctx.record(rule, "CONST", fref, "the worker-invariant form of a composite node is a regular expression anchored at both ends of the node name", ok, {"found": found},
               "" if ok else f"bridged_form matches a name TAIL ({found}): a clone named after a producer's state is taken for an equivalent of that producer "
               "(ValueError 'Cannot bridge ... with non-equivalent', or a dependant adopting another test's clones as parents); previous results are attributed with the same expression")


# ---------------------------------------------------------------------- object roots name the object they create
def object_root_value(ctx: Ctx, rule: str) -> None:
    """The one reader of `object_root` (traverse_terminal_node) takes it apart as <image>_<vm>-<variant>; every writer must therefore store the
    id of an image object: the dependant's dep_id, or - for an object creation test that was selected directly (only nonleaves / only all) and
    has no dependant - the node's own image, never the net."""
    fref = f"{G}.parse_nodes_from_flat_node_and_object"
    fn = ctx.repo.func(fref)
    ctx.touch(fref)
    netp = fn.params()[2]
    stores = [s_ for s_ in ast.walk(fn.node) if isinstance(s_, ast.Assign) and isinstance(s_.targets[0], ast.Subscript) and isinstance(s_.targets[0].slice, ast.Constant)
              and s_.targets[0].slice.value == "object_root"]
    why = ""
    if len(stores) != 1:
        why = f"{len(stores)} writers of object_root in {fref}"
    else:
        v = stores[0].value
        if not (isinstance(v, ast.Call) and call_name(v) == "get" and v.args and isinstance(v.args[0], ast.Constant) and v.args[0].value == "dep_id" and len(v.args) == 2):
            why = f"object_root is no longer the dependant's dep_id with a fallback: {ast.unparse(v)[:100]}"
        else:
            d = v.args[1]
            names = {n_.id for n_ in ast.walk(d) if isinstance(n_, ast.Name)}
            if ast.unparse(d).endswith(".id") and "net" in ast.unparse(d) and "image" not in ast.unparse(d):
                why = (f"an object creation test without a dependant (selected directly: only nonleaves, only all) gets object_root = {ast.unparse(d)}, the net: traverse_terminal_node "
                       "unpacks it as <image>_<vm> and raises ValueError - the traversal dies and the selected test never runs")
            elif not (("images" in ast.unparse(fn.node)) and names - {netp}):
                why = f"the fallback of object_root is not an image object of the node: {ast.unparse(d)[:100]}"
    rd = ctx.repo.func(f"{G}.traverse_terminal_node")
    ctx.touch(rd.ref)
    unpack = any(isinstance(s_, ast.Assign) and isinstance(s_.targets[0], ast.Tuple) and len(s_.targets[0].elts) == 2 and "split('_')" in ast.unparse(s_.value) for s_ in ast.walk(rd.node))
    ctx.record(rule, "PROV", fref, "object_root = the dependant's dep_id, else the id of the node's own image object (what the reader unpacks as <image>_<vm>-<variant>)", not why and unpack,
               {"reader_unpacks_image_vm": unpack}, why or ("" if unpack else "the reader of object_root changed"))


# ---------------------------------------------------------------------- parsing helpers leave their shared inputs alone
SHARED_FIELDS = ("restrs", "params", "_params_cache", "objects", "prefix", "recipe")
SHARED_MUTATORS = ("update_restrs", "regenerate_params", "set_objects_from_net", "clone_as_source")
INPUT_WRITES = {
    # function: the writes to an input it is allowed to make (each confirmed by reading)
    "parse_object_nodes": {"worker.net.update_restrs"},  # the worker's own net: worker specific by construction
    "parse_branches_for_node_and_object": set(),
    "parse_cloned_branches_for_node_and_object": set(),
}


def parse_inputs_readonly(ctx: Ctx, rule: str) -> None:
    """The flat node (one per test, shared by all workers during lazy expansion) and the flat net handed to a parsing helper carry no
    worker-specific state: no parse_*/get_* helper of TestGraph writes restrictions, parameters, objects or the prefix of an input."""
    mod = ctx.repo.module(GRAPH)
    cls = next(c for c in mod.body if isinstance(c, ast.ClassDef) and c.name == "TestGraph")
    bad, checked, writes = [], 0, []
    for f in cls.body:
        if not isinstance(f, (ast.FunctionDef, ast.AsyncFunctionDef)) or not f.name.startswith(("parse_", "get_")):
            continue
        ps = {a.arg for a in f.args.args + f.args.kwonlyargs} - {"self", "cls"}
        if not ps:
            continue
        checked += 1
        ctx.touch(f"{G}.{f.name}")
        rebound = set()
        for s_ in f.body:
            rebound |= norm.rebound_names(s_)
        allowed = INPUT_WRITES.get(f.name, set())
        for n in ast.walk(f):
            tok = None
            if isinstance(n, ast.Call) and isinstance(n.func, ast.Attribute) and n.func.attr in SHARED_MUTATORS:
                tok = ast.unparse(n.func)
            elif isinstance(n, ast.Call) and isinstance(n.func, ast.Attribute) and n.func.attr in norm.MUTATORS:
                t = norm._mutated_token(n.func.value, receiver=True)
                if "." in t and t.split(".")[-1] in SHARED_FIELDS:
                    tok = t
            elif isinstance(n, (ast.Assign, ast.AugAssign, ast.Delete)):
                tg = n.targets if not isinstance(n, ast.AugAssign) else [n.target]
                for t_ in tg:
                    if isinstance(t_, (ast.Attribute, ast.Subscript)):
                        t = norm._mutated_token(t_)
                        if "." in t and t.split(".")[-1] in SHARED_FIELDS:
                            tok = t
            if tok is None:
                continue
            root = tok.split(".")[0]
            if root not in ps or root in rebound:
                continue
            writes.append(f"{f.name}: {tok}")
            if tok not in allowed:
                bad.append(f"{f.name} line {n.lineno}: writes `{tok}` of its input `{root}`")
    if checked < 20:
        raise AnalysisError(f"{G}: only {checked} parsing helpers found")
    ctx.record(rule, "OWNER", f"{G}.get_and_parse_objects_for_node_and_object", "no parse_*/get_* helper of TestGraph writes the restrictions, parameters, objects or prefix of a node/object it "
               "receives (the flat node is shared by all workers during lazy expansion: what one worker writes into it restricts every later worker); "
               "frozen exception: parse_object_nodes adds the node restrictions to the worker's own net", not bad,
               {"helpers": checked, "writes_found": writes}, "" if not bad else bad[0])


# ---------------------------------------------------------------------- every worker's copy is parsed alike
def worker_symmetry(ctx: Ctx, rule: str) -> None:
    """parse_object_trees treats every worker alike: what is registered for a worker never depends on its position.

    Each worker's parse (parse_object_nodes) returns leaves and object stubs restricted by *that* worker's net.  If only the
    first worker's vm/image objects are registered, a vm variant supported only by a later worker is unknown to the graph and
    the dependency lookup for it is silently skipped (ValueError swallowed in get_and_parse_nodes...): the later worker's
    copy lacks setup that the same worker has when parsed alone or first.
    """
    fref = f"{G}.parse_object_trees"
    fn = ctx.repo.func(fref)
    ctx.touch(fref)
    loops = [l for l in ast.walk(fn.node) if isinstance(l, ast.For) and "workers" in ast.unparse(l.iter)]
    if len(loops) != 1:
        raise AnalysisError(f"{fref}: expected one loop over the workers, found {len(loops)}")
    loop = loops[0]
    idx = None
    if isinstance(loop.iter, ast.Call) and call_name(loop.iter) == "enumerate" and isinstance(loop.target, ast.Tuple) and isinstance(loop.target.elts[0], ast.Name):
        idx = loop.target.elts[0].id
    positional = []
    if idx:
        for n in ast.walk(loop):
            tests = []
            if isinstance(n, (ast.If, ast.While, ast.IfExp)):
                tests.append(n.test)
            elif isinstance(n, ast.comprehension):
                tests += n.ifs
            elif isinstance(n, ast.Assert):
                tests.append(n.test)
            for t in tests:
                if any(isinstance(x, ast.Name) and x.id == idx for x in ast.walk(t)):
                    positional.append(ast.unparse(t))
    ctx.record(rule, "SIBLING", fref, "no branch inside the per-worker parse depends on the worker's position in the nets list", not positional,
               {"index": idx, "position_dependent_tests": positional},
               "" if not positional else f"workers are treated differently by position ({positional[0]}): objects or nodes of later workers are registered by another rule than the first worker's, "
                                         "so a vm variant only a later worker supports is unknown to the graph and its dependencies are silently dropped")
    # a worker whose own restrictions exclude the whole selection just has no tests: it must not take the other workers' copies down
    pcall = [c for c in calls_in(loop) if call_name(c) == "parse_object_nodes"]
    tries = [t for t in ast.walk(loop) if isinstance(t, ast.Try) and any(c is x for s_ in t.body for x in ast.walk(s_) for c in pcall)]
    iso = False
    why = "parse_object_nodes of one worker is not guarded: its EmptyCartesianProduct aborts the parse for all workers"
    if len(pcall) == 1 and len(tries) == 1:
        hs = [h for h in tries[0].handlers if h.type is not None and ast.unparse(h.type).endswith("EmptyCartesianProduct")]
        if len(hs) == 1 and len(tries[0].handlers) == 1:
            hb = hs[0].body
            iso = isinstance(hb[-1], ast.Continue) and not any(isinstance(x, (ast.Return, ast.Raise, ast.Break)) for s_ in hb for x in ast.walk(s_))
            why = "the handler of a worker's empty product does not simply go on with the next worker"
            # an entirely empty selection must still be an error
            after = fn.node.body[fn.node.body.index(loop) + 1:] if loop in fn.node.body else []
            rer = [i for i in after if isinstance(i, ast.If) and any(isinstance(x, ast.Raise) for x in ast.walk(i))]
            empty = norm.formula(ast.parse("len(graph.nodes) == 0", mode="eval").body)
            if iso and not (len(rer) == 1 and norm.implies(norm.formula(rer[0].test), empty)):
                iso = False
                why = "after skipping incompatible workers an entirely empty selection is no longer an error (EmptyCartesianProduct must be raised when no worker parsed any test)"
    ctx.record(rule + "e", "TABLE", fref, "a worker whose restrictions exclude the whole selection is skipped (EmptyCartesianProduct caught per worker, continue); the error is raised only if no worker parsed any test", iso,
               {"guarded": bool(tries)}, "" if iso else why)
    # what is registered: all leaves; every stub that is a net or not yet known by id
    regs = [c for c in calls_in(loop) if call_name(c) == "new_objects" and ast.unparse(c.func.value) == "graph"]
    nodes = [c for c in calls_in(loop) if call_name(c) == "new_nodes" and ast.unparse(c.func.value) == "graph"]
    pon = [s for s in ast.walk(loop) if isinstance(s, ast.Assign) and isinstance(s.value, ast.Call) and call_name(s.value) == "parse_object_nodes"]
    ok_nodes = len(pon) == 1 and isinstance(pon[0].targets[0], ast.Tuple) and len(pon[0].targets[0].elts) == 2 and len(nodes) == 1 \
        and ast.unparse(nodes[0].args[0]) == ast.unparse(pon[0].targets[0].elts[0])
    stubs = ast.unparse(pon[0].targets[0].elts[1]) if pon and isinstance(pon[0].targets[0], ast.Tuple) else "stubs"
    ok_objs = False
    detail = [ast.unparse(c) for c in regs]
    if len(regs) == 1:
        a = regs[0].args[0]
        if isinstance(a, ast.Name) and a.id == stubs:
            ok_objs = False  # registering every stub of every worker duplicates the shared vm/image objects
            detail.append("all stubs of every worker (duplicates)")
        elif isinstance(a, (ast.ListComp, ast.GeneratorExp)) and len(a.generators) == 1 and ast.unparse(a.generators[0].iter) == stubs \
                and isinstance(a.generators[0].target, ast.Name) and ast.unparse(a.elt) == a.generators[0].target.id:
            v = a.generators[0].target.id
            f = norm.conj([norm.formula(t, rename={v: "_S"}) for t in a.generators[0].ifs])
            # the "already registered" collection: a local defined in this iteration from graph.objects' ids
            known = None
            for s in ast.walk(loop):
                if isinstance(s, ast.Assign) and len(s.targets) == 1 and isinstance(s.targets[0], ast.Name) and isinstance(s.value, (ast.SetComp, ast.ListComp)) \
                        and len(s.value.generators) == 1 and ast.unparse(s.value.generators[0].iter) == "graph.objects" and not s.value.generators[0].ifs \
                        and ast.unparse(s.value.elt) == f"{ast.unparse(s.value.generators[0].target)}.id" and s.lineno < regs[0].lineno:
                    known = s.targets[0].id
            if known:
                want = norm.disj([norm.formula(ast.parse("_S.key == 'nets'", mode="eval").body), norm.formula(ast.parse(f"_S.id not in {known}", mode="eval").body)])
                ok_objs = norm.equivalent(f, want)
    ctx.record(rule + "o", "COUNT", fref, "per worker: all its leaves are registered; of its object stubs every net object and every object whose id is not registered yet (no loss, no duplicate)",
               ok_nodes and ok_objs, {"new_objects": detail, "new_nodes": [ast.unparse(c) for c in nodes]},
               "" if ok_nodes and ok_objs else "the objects registered for a worker are not 'its nets plus everything not yet known': later workers lose their own vm/image variants (or shared ones are duplicated)")


# ---------------------------------------------------------------------- expansion of flat nodes (lazy and eager entry)
PNF = f"{G}.parse_nodes_from_flat_node_and_object"
GAPF = f"{G}.get_and_parse_nodes_from_flat_node_and_object"


def flat_expansion(ctx: Ctx, rule: str) -> None:
    """A flat node is expanded for a net into one composite node per compatible net variant; failures are never silent
    for required dependencies; already parsed equal nodes are reused instead of duplicated."""
    fn = ctx.repo.func(PNF)
    ctx.touch(PNF)
    nodep, objp = fn.params()[1], fn.params()[2]
    tries = [t for t in ast.walk(fn.node) if isinstance(t, ast.Try)]
    t_obj = [t for t in tries if any(call_name(c) == "get_and_parse_objects_for_node_and_object" for s in t.body for c in calls_in(s))]
    t_node = [t for t in tries if any(call_name(c) == "parse_node_from_object" for s in t.body for c in calls_in(s))]
    if len(t_obj) != 1 or len(t_node) != 1:
        raise AnalysisError(f"{PNF}: expected one try around the object lookup and one around the node parse")
    # (1) incompatible net: only ValueError is absorbed, by returning no nodes
    hs = t_obj[0].handlers
    ok1 = len(hs) == 1 and ast.unparse(hs[0].type) == "ValueError" and isinstance(hs[0].body[-1], ast.Return) and ast.unparse(hs[0].body[-1].value) == "[]" \
        and not any(isinstance(x, (ast.Raise,)) for x in ast.walk(hs[0]))
    ctx.record(rule + "v", "TABLE", PNF, "object lookup: only ValueError (no compatible net for this node) is absorbed and yields no nodes; anything else propagates", ok1,
               {"handlers": [ast.unparse(h.type) if h.type else "bare" for h in hs]}, "" if ok1 else "other errors of the object lookup are swallowed too, or an incompatible net is no longer skipped")
    # (2) empty product of the node parse: re-raised when the node is a required dependency, else this net only is skipped
    hs = t_node[0].handlers
    ok2 = len(hs) == 1 and ast.unparse(hs[0].type) == "param.EmptyCartesianProduct"
    if ok2:
        first = hs[0].body[0]
        want = norm.formula(ast.parse(f"{nodep}.params.get('require_existence', 'no') == 'yes'", mode="eval").body)
        ok2 = isinstance(first, ast.If) and norm.equivalent(norm.formula(first.test), want) and len(first.body) == 1 and isinstance(first.body[0], ast.Raise) \
            and first.body[0].exc is None and not first.orelse \
            and not any(isinstance(x, (ast.Return, ast.Break, ast.Raise)) for s_ in hs[0].body[1:] for x in ast.walk(s_))
    ctx.record(rule + "e", "TABLE", PNF, "node parse: EmptyCartesianProduct is re-raised iff require_existence == yes (a declared dependency must exist); otherwise only this net variant is skipped", ok2, {},
               "" if ok2 else "a required dependency that cannot be parsed is skipped silently (or an optional incompatible variant aborts the expansion)")
    # (3) one node per net variant, all kept
    loop = [l for l in ast.walk(fn.node) if isinstance(l, ast.For) and any(x is t_node[0] for x in l.body)]
    ok3 = len(loop) == 1 and ast.unparse(loop[0].iter) == "enumerate(test_nets)"
    defs = {}
    for s in ast.walk(fn.node):
        if isinstance(s, ast.Assign) and len(s.targets) == 1:
            defs.setdefault(ast.unparse(s.targets[0]), []).append(ast.unparse(s.value))
    if ok3:
        from ..canon import inline_locals

        j, net = (e.id for e in loop[0].target.elts)
        # hoisted / inlined helper locals (j_prefix, node_prefix) do not matter: compare with single-definition locals substituted
        fi = inline_locals(fn.node, keep={"test_nets", "new_node", "test_nodes"})
        di = {}
        for s_ in ast.walk(fi):
            if isinstance(s_, ast.Assign) and len(s_.targets) == 1:
                di.setdefault(ast.unparse(s_.targets[0]), []).append(ast.unparse(s_.value))
        app = [c for t_ in ast.walk(fi) if isinstance(t_, ast.Try) for s_ in t_.orelse for c in calls_in(s_) if call_name(c) == "append" and ast.unparse(c.func.value) == "test_nodes"]
        ok3 = (len(app) == 1 and ast.unparse(app[0].args[0]) == "new_node" and di.get("test_nets") == ["get_nets + parse_nets"]
               and di.get("new_node") == [f"self.parse_node_from_object({net}, {nodep}.params['name'], prefix=prefix + ('b' + str({j}) if {j} > 0 else ''), params=params)"]
               # the fingerprint is the dependant's dep_id with some fallback (which fallback is right: rule object_root_value)
               and len(di.get("new_node.params['object_root']", [])) == 1 and str(di["new_node.params['object_root']"][0]).startswith(f"{nodep}.params.get('dep_id', ")
               and isinstance(fi.body[-1], ast.Return) and ast.unparse(fi.body[-1].value) == "test_nodes")
        defs = di
    ctx.record(rule + "n", "COUNT", PNF, "one node per reused-or-new net variant (prefix + 'b<j>' from the second on), every parsed node is returned; object roots carry the dependent object's id as fingerprint",
               ok3, {k: defs.get(k) for k in ("test_nets", "new_node", "new_node.params['object_root']")}, "" if ok3 else "the expansion of a flat node per net variant changed (variants lost, mis-prefixed, or object roots without fingerprint)")
    # ---- reuse-or-parse around it
    f2 = ctx.repo.func(GAPF)
    ctx.touch(GAPF)
    n2, o2 = f2.params()[1], f2.params()[2]
    d2 = {}
    for s in sorted((x for x in ast.walk(f2.node) if isinstance(x, ast.Assign) and len(x.targets) == 1), key=lambda x: x.lineno):
        d2.setdefault(ast.unparse(s.targets[0]), []).append(ast.unparse(s.value))
    ok4 = (d2.get("setup_restr") == [f"{n2}.setless_form"] and d2.get("setup_obj_restr") == [f"{o2}.component_form"]
           and d2.get("filtered_children") == ["self.get_nodes_by_name(setup_restr)", "self.get_nodes('name', f'(\\\\.|^){setup_obj_restr}(\\\\.|$)', subset=filtered_children)",
                                               "[n for n in filtered_children if not n.is_flat()]"])
    ctx.record(rule + "c", "PROV", GAPF, "already expanded children of a flat node = nodes of its set-invariant name, of this net, that are not flat themselves", ok4,
               {"filtered_children": d2.get("filtered_children")}, "" if ok4 else "the lookup of already expanded children of a flat node changed")
    rets = [r for r in ast.walk(f2.node) if isinstance(r, ast.Return)]
    early = [r for r in rets if ast.unparse(r.value) == "(filtered_children, [])"]
    ok5 = len(early) == 1
    if ok5:
        parent_if = [i for i in ast.walk(f2.node) if isinstance(i, ast.If) and any(x is early[0] for x in i.body)]
        ok5 = len(parent_if) == 1 and norm.equivalent(norm.formula(parent_if[0].test), norm.formula(ast.parse("unique_new_node and len(filtered_children) == 1", mode="eval").body))
    ctx.record(rule + "u", "GUARD", GAPF, "a single already expanded child is returned without parsing only when unique nodes are requested", ok5, {},
               "" if ok5 else "expansion is skipped for a flat node although more variants may have to be parsed")
    # every freshly parsed node is either replaced by its already parsed equals (their clones for a clone source) or reported as new
    outer = [l for l in f2.node.body if isinstance(l, ast.For) and ast.unparse(l.iter) == "new_nodes"]
    ok6 = len(outer) == 1 and d2.get("new_nodes") == [f"self.parse_nodes_from_flat_node_and_object({n2}, {o2}, prefix, params=params, verbose=verbose)"] \
        and d2.get("old_nodes") == ["self.get_nodes_by_name(new_node.setless_form)"]
    if ok6:
        l = outer[0]
        tail = [s for s in l.body if isinstance(s, ast.If)]
        ok6 = (len(tail) == 1 and norm.equivalent(norm.formula(tail[0].test), norm.formula(ast.parse("len(old_nodes) == 0", mode="eval").body))
               and any(call_name(c) == "append" and ast.unparse(c.func.value) == "parse_nodes" and ast.unparse(c.args[0]) == l.target.id for s in tail[0].body for c in calls_in(s))
               and d2.get("nodes_to_add") == ["old_node.cloned_nodes", "[old_node]"]
               and any(isinstance(i, ast.If) and ast.unparse(i.test) == "node_to_add not in get_nodes" for i in ast.walk(l))
               and ast.unparse(f2.node.body[-1]) == "return (get_nodes, parse_nodes)")
    ctx.record(rule + "p", "COUNT", GAPF, "each freshly parsed node is replaced by its already parsed equals (a clone source by its clones, no duplicates) or reported as new: none dropped, none doubled",
               ok6, {"nodes_to_add": d2.get("nodes_to_add")}, "" if ok6 else "freshly parsed nodes of a flat expansion are lost or duplicated against the already parsed ones")


# ---------------------------------------------------------------------- lazy/eager agreement details found by defect hunting
def lazy_eager_details(ctx: Ctx, rule: str) -> None:
    """Two places where lazy and eager parsing can disagree about which tests a worker gets."""
    # (q) the shortcut "one child already expanded -> nothing more to parse" is sound only if at most one variant can exist
    f2 = ctx.repo.func(GAPF)
    ctx.touch(GAPF)
    gb = [c for c in calls_in(f2.node) if call_name(c) == "get_boolean" and c.args and isinstance(c.args[0], ast.Constant) and c.args[0].value == "unique_nodes_from_flat"]
    if len(gb) != 1 or len(gb[0].args) != 2:
        raise AnalysisError(f"{GAPF}: the unique_nodes_from_flat switch was not found")
    default = gb[0].args[1]
    sound = isinstance(default, ast.Constant) and default.value is False
    if not sound and isinstance(default, ast.Name):
        # accepted: a default that was established by counting the selectable variants (some `len(<variants>) > 1 / == 1` test feeds it)
        feeds = [s_ for s_ in ast.walk(f2.node) if isinstance(s_, ast.Assign) and ast.unparse(s_.targets[0]) == default.id]
        counted = [i for i in ast.walk(f2.node) if isinstance(i, ast.If) and any(x in feeds for x in ast.walk(i))
                   and any(isinstance(c, ast.Compare) and isinstance(c.left, ast.Call) and call_name(c.left) == "len" and "variant" in ast.unparse(c.left) for c in ast.walk(i.test))]
        sound = bool(counted)
    ctx.record(rule + "q", "GUARD", GAPF, "unique_new_node default derived from non-empty restrictions", sound,
               {"default": ast.unparse(default)},
               "" if sound else "the 'single already expanded child, nothing more to parse' shortcut is enabled whenever every vm restriction is non-empty, but a non-empty restriction "
               "(only CentOS,Fedora) still selects several variants: a variant one worker already created as somebody's setup hides the other selected variants from the lazy expansion")
    # (v) eager parse: a vm without a compatible variant on a net must only exclude the tests that use it
    fref = f"{G}.parse_components_for_object"
    f = ctx.repo.func(fref)
    ctx.touch(fref)
    calls = [c for c in calls_in(f.node) if call_name(c) == "parse_composite_objects"]
    guarded = []
    for c in calls:
        t = [t_ for t_ in ast.walk(f.node) if isinstance(t_, ast.Try) and any(c is x for s_ in t_.body for x in ast.walk(s_))
             and any(h.type is not None and ast.unparse(h.type).endswith("EmptyCartesianProduct") and isinstance(h.body[-1], ast.Continue) for h in t_.handlers)]
        guarded.append(bool(t))
    ok = bool(calls) and all(guarded)
    ctx.record(rule + "v", "TABLE", fref, "per-vm parse_composite_objects of a net's components", ok, {"calls": len(calls), "guarded": guarded},
               "" if ok else "the eager parse of a worker's objects lets the empty product of ONE vm (even one no selected test uses) escape: the worker loses all its tests, "
               "while lazy parsing drops only the tests that use that vm")


def dependency_table(ctx: Ctx, rule: str) -> None:
    """get_and_parse_nodes_from_composite_node_and_object as a decision table: when nothing is needed, when an attached or an
    already parsed parent is reused, when parents are parsed afresh and when parsed-and-looked-up."""
    from ..kinds import TableSpec, table_rule

    views = function_views(ctx, GAPC, names_interesting({"get_dependency", "parse_composite_nodes", "get_and_parse_composite_nodes"}, extra=lambda n: isinstance(n, ast.Return)))
    for v_ in views:
        v_.depth = 0  # filtered_parents is narrowed between its tests; the table is over the tests as written

    def M(name, text, neg=False):
        def m(t):
            if t == text:
                return (lambda v: not v[name]) if neg else (lambda v: v[name])
            return None
        return m

    matchers = [M("DEP", "object_dependency"), M("CL", "empty(test_node.cloned_nodes)", neg=True), M("UQ", "unique_new_node"),
                M("HS", "empty(test_node.setup_nodes)", neg=True), M("DN", "dep_node"), M("F1", "len(filtered_parents) == 1"),
                M("F0", "empty(filtered_parents)"), M("PC", "empty(filtered_parents[0].cloned_nodes)", neg=True)]

    def reference(v):
        if not v["DEP"]:
            return "nothing"
        if (v["CL"] or v["UQ"]) and v["HS"] and v["DN"]:
            return "attached"
        if v["F1"]:
            if v["PC"]:
                return "clones-of-the-single-candidate"
            if v["UQ"]:
                return "the-single-candidate"
        return "parse" if v["F0"] else "parse-and-lookup"

    spec = TableSpec({k: [True, False] for k in ("DEP", "CL", "UQ", "HS", "DN", "F1", "F0", "PC")}, matchers, reference,
                     constraint=lambda v: not (v["F1"] and v["F0"]))

    def outcome(view, val, free):
        if view.path.exit != "return":
            return view.path.exit
        t = ast.unparse(view.path.exit_node.value)
        return {"([], [])": "nothing", "([dep_node], [])": "attached", "(list(filtered_parents[0].cloned_nodes), [])": "clones-of-the-single-candidate",
                "(filtered_parents, [])": "the-single-candidate"}.get(t) or ("parse" if t.startswith("([], self.parse_composite_nodes(") else
                                                                             ("parse-and-lookup" if t.startswith("self.get_and_parse_composite_nodes(") else t))

    table_rule(ctx, rule, GAPC, views, spec, outcome, ignore_atoms=lambda a: "object_parents" in a or a.startswith("params is") or "len(filtered_parents) > 1" in a or "1 < len(filtered_parents)" in a,
               construct="parents of an object's dependency: no `get` -> none; (clone source or unique) with attached setup and a matching attached node -> that node; exactly one parsed candidate -> its clones if it is a clone "
               "source, itself if unique nodes are wanted; no candidate -> parse afresh; otherwise parse and look up")
