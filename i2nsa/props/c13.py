"""C13 — pool access respects the enabled scopes and prefers the closest source."""

from __future__ import annotations

import ast
import re
import itertools

from .. import norm
from ..ctx import Ctx
from ..facts import PathView, is_call_named
from ..kinds import (
    TableSpec,
    bool_return_outcome,
    expr_formula,
    function_views,
    guard_rule,
    loop_iteration_views,
    names_interesting,
    table_rule,
    the_loop,
)
from ..paths import PathEnum, Step, first_line
from ..repo import AnalysisError, call_name, calls_in
from . import nodetables as N

POOL = "states/pool.py"
SSB = f"{POOL}:SourcedStateBackend"
RSB = f"{POOL}:RootSourcedStateBackend"
FILTER = "source_scope == 'own' or source_scope not in scopes"

EXPLANATION = (
    "In each of the four pool operations every transport call inside the source loop is dominated by the scope filter "
    "(same boolean function of the same atoms in all four), local operations happen only with 'own' enabled, fetching "
    "stops at the first permitted source while saving/removing/listing visit every permitted mirror, sources are sorted "
    "by a proximity whose literals order own > shared > swarm > cluster, the scope classification table equals the "
    "reference, a download happens only when the pool has the state and the cache is missing or differs, and updating "
    "a pool without the local state raises. What the sources contain at run time is not decided."
)
DECIDED = [
    "C13.1 scope filter dominates every transport call in show/get/set/unset; the four filters agree",
    "C13.2 local _get/_set/_unset only with 'own' enabled; show()'s cache part only with 'own'",
    "C13.3 get stops at the first permitted source (filtered sources are skipped, not terminating); set/unset/show visit all",
    "C13.4 proximity literals order the scopes; sources sorted by proximity, closest first",
    "C13.5 get_source_scope classification table",
    "C13.6 re-download only if the pool has the state and the cache is missing or differs (compare_chain)",
    "C13.7 updating a pool without the local state / local root raises before any transport",
    "C13.8 root backend scope table (check_root/get_root/set_root/unset_root)",
    "C13.9 TransferOps routing (remote / link / local) agrees across the five operations",
    "C13.10 compare_chain and transfer_chain walk the same files of the backing chain; get/set transfer down/up; unset keeps the chain",
    "C13.2u removal tolerates a state held by only one of cache and pool (known finding F38); C13.8v vm roots are local only in get_root as in check_root; C13.4 proximity computed for every valuation",
]
NOT_DECIDED = ["actual contents of sources", "truth of checksums"]
MIN_INSTANCES = 30


def _pre_steps(fn: ast.AST, loop: ast.AST) -> list[Step]:
    out = []
    for s in fn.body:
        if s is loop:
            break
        if isinstance(s, ast.Assign):
            out.append(Step("stmt", s))
    return out


def _source_loop(ctx: Ctx, op: str):
    fref = f"{SSB}.{op}"
    fn = ctx.repo.func(fref)
    loop = the_loop(ctx, fref, ast.For, lambda l: ast.unparse(l.iter) == "sources", "loop over sources")
    ctx.require_locals(fref, ["sources", "scopes", "source_scope", "source_params", "source_path", "source_net"])
    return fref, fn, loop


def _is_transport_call(c: ast.Call) -> bool:
    return isinstance(c.func, ast.Attribute) and ast.unparse(c.func.value) == "cls.transport"


def scope_filter(ctx: Ctx, rule: str) -> None:
    filters = {}
    for op, nmin in (("show", 1), ("get", 3), ("set", 1), ("unset", 1)):
        fref, fn, loop = _source_loop(ctx, op)
        views = loop_iteration_views(ctx, fref, loop, names_interesting({"transport", "get_source_scope", "_show"}),
                                     pre_steps=_pre_steps(fn.node, loop))

        def required(v: PathView, i: int, c: ast.Call):
            return norm.neg(expr_formula(v, i, FILTER))

        guard_rule(ctx, rule, fref, views, _is_transport_call, required, min_sites=nmin, missing_is_violation=True,
                   what=f"cls.transport call in the source loop of {op}",
                   describe_required="not (source_scope == 'own' or source_scope not in scopes)")
        # definitions feeding the filter
        defs = {}
        for s in ast.walk(fn.node):
            if isinstance(s, ast.Assign) and len(s.targets) == 1:
                defs.setdefault(ast.unparse(s.targets[0]), []).append(ast.unparse(s.value))
        ok = (defs.get("source_scope") == ["cls.get_source_scope(source_path, source_params, params)"]
              and defs.get("scopes") == ["params.get_list('pool_scope')"]
              and (defs.get("source_net, source_path") or defs.get("(source_net, source_path)")) == ["source.split(':')"]
              and defs.get("sources") == [f"cls.get_sources('{op}', params)"]
              and defs.get(f"source_params['{op}_location']") == ["source"])
        ctx.record(rule + "d", "PROV", fref, "filter inputs: source_scope = get_source_scope(source_path, source_params, params); scopes = pool_scope list; "
                   f"sources = get_sources('{op}'); source_params['{op}_location'] = source", ok,
                   {k: defs.get(k) for k in ("source_scope", "scopes", "sources")},
                   "" if ok else f"the inputs of the scope filter in {op} changed")
        # the filter statement itself
        ifs = [s for s in loop.body if isinstance(s, ast.If) and "source_scope" in ast.unparse(s.test)]
        # `if F: continue` and `if not F: <the rest>` are the same filter
        if len(ifs) == 1 and len(ifs[0].body) == 1 and isinstance(ifs[0].body[0], ast.Continue) and not ifs[0].orelse:
            filters[op] = norm.formula(ifs[0].test)
        elif len(ifs) == 1 and not ifs[0].orelse and loop.body[-1] is ifs[0]:
            filters[op] = norm.neg(norm.formula(ifs[0].test))
        else:
            filters[op] = None
    want = norm.formula(ast.parse(FILTER, mode="eval").body)
    ok = all(f is not None and norm.equivalent(f, want) for f in filters.values())
    ctx.record(rule + "s", "SIBLING", SSB, "the scope filters of show/get/set/unset are the same boolean function", ok,
               {k: norm.show(v) if v else None for k, v in filters.items()},
               "" if ok else f"the four pool operations no longer filter sources identically: { {k: norm.show(v) if v else None for k, v in filters.items()} }")


def partial_presence(ctx: Ctx, rule: str) -> None:
    """show() reports a state that is in the cache OR in a permitted pool, so the state a removal is asked for may be missing from either
    side: the local removal is conditional on the local presence, and deleting from a pool tolerates a missing file (otherwise the
    removal raises half way: the mirrors after the failing one are never reached)."""
    fref = f"{SSB}.unset"
    views = function_views(ctx, fref, names_interesting({"_unset", "_show", "scopes"}))
    guard_rule(ctx, rule, fref, views, is_call_named("_unset"),
               lambda v, i, c: expr_formula(v, i, "params['unset_state'] in cls._show(params, object)"),
               min_sites=1, missing_is_violation=True, what="local cls._unset call",
               describe_required="the state is among the local states (it may be listed because a pool has it)")
    OPS = f"{POOL}:TransferOps"
    f2 = f"{OPS}.delete_local"
    views2 = function_views(ctx, f2, names_interesting({"unlink", "exists", "lexists", "image_lock"}))
    fn2 = ctx.repo.func(f2)
    tolerant = any(isinstance(t, ast.Try) and any(h.type is not None and "FileNotFoundError" in ast.unparse(h.type) for h in t.handlers)
                   and any(call_name(c) == "unlink" for c in calls_in(t)) for t in ast.walk(fn2.node))
    if tolerant:
        ctx.record(rule + "d", "GUARD", f2, "os.unlink(pool_path) tolerates a missing file", True, {}, "")
    else:
        guard_rule(ctx, rule + "d", f2, views2, lambda c: call_name(c) in ("unlink", "remove"),
                   lambda v, i, c: norm.disj([expr_formula(v, i, "os.path.exists(pool_path)"), expr_formula(v, i, "os.path.lexists(pool_path)")]),
                   min_sites=1, missing_is_violation=True, what="os.unlink of the pool file",
                   describe_required="the pool file exists (a state listed from the cache alone has no pool file; the lock must not be created for it either)")
    f3 = f"{OPS}.delete_remote"
    fn3 = ctx.repo.func(f3)
    ctx.touch(f3)
    cmds = [ast.unparse(c.args[0]) for c in calls_in(fn3.node) if call_name(c) == "cmd" and c.args]
    ok3 = len(cmds) == 1 and ("rm -f " in cmds[0] or "test -e" in cmds[0] or "[ -e" in cmds[0])
    ctx.record(rule + "r", "GUARD", f3, "the remote removal tolerates a missing file (rm -f)", ok3, {"commands": cmds},
               "" if ok3 else f"deleting from a remote pool fails for a state the pool does not hold: {cmds}")


def local_ops(ctx: Ctx, rule: str) -> None:
    for op in ("get", "set", "unset"):
        fref = f"{SSB}.{op}"
        views = function_views(ctx, fref, names_interesting({f"_{op}", "scopes"}))
        guard_rule(ctx, rule, fref, views, is_call_named(f"_{op}"),
                   lambda v, i, c: expr_formula(v, i, "'own' in scopes"),
                   min_sites=1, missing_is_violation=True, what=f"local cls._{op} call",
                   describe_required="'own' in the enabled pool scopes")
    fref = f"{SSB}.show"
    views = function_views(ctx, fref, names_interesting({"_show", "cache_states", "pool_states", "scopes"}))
    problems = []
    n = 0
    for v in views:
        if v.path.exit != "return":
            continue
        n += 1
        own = expr_formula(v, 0, "'own' in params.get_list('pool_scope')")
        prem = v.premise(len(v.steps), 0)
        cache = v.canon_text(ast.Name(id="cache_states", ctx=ast.Load()), len(v.steps))
        if norm.implies(prem, norm.neg(own)):
            if cache != "[]":
                problems.append((f"without 'own' the cache contributes {cache}", v))
        elif norm.implies(prem, own):
            if cache != "cls._show(params, object)":
                problems.append((f"with 'own' the cache part is {cache}", v))
        else:
            problems.append(("the cache part does not depend on 'own' being enabled", v))
        # result = union of exactly the cache part and the pool part (an unset pool part counts as empty)
        rv = v.path.exit_node.value
        names = {n_.id for n_ in ast.walk(rv) if isinstance(n_, ast.Name)} - {"list", "set", "sorted"}
        unions = [c for c in ast.walk(rv) if (isinstance(c, ast.Call) and call_name(c) == "union") or (isinstance(c, ast.BinOp) and isinstance(c.op, ast.BitOr))]
        if names != {"cache_states", "pool_states"} or len(unions) != 1 or any(isinstance(c, ast.Call) and call_name(c) in ("intersection", "difference") for c in ast.walk(rv)):
            problems.append((f"show returns {ast.unparse(rv)}", v))
    ctx.expect_sites(rule + "s", n, 2, fref, False, "returning path of show")
    ctx.record(rule + "s", "PROV", fref, "show = union(local states if 'own' enabled else [], states of permitted sources)", not problems,
               {"paths": n}, "" if not problems else problems[0][0])
    # pool_states is fed only by transport.show of permitted sources
    fn = ctx.repo.func(fref)
    feeds = [s for s in ast.walk(fn.node) if isinstance(s, ast.Assign) and ast.unparse(s.targets[0]) == "pool_states"]
    okf = len(feeds) == 2 and ast.unparse(feeds[0].value) in ("set()", "None") and "mirror_states" in ast.unparse(feeds[1].value) \
        and {n.id for n in ast.walk(feeds[1].value) if isinstance(n, ast.Name)} <= {"set", "mirror_states", "pool_states"}
    ms = [s for s in ast.walk(fn.node) if isinstance(s, ast.Assign) and ast.unparse(s.targets[0]) == "mirror_states"]
    okf = okf and len(ms) == 1 and ast.unparse(ms[0].value) == "cls.transport.show(source_params, object)"
    ctx.record(rule + "p", "PROV", fref, "pool_states is built only from cls.transport.show(source_params) of unfiltered sources", okf, {},
               "" if okf else "the pool part of show is fed by something other than the permitted sources' listings")


def closest_source(ctx: Ctx, rule: str) -> None:
    for op in ("show", "get", "set", "unset"):
        fref, fn, loop = _source_loop(ctx, op)
        views = loop_iteration_views(ctx, fref, loop, names_interesting({"transport", "get_source_scope"}),
                                     pre_steps=_pre_steps(fn.node, loop))
        problems = []
        n = 0
        for v in views:
            n += 1
            filt = expr_formula(v, len(v.steps), FILTER)
            prem = v.premise(len(v.steps), 0)
            filtered = norm.implies(prem, filt)
            permitted = norm.implies(prem, norm.neg(filt))
            tcalls = [call_name(c) for i, c in v.calls(_is_transport_call)]
            if v.path.exit == "raise":
                continue
            if filtered:
                # skipped = nothing but moving on to the next source (an explicit `continue` or the end of a body nested under the negated filter)
                if v.path.exit not in ("continue", "fall") or tcalls:
                    problems.append(("a source excluded by the scope filter is not simply skipped", v))
            elif permitted:
                if op == "get":
                    if v.path.exit != "break":
                        problems.append(("get goes on to further sources after a permitted one", v))
                else:
                    if v.path.exit not in ("fall", "continue"):
                        problems.append((f"{op} stops before having visited every permitted mirror", v))
                    if op in ("set", "unset") and tcalls != [op]:
                        problems.append((f"{op} does not perform exactly one transport.{op} per permitted mirror: {tcalls}", v))
                    if op == "show" and tcalls != ["show"]:
                        problems.append((f"show lists a permitted mirror {len(tcalls)} times", v))
            else:
                problems.append(("iteration neither excluded nor permitted by the filter", v))
        ctx.record(rule, "COUNT", fref,
                   "get: filtered -> continue, permitted -> break" if op == "get" else f"{op}: filtered -> continue; permitted -> exactly one transport.{op}, no early exit",
                   not problems, {"paths": n, **({"path": problems[0][1].path.describe()} if problems else {})},
                   "" if not problems else problems[0][0])
    fref = f"{SSB}.get_sources"
    fn = ctx.repo.func(fref)
    ctx.touch(fref)
    rets = [r for r in fn.node.body if isinstance(r, ast.Return)]
    ok = len(rets) == 1 and ast.unparse(rets[0].value) == "sorted(params.objects(f'{do}_location'), key=proximity, reverse=True)"
    ctx.record(rule + "s", "CONST", fref, "sources = <op>_location entries sorted by proximity, closest first", ok,
               {"found": ast.unparse(rets[0].value) if rets else None}, "" if ok else "the order in which sources are tried changed")


def proximity_order(ctx: Ctx, rule: str) -> None:
    fref = f"{SSB}.get_sources.<locals>.proximity"
    fn = ctx.repo.func(fref)
    ctx.touch(fref)
    # the score is computed by a small interpreter over the function (constants, `score += c`, if/else, conditional expressions), for
    # every valuation of the conditions it tests -- not read off one statement shape
    GW, HOST, OWN = ("params['nets_gateway'] == source_params['nets_gateway']", "params['nets_host'] == source_params['nets_host']", "params['swarm_pool'] == source_path")
    tests = [n.test for n in ast.walk(fn.node) if isinstance(n, (ast.If, ast.IfExp))]
    atoms = []
    for t in tests:
        for a in norm.atoms_of(norm.formula(t)):
            if a not in atoms:
                atoms.append(a)

    class Odd(Exception):
        pass

    def ev(e, val):
        if isinstance(e, ast.Constant) and isinstance(e.value, (int, float)):
            return e.value
        if isinstance(e, ast.IfExp):
            return ev(e.body, val) if norm.evaluate(norm.formula(e.test), val) else ev(e.orelse, val)
        if isinstance(e, ast.BinOp) and isinstance(e.op, ast.Add):
            return ev(e.left, val) + ev(e.right, val)
        if isinstance(e, ast.Name) and e.id == "score":
            return val["__score"]
        raise Odd(ast.unparse(e))

    def run_block(stmts, val):
        for st in stmts:
            if isinstance(st, ast.Expr):
                continue
            if isinstance(st, ast.Assign) and ast.unparse(st.targets[0]) == "score":
                val["__score"] = ev(st.value, val)
            elif isinstance(st, ast.AugAssign) and ast.unparse(st.target) == "score" and isinstance(st.op, ast.Add):
                val["__score"] = val["__score"] + ev(st.value, val)
            elif isinstance(st, ast.If):
                r = run_block(st.body if norm.evaluate(norm.formula(st.test), val) else st.orelse, val)
                if r is not None:
                    return r
            elif isinstance(st, ast.Return):
                return ev(st.value, val)
            elif isinstance(st, ast.Assign):
                continue  # source description (checked below)
            else:
                raise Odd(ast.unparse(st)[:60])
        return None

    by_scope = {"own": [], "shared": [], "swarm": [], "cluster": []}
    ok, detail = all(a in atoms for a in (GW, HOST, OWN)), {"conditions": atoms}
    if ok:
        try:
            for bits in itertools.product((False, True), repeat=len(atoms)):
                val = dict(zip(atoms, bits))
                val["__score"] = 0
                sc = run_block(fn.node.body, val)
                if sc is None:
                    raise Odd("no score returned")
                scope = "cluster" if not val[GW] else ("swarm" if not val[HOST] else ("own" if val[OWN] else "shared"))
                by_scope[scope].append(sc)
            ok = min(by_scope["own"]) > max(by_scope["shared"]) and min(by_scope["shared"]) > max(by_scope["swarm"]) and min(by_scope["swarm"]) > max(by_scope["cluster"])
            detail.update({k: sorted(set(v)) for k, v in by_scope.items()})
        except Odd as odd:
            ok = False
            detail["not_understood"] = str(odd)
    src = [s for s in fn.node.body if isinstance(s, ast.Assign) and ast.unparse(s.targets[0]) == "source_params"]
    ok = ok and len(src) == 1 and ast.unparse(src[0].value) == "params.object_params(source_net) if source_net else params"
    ctx.record(rule, "CONST", fref, "proximity scores: every own source > shared on the same host > any swarm source > any cluster source", ok, detail,
               "" if ok else f"the proximity literals no longer order the scopes own > shared > swarm > cluster: {detail}")


def scope_table(ctx: Ctx, rule: str) -> None:
    fref = f"{SSB}.get_source_scope"
    views = function_views(ctx, fref, None)

    spec = TableSpec(
        {"GW": N.B, "HOST": N.B, "SHARED": N.B, "OWN": N.B},
        [N.M("GW", "own_params['nets_gateway'] == source_params['nets_gateway']"),
         N.M("HOST", "own_params['nets_host'] == source_params['nets_host']"),
         N.M("SHARED", "own_params['shared_pool'].lstrip(':') == source_path"),
         N.M("OWN", "own_params['swarm_pool'] == source_path")],
        lambda v: "cluster" if not v["GW"] else ("swarm" if not v["HOST"] else ("shared" if v["SHARED"] else ("own" if v["OWN"] else "shared"))),
    )

    def outcome(view, val, free):
        if view.path.exit == "return" and isinstance(view.path.exit_node.value, ast.Constant):
            return view.path.exit_node.value.value
        return "?"

    table_rule(ctx, rule, fref, views, spec, outcome,
               construct="scope of a source: other gateway -> cluster; other host -> swarm; the shared pool path -> shared; own swarm pool path -> own; else shared")


def redownload(ctx: Ctx, rule: str) -> None:
    fref, fn, loop = _source_loop(ctx, "get")
    # written over the underlying expressions: the path view substitutes the locals the code happens to use, so naming / inlining of
    # local_state_exists, pool_state_exists, cache_valid does not matter
    LOCAL_HAS = "(params['get_state'] in cls._show(params, object))"
    POOL_HAS = "(params['get_state'] in cls.transport.show(source_params, object))"
    CMP = "cls.transport.compare_chain(params['get_state'], params['swarm_pool'], source_params['get_location'], source_params)"
    views = loop_iteration_views(ctx, fref, loop, names_interesting({"transport", "_show", "cache_valid"}), pre_steps=_pre_steps(fn.node, loop))

    def required(v: PathView, i: int, c: ast.Call):
        return expr_formula(v, i, f"{POOL_HAS} and not ({LOCAL_HAS} and {CMP})")

    guard_rule(ctx, rule, fref, views, lambda c: _is_transport_call(c) and call_name(c) == "get", required, min_sites=1, missing_is_violation=True,
               what="cls.transport.get (download) call", describe_required="the pool has the state and the local copy is missing or differs (compare_chain of state, own pool, source location)")
    defs = {}
    for s in ast.walk(fn.node):
        if isinstance(s, ast.Assign) and len(s.targets) == 1:
            defs.setdefault(ast.unparse(s.targets[0]), []).append(ast.unparse(s.value))
    ok = defs.get("source_params['show_location']") == ["source"]
    ctx.record(rule + "d", "PROV", fref, "the pool listing consulted for the download decision is that of the source being considered (show_location = source)", ok,
               {"show_location": defs.get("source_params['show_location']")},
               "" if ok else "the inputs of the re-download decision changed")
    # a differing local copy does get refreshed: the compare result False leads to the download
    n_dl = 0
    for v in views:
        for i, c in v.calls(lambda c: _is_transport_call(c) and call_name(c) == "get"):
            prem = v.premise(i, 0)
            # the download happens on a path that an existing local copy can take (it is the failed comparison that leads here)
            if not norm.implies(prem, norm.neg(expr_formula(v, i, LOCAL_HAS))):
                n_dl += 1
    ctx.record(rule + "r", "GUARD", fref, "a local copy that differs from the source is downloaded again", n_dl >= 1, {"paths": n_dl},
               "" if n_dl else "an existing but differing local copy is never refreshed from the pool")
    # same shape for the root backend
    fref2 = f"{RSB}.get_root"
    views2 = function_views(ctx, fref2, names_interesting({"transport", "_check_root", "_get_root", "cache_valid"}))

    def required2(v: PathView, i: int, c: ast.Call):
        own_off = expr_formula(v, i, "'own' not in params['pool_scope']")
        return norm.disj([own_off, expr_formula(v, i, "pool_root_exists and (not local_root_exists or not cache_valid)")])

    # cache_valid is a loop-carried flag here: check the guard on the flag itself
    def own_off_at(v: PathView, i: int):
        # the scope may be tested on the raw string or on the parsed list
        return norm.disj([v.formula_of(ast.parse("'own' not in params['pool_scope']", mode="eval").body, i),
                          v.formula_of(ast.parse("'own' not in params.get_list('pool_scope')", mode="eval").body, i)])

    def required2b(v: PathView, i: int, c: ast.Call):
        return norm.disj([own_off_at(v, i), norm.conj([v.formula_of(ast.parse("pool_root_exists", mode="eval").body, i)])])

    guard_rule(ctx, rule + "g", fref2, views2, lambda c: _is_transport_call(c) and call_name(c) == "get_root", required2b, min_sites=2,
               what="cls.transport.get_root call", describe_required="pool scope without 'own', or the pool root exists (and the cache is invalid)")
    n, bad = 0, None
    for v in views2:
        for i, c in v.calls(lambda c: _is_transport_call(c) and call_name(c) == "get_root"):
            prem = v.premise(i, 0)
            if norm.implies(prem, own_off_at(v, i)):
                continue
            n += 1
            conds = [j for j in range(i) if v.steps[j].kind == "cond" and ast.unparse(v.steps[j].node) == "not cache_valid" and v.steps[j].pol]
            if not conds:
                bad = v
    ctx.record(rule + "h", "GUARD", fref2, "mixed scope: the root is downloaded only under `not cache_valid`", bad is None and n >= 1, {"paths": n},
               "" if bad is None and n >= 1 else "the root image is downloaded although the cache was found valid")


def refuse_without_local(ctx: Ctx, rule: str) -> None:
    fref = f"{SSB}.set"
    views = function_views(ctx, fref, names_interesting({"transport", "_set", "_show", "scopes", "get_source_scope"}, extra=lambda n: isinstance(n, ast.Raise)))

    def required(v: PathView, i: int, c: ast.Call):
        return norm.disj([expr_formula(v, i, "'own' in scopes"), expr_formula(v, i, "params['set_state'] in cls._show(params, object)")])

    guard_rule(ctx, rule, fref, views, lambda c: _is_transport_call(c) and call_name(c) == "set", required, min_sites=1, missing_is_violation=True,
               what="cls.transport.set (upload) call",
               describe_required="'own' enabled (state just set locally) or the state exists locally (RuntimeError otherwise)")
    for op in ("set_root", "unset_root"):
        fref2 = f"{RSB}.{op}"
        views2 = function_views(ctx, fref2, names_interesting({"transport", "_check_root", f"_{op}"}, extra=lambda n: isinstance(n, ast.Raise)))

        def required_root(v: PathView, i: int, c: ast.Call, op=op):
            parts = [expr_formula(v, i, "params['pool_scope'] == 'shared'")]
            if op == "set_root":
                parts.append(expr_formula(v, i, "cls._check_root(params, object)"))
            return norm.conj(parts)

        guard_rule(ctx, rule + "r", fref2, views2, lambda c, op=op: _is_transport_call(c) and call_name(c) == op, required_root, min_sites=1,
                   missing_is_violation=True, what=f"cls.transport.{op} call",
                   describe_required="pool_scope == 'shared'" + (" and the local root exists" if op == "set_root" else ""))
        guard_rule(ctx, rule + "l", fref2, views2, is_call_named(f"_{op}"),
                   lambda v, i, c: expr_formula(v, i, "params['pool_scope'] == 'own'"), min_sites=1,
                   what=f"local cls._{op} call", describe_required="pool_scope == 'own'")
        other = [v for v in views2 if v.path.exit != "raise" and not list(v.calls(is_call_named(op, f"_{op}")))]
        ctx.record(rule + "e", "TABLE", fref2, f"{op}: any scope other than exactly 'own' or 'shared' raises", not other, {},
                   "" if not other else f"{op} silently does nothing for some pool scope")


def root_scope_table(ctx: Ctx, rule: str) -> None:
    """Root states live in the shared pool: it is contacted only when the 'shared' scope is enabled, the local root only with 'own'."""
    shared = "'shared' in params.get_list('pool_scope')"
    for op, interesting in (("check_root", {"transport", "_check_root"}), ("get_root", {"transport", "_check_root", "_get_root"})):
        fref = f"{RSB}.{op}"
        views = function_views(ctx, fref, names_interesting(interesting))
        guard_rule(ctx, rule + ("" if op == "check_root" else "g"), fref, views, _is_transport_call,
                   lambda v, i, c: expr_formula(v, i, shared), min_sites=1, missing_is_violation=True,
                   what=f"shared pool access (cls.transport.*) in {op}",
                   describe_required="'shared' is among the enabled pool scopes")
    # answers: without the shared scope the local root alone decides / is used
    fref = f"{RSB}.check_root"
    views = function_views(ctx, fref, names_interesting({"transport", "_check_root"}))
    n, problems = 0, []
    for v in views:
        if v.path.exit != "return":
            continue
        n += 1
        prem = v.premise(len(v.steps), 0)
        ret = v.canon_text(v.path.exit_node.value, len(v.steps))
        tcalls = [call_name(c) for i, c in v.calls(_is_transport_call)]
        if not tcalls:
            if ret != "cls._check_root(params, object)":
                problems.append((f"without pool access the answer is {ret}", v))
        elif "cls._check_root(params, object) or" not in ret or "cls.transport.check_root(params, object)" not in ret:
            problems.append((f"with the shared scope the answer is {ret}", v))
    ctx.record(rule + "t", "TABLE", fref, "check_root: local root, or (shared scope enabled and the pool has it and the object is not a vm)", not problems and n == 2, {"paths": n},
               "" if not problems and n == 2 else (problems[0][0] if problems else "unexpected shape of check_root"))
    fref = f"{RSB}.get_root"
    views = function_views(ctx, fref, names_interesting({"transport", "_check_root", "_get_root"}))
    n, problems = 0, []
    for v in views:
        if v.path.exit == "raise":
            continue
        n += 1
        prem = v.premise(len(v.steps), 0)
        names = [call_name(c) for i, c in v.calls(lambda c: call_name(c) in ("get_root", "_get_root"))]
        own = expr_formula(v, 0, "'own' in params.get_list('pool_scope')")
        if "_get_root" in names and norm.implies(prem, norm.neg(own)):
            problems.append(("the local root is used although the 'own' scope is disabled", v))
        if not names:
            problems.append(("a path of get_root gets nothing", v))
        if "get_root" in names and "_get_root" in names and names[-1] != "_get_root":
            problems.append((f"mixed scope must end with the local get: {names}", v))
    ctx.record(rule + "gt", "TABLE", fref, "get_root: no 'shared' -> local only; 'shared' without 'own' -> pool only; both -> (conditional download) then local", not problems and n >= 3,
               {"paths": n}, "" if not problems and n >= 3 else (problems[0][0] if problems else "unexpected shape of get_root"))


def vm_root_local(ctx: Ctx, rule: str) -> None:
    """check_root says so itself: the root of a vm (its boot state) cannot be handled remotely, a pool copy does not count for vm object
    types.  get_root must agree: nothing is downloaded over the images of a (running) vm."""
    fc = ctx.repo.func(f"{RSB}.check_root")
    ctx.touch(fc.ref)
    lists = [c for c in ast.walk(fc.node) if isinstance(c, ast.Compare) and "object_type" in ast.unparse(c.left) and isinstance(c.ops[0], (ast.In, ast.NotIn))
             and isinstance(c.comparators[0], (ast.List, ast.Tuple, ast.Set))]
    types = sorted(e.value for c in lists for e in c.comparators[0].elts if isinstance(e, ast.Constant))
    ok_c = len(lists) == 1 and types == ["nets/vms", "vms"]
    ctx.record(rule, "TABLE", fc.ref, "check_root: a pool copy does not make the root of a vm ('vms', 'nets/vms') exist", ok_c, {"types": types},
               "" if ok_c else "check_root no longer excludes vm object types from the pool answer")
    fref = f"{RSB}.get_root"
    views = function_views(ctx, fref, names_interesting({"transport", "_check_root", "_get_root", "object_type"}))
    n, bad = 0, None
    for v in views:
        for i, c in v.calls(lambda c: _is_transport_call(c) and call_name(c) == "get_root"):
            n += 1
            prem = v.premise(i, 0)
            vm_atoms = [a for a in norm.atoms_of(prem) if "object_type" in a and "'nets/vms'" in a and "'vms'" in a]
            if not any(norm.implies(prem, norm.neg(("atom", a))) for a in vm_atoms):
                bad = bad or v
    ok = n >= 1 and bad is None
    ctx.record(rule + "g", "SIBLING", fref, "get_root downloads a root from the pool only for object types other than 'vms' / 'nets/vms' (as check_root answers)", ok, {"download_sites": n},
               "" if ok else "get_root downloads the pool copy of a vm's images although check_root treats vm roots as local only: checking a state of a running vm "
               "replaces the disk it is writing to with the pool image")


def routing(ctx: Ctx, rule: str) -> None:
    ops = {"list_paths": "list", "compare": "compare", "download": "download", "upload": "upload", "delete": "delete"}
    for name, stem in ops.items():
        fref = f"{POOL}:TransferOps.{name}"
        fn = ctx.repo.func(fref)
        views = function_views(ctx, fref, None)
        problems = []
        for v in views:
            prem = v.premise(len(v.steps), 0)
            remote = expr_formula(v, len(v.steps), "pool_path.split(':')[0] != ''")
            calls = [(call_name(c), c) for i, c in v.calls(lambda c: (call_name(c) or "").startswith(stem + "_"))]
            conds = [norm.show(v.cond_formula(i)) for i, s in enumerate(v.steps) if s.kind == "cond"]
            if len(calls) != 1:
                problems.append(f"{len(calls)} routed calls on a path")
                continue
            cname, call = calls[0]
            kind = cname[len(stem) + 1:]
            txt = " & ".join(conds)
            # `hosts` is a str: `hosts != ""` and plain truthiness are the same test
            cf = norm.conj([v.cond_formula(i) for i, s in enumerate(v.steps) if s.kind == "cond"])
            has_host = norm.disj([("not", ("atom", "hosts == ''")), ("atom", "hosts")])
            no_host = norm.disj([("atom", "hosts == ''"), ("not", ("atom", "hosts"))])
            is_remote = norm.implies(cf, ("not", ("atom", "hosts == ''"))) or norm.implies(cf, ("atom", "hosts"))
            is_local = norm.implies(cf, ("atom", "hosts == ''")) or norm.implies(cf, ("not", ("atom", "hosts")))
            semi = ("atom", "';' in path")
            if kind == "remote":
                ok = is_remote and ast.unparse(call.args[-2]) == "pool_path"
            elif kind == "link":
                ok = is_local and norm.implies(cf, semi) and ast.unparse(call.args[-2]) == "path.replace(';', '')"
            elif kind == "local":
                ok = is_local and norm.implies(cf, norm.neg(semi)) and ast.unparse(call.args[-2]) == "path"
            else:
                ok = False
            if not ok:
                problems.append(f"{cname} under [{txt}] with pool argument {ast.unparse(call.args[-2])}")
        split = [s for s in fn.node.body if isinstance(s, ast.Assign) and ast.unparse(s.targets[0]) in ("hosts, path", "(hosts, path)")]
        okp = len(split) == 1 and ast.unparse(split[0].value) == "pool_path.split(':')"
        ctx.record(rule, "SIBLING", fref, f"{name}: hosts != '' -> {stem}_remote(pool_path); ';' in path -> {stem}_link(path without ';'); else {stem}_local(path)",
                   not problems and okp and len(views) == 3, {"paths": len(views)},
                   "" if not problems and okp and len(views) == 3 else (problems[0] if problems else "routing shape changed"))


def run(ctx: Ctx) -> None:
    ctx.call(scope_filter, "1")
    ctx.call(local_ops, "2")
    ctx.call(partial_presence, "2u")
    ctx.call(closest_source, "3")
    ctx.call(proximity_order, "4")
    ctx.call(scope_table, "5")
    ctx.call(redownload, "6")
    ctx.call(refuse_without_local, "7")
    ctx.call(root_scope_table, "8")
    ctx.call(vm_root_local, "8v")
    ctx.call(routing, "9")
    ctx.call(chain_siblings, "10")
    ctx.call(fresh_checksums, "11")
    ctx.call(root_transfer_siblings, "12")
    ctx.call(mirror_listing, "13")
    ctx.call(pool_listing_names, "14")


MUTANTS = [
    ("vm-root-from-pool", POOL, "        if \"shared\" not in scopes or is_vm:\n            cls._get_root(params, object)\n            return", "        if \"shared\" not in scopes:\n            cls._get_root(params, object)\n            return", "8vg"),
    ("root-check-contacts-disabled-shared-pool", POOL, "        if \"shared\" not in params.get_list(\"pool_scope\"):\n            return local_root_exists", "        if params[\"pool_scope\"] == \"own\":\n            return local_root_exists", "8"),
    ("mirror-intersection-restarts-on-empty", POOL, "                if pool_states is None\n", "                if not pool_states\n", "13"),
    ("every-entry-is-a-state", POOL, "states = [p[: -len(format)] for p in states if p.endswith(format)]", "states = [p.replace(format, \"\") for p in states]", "14"),
    ("root-removed-elsewhere", POOL, "        dst_image_name = os.path.join(shared_pool, image_base_names)\n        cls.ops.delete(dst_image_name, params)", "        dst_image_name = os.path.join(shared_pool, os.path.basename(target_image))\n        cls.ops.delete(dst_image_name, params)", "12p"),
    ("set-root-downloads", POOL, "        cls.ops.upload(target_image, dst_image_name, params)", "        cls.ops.download(target_image, dst_image_name, params)", "12"),
    ("own-cache-breaks-get", POOL, "            source_scope = cls.get_source_scope(source_path, source_params, params)\n            if source_scope == \"own\" or source_scope not in scopes:\n                continue\n            logging.debug(f\"Choosing {source} as the get source to use\")",
     "            source_scope = cls.get_source_scope(source_path, source_params, params)\n            if source_scope == \"own\":\n                break\n            if source_scope not in scopes:\n                continue\n            logging.debug(f\"Choosing {source} as the get source to use\")", "3"),
    ("refusal-only-for-shared", POOL, "            cls._set(params, object)\n        else:\n            local_state_exists", "            cls._set(params, object)\n        elif params[\"pool_scope\"] == \"shared\":\n            local_state_exists", "7"),
    ("unset-ignores-scopes", POOL, "            if source_scope == \"own\" or source_scope not in scopes:\n                continue\n            logging.debug(f\"Choosing {source} as the unset source to use\")",
     "            if source_scope == \"own\":\n                continue\n            logging.debug(f\"Choosing {source} as the unset source to use\")", "1"),
    ("local-get-always", POOL, "        if \"own\" in scopes:\n            cls._get(params, object)", "        cls._get(params, object)", "2"),
    ("set-first-mirror-only", POOL, "            cls.transport.set(source_params, object)\n", "            cls.transport.set(source_params, object)\n            break\n", "3"),
    ("farthest-first", POOL, "key=proximity, reverse=True)", "key=proximity)", "3s"),
    ("host-outweighs-gateway", POOL, "                score += 1000", "                score += 50", "4"),
    ("own-classified-first", POOL, "        elif own_params[\"shared_pool\"].lstrip(\":\") == source_path:\n            return \"shared\"\n        elif own_params[\"swarm_pool\"] == source_path:\n            return \"own\"",
     "        elif own_params[\"swarm_pool\"] == source_path:\n            return \"own\"\n        elif own_params[\"shared_pool\"].lstrip(\":\") == source_path:\n            return \"shared\"", "5"),
    ("always-redownload", POOL, "                if not cache_valid:\n                    cls.transport.get(source_params, object)", "                cls.transport.get(source_params, object)", "6"),
    ("show-cache-always", POOL, "        if \"own\" in scopes:\n            cache_states = cls._show(params, object)\n        else:\n            cache_states = []", "        cache_states = cls._show(params, object)", "2s"),
    ("root-upload-without-local", POOL, "            if not local_root_exists:\n                raise RuntimeError(\"Updating state pool requires local root states\")\n", "", "7r"),
    ("link-routed-local", POOL, "            cls.upload_link(cache_path, path.replace(\";\", \"\"), params)", "            cls.upload_local(cache_path, path.replace(\";\", \"\"), params)", "9"),
    ("compare-skips-vm-state", POOL, "                if not cls.ops.compare(cache_path, pool_path, params):\n                    logging.warning(\n                        f\"The vm {vm_id} has different", "                if False and not cls.ops.compare(cache_path, pool_path, params):\n                    logging.warning(\n                        f\"The vm {vm_id} has different", "10"),
    ("P-filter-demorgan", POOL, "            if source_scope == \"own\" or source_scope not in scopes:\n                continue\n            logging.debug(f\"Choosing {source} as the set source to use\")",
     "            if not (source_scope != \"own\" and source_scope in scopes):\n                continue\n            logging.debug(f\"Choosing {source} as the set source to use\")", None),
]


def chain_siblings(ctx: Ctx, rule: str) -> None:
    """compare_chain and transfer_chain walk the same files of the same backing chain."""
    import copy

    fc = ctx.repo.func(f"{POOL}:QCOW2ImageTransfer.compare_chain")
    ft = ctx.repo.func(f"{POOL}:QCOW2ImageTransfer.transfer_chain")
    ctx.touch(fc.ref)
    ctx.touch(ft.ref)

    from ..canon import inline_locals

    def skeleton(fn, op_names):
        # single-definition pure locals are substituted first: hoisting `<state> + '.qcow2'` into a local in one of the two is no difference
        w = [x for x in inline_locals(fn.node, keep={"transfer_operation"}).body if isinstance(x, ast.While)]
        if len(w) != 1:
            return None
        w = copy.deepcopy(w[0])
        calls = []

        class Strip(ast.NodeTransformer):
            def visit_If(self, node):
                self.generic_visit(node)
                # compare_chain: `if not compare(...): warn; return False`  ->  the bare call
                if isinstance(node.test, ast.UnaryOp) and isinstance(node.test.operand, ast.Call) and call_name(node.test.operand) in op_names:
                    calls.append(node.test.operand)
                    return ast.Expr(value=ast.Call(func=ast.Name(id="OP", ctx=ast.Load()), args=node.test.operand.args, keywords=[]))
                return node

            def visit_Expr(self, node):
                if isinstance(node.value, ast.Call) and call_name(node.value) in op_names:
                    calls.append(node.value)
                    return ast.Expr(value=ast.Call(func=ast.Name(id="OP", ctx=ast.Load()), args=node.value.args, keywords=[]))
                return node

        w = Strip().visit(w)
        return ast.dump(w), len(calls)

    a = skeleton(fc, {"compare"})
    b = skeleton(ft, {"transfer_operation"})
    ok = a is not None and b is not None and a[0] == b[0] and a[1] == b[1] == 2
    ctx.record(rule, "SIBLING", f"{POOL}:QCOW2ImageTransfer.compare_chain / transfer_chain",
               "same walk: for every state of the backing chain every image's <state>.qcow2, plus <state>.state of a vm for the requested state; next = get_dependency",
               ok, {"operations_per_level": (a[1] if a else None, b[1] if b else None)},
               "" if ok else "compare_chain and transfer_chain no longer visit the same files: a cache can be judged valid on other files than those that get transferred")
    defs = [s for s in ast.walk(ft.node) if isinstance(s, ast.Assign) and ast.unparse(s.targets[0]) == "transfer_operation"]
    ok2 = len(defs) == 1 and ast.unparse(defs[0].value) == "cls.ops.download if down else cls.ops.upload"
    ctx.record(rule + "d", "PROV", ft.ref, "direction: download if down else upload", ok2, {}, "" if ok2 else "the direction switch of transfer_chain changed")
    for op, down in (("get", "True"), ("set", "False")):
        f = ctx.repo.func(f"{POOL}:QCOW2ImageTransfer.{op}")
        cs = [c for c in calls_in(f.node) if call_name(c) == "transfer_chain"]
        ok3 = len(cs) == 1 and [ast.unparse(x) for x in cs[0].args] == ["state", "cache_dir", "pool_dir", "params"] and {k.arg: ast.unparse(k.value) for k in cs[0].keywords} == {"down": down}
        d = {ast.unparse(s.targets[0]): ast.unparse(s.value) for s in f.node.body if isinstance(s, ast.Assign)}
        ok3 = ok3 and d.get("cache_dir") == "params['swarm_pool']" and d.get("pool_dir") == f"params['{op}_location']" and d.get("state") == f"params['{op}_state']"
        ctx.record(rule + "t", "PROV", f.ref, f"transport.{op}: transfer_chain({op}_state, own pool, {op}_location, down={down})", ok3, {}, "" if ok3 else f"transport.{op} transfers something else")
    f = ctx.repo.func(f"{POOL}:QCOW2ImageTransfer.unset")
    dels = [c for c in calls_in(f.node) if call_name(c) == "delete"]
    whiles = [x for x in ast.walk(f.node) if isinstance(x, ast.While)]
    ok4 = len(dels) == 2 and not whiles and "get_dependency" not in ast.unparse(f.node)
    ctx.record(rule + "u", "COUNT", f.ref, "transport.unset deletes the state's own files only (its backing chain is preserved)", ok4, {}, "" if ok4 else "removing a pool state also touches its backing chain (or not all of its own files)")


def root_transfer_siblings(ctx: Ctx, rule: str) -> None:
    """get_root / set_root / unset_root of the image transport address the same pool file and move it in the right direction."""
    paths = {}
    for op, call, nargs in (("get_root", "download", 3), ("set_root", "upload", 3), ("unset_root", "delete", 2)):
        f = ctx.repo.func(f"{POOL}:QCOW2ImageTransfer.{op}")
        ctx.touch(f.ref)
        d = {}
        for s_ in f.node.body:
            if isinstance(s_, ast.Assign) and len(s_.targets) == 1:
                d[ast.unparse(s_.targets[0])] = ast.unparse(s_.value)
        ops = [c for c in calls_in(f.node) if isinstance(c.func, ast.Attribute) and ast.unparse(c.func.value) == "cls.ops"]
        ok = len(ops) == 1 and call_name(ops[0]) == call and len(ops[0].args) == nargs
        pool_arg = None
        if ok:
            args = [ast.unparse(a) for a in ops[0].args]
            pool_arg = args[-2]
            ok = args[-1] == "params" and (nargs == 2 or args[0] == "target_image") and d.get("target_image") == "cls.get_image_path(params)"

            def expand(name, depth=0):
                v = d.get(name)
                if v is None or depth > 3:
                    return name
                out = v
                for k in sorted(d, key=len, reverse=True):
                    if k != name and re.search(rf"\b{re.escape(k)}\b", out):
                        out = re.sub(rf"\b{re.escape(k)}\b", "(" + expand(k, depth + 1) + ")", out)
                return out
            paths[op] = expand(pool_arg)
        ctx.record(rule, "SIBLING", f.ref, f"{op}: exactly one pool operation, cls.ops.{call}(" + ("the image path, " if nargs == 3 else "") + "the pool path, params)", ok,
                   {"call": ast.unparse(ops[0])[:120] if ops else None}, "" if ok else f"{op} of the image transport no longer performs one {call} of the image")
    same = len(paths) == 3 and len(set(paths.values())) == 1
    ctx.record(rule + "p", "SIBLING", f"{POOL}:QCOW2ImageTransfer.get_root / set_root / unset_root", "all three address the same pool file: ':' + shared_pool / <vm> / basename(image path)", same,
               {"pool_paths": paths}, "" if same else f"the root state is fetched, stored and removed under different pool paths: {paths}")


def mirror_listing(ctx: Ctx, rule: str) -> None:
    """Listing through several mirrors: a state counts as available in the pools only if every permitted mirror has it.

    The running intersection must start from a 'not started' sentinel that an empty intermediate result cannot be mistaken
    for; with an emptiness test the next mirror re-initialises it, the answer depends on the order of the mirrors and a state
    missing from the closest source (the only one get() uses) is reported present."""
    fref = f"{SSB}.show"
    fn = ctx.repo.func(fref)
    ctx.touch(fref)
    loop = the_loop(ctx, fref, ast.For, lambda l: ast.unparse(l.iter) == "sources", "loop over the show sources")
    stores = [s_ for s_ in ast.walk(loop) if isinstance(s_, ast.Assign) and ast.unparse(s_.targets[0]) == "pool_states"]
    init = [s_ for s_ in fn.node.body if isinstance(s_, ast.Assign) and ast.unparse(s_.targets[0]) == "pool_states"]
    ok, why, test = False, "the combination of the mirrors' listings changed shape", None
    if len(stores) == 1 and len(init) == 1:
        v = stores[0].value
        if isinstance(v, ast.IfExp):
            test, first, rest = v.test, v.body, v.orelse
        else:
            par = [i for i in ast.walk(loop) if isinstance(i, ast.If) and stores[0] in i.body]
            test, first, rest = (par[0].test, v, None) if par else (None, None, None)
        if test is not None:
            f = norm.formula(test)
            started = norm.formula(ast.parse("pool_states is None", mode="eval").body)
            flipped = False
            if norm.equivalent(f, norm.neg(started)):
                first, rest, flipped = rest, first, True
            sentinel_ok = norm.equivalent(f, started) or flipped
            init_none = isinstance(init[0].value, ast.Constant) and init[0].value.value is None
            comb_ok = rest is None or (isinstance(rest, ast.Call) and isinstance(rest.func, ast.Attribute) and rest.func.attr == "intersection" and ast.unparse(rest.func.value) == "pool_states") \
                or (isinstance(rest, ast.BinOp) and isinstance(rest.op, ast.BitAnd))
            ok = sentinel_ok and init_none and comb_ok
            if not sentinel_ok:
                why = f"the 'first mirror' test is `{ast.unparse(test)}`: an empty intersection is taken for 'not started' and the next mirror's listing is adopted wholesale (order dependent, states missing from the closest source are reported)"
            elif not init_none:
                why = "the running intersection does not start as None"
            elif not comb_ok:
                why = "mirrors are combined with something other than an intersection"
    ctx.record(rule, "TABLE", fref, "pool_states = first permitted mirror's states under an `is None` sentinel, afterwards the intersection with each further mirror", ok,
               {"test": ast.unparse(test) if test is not None else None}, "" if ok else why)


def pool_listing_names(ctx: Ctx, rule: str) -> None:
    """A pool directory also holds lock files and per-image directories: only entries carrying the state suffix are states."""
    fref = f"{POOL}:QCOW2ImageTransfer.show"
    fn = ctx.repo.func(fref)
    ctx.touch(fref)
    comps = [s_.value for s_ in ast.walk(fn.node) if isinstance(s_, (ast.Assign, ast.Return)) and isinstance(s_.value, ast.ListComp)]
    ok, detail = False, None
    if len(comps) == 1 and len(comps[0].generators) == 1:
        g = comps[0].generators[0]
        v = ast.unparse(g.target)
        detail = ast.unparse(comps[0])
        # the suffix is whatever local holds it (its name does not matter): endswith(X) and the cut by len(X) use the same X,
        # and X is bound to the two state suffixes
        sfx = None
        for t in g.ifs:
            if isinstance(t, ast.Call) and isinstance(t.func, ast.Attribute) and t.func.attr == "endswith" and ast.unparse(t.func.value) == v and len(t.args) == 1 and isinstance(t.args[0], ast.Name):
                sfx = t.args[0].id
        filt = sfx is not None
        elt = ast.unparse(comps[0].elt)
        strip = filt and elt in (f"{v}[:-len({sfx})]", f"{v}.removesuffix({sfx})", f"{v}[:len({v}) - len({sfx})]")
        vals = sorted(ast.unparse(s_.value) for s_ in ast.walk(fn.node) if isinstance(s_, ast.Assign) and sfx and ast.unparse(s_.targets[0]) == sfx)
        strip = strip and vals == ["'.qcow2'", "'.state'"]
        ok = filt and strip and len(g.ifs) == 1
    ctx.record(rule, "TABLE", fref, "pool listing: exactly the entries ending in the state suffix (.qcow2 / .state), with that suffix cut off the end", ok, {"listing": detail},
               "" if ok else f"every directory entry is reported as a state ({detail}): lock files ('<state>.qcow2.lock' -> '<state>.lock') and per-image directories appear as states, also after the state was removed")


def fresh_checksums(ctx: Ctx, rule: str) -> None:
    """Cache validity is decided on checksums computed from the files at comparison time (no memoisation)."""
    for name in ("compare_local", "compare_remote"):
        f = ctx.repo.func(f"{POOL}:TransferOps.{name}")
        ctx.touch(f.ref)
        defs = {}
        for s_ in ast.walk(f.node):
            if isinstance(s_, ast.Assign) and len(s_.targets) == 1:
                defs.setdefault(ast.unparse(s_.targets[0]), []).append(ast.unparse(s_.value))
        def fresh(var, path_args):
            # every definition is the missing-file marker '' or a hash_file call over the named file (block size / algorithm free);
            # `x = hash if exists else ''` and the if/else statement pair are the same thing
            vals = []
            for s_ in ast.walk(f.node):
                if isinstance(s_, ast.Assign) and len(s_.targets) == 1 and ast.unparse(s_.targets[0]) == var:
                    vals += [s_.value.body, s_.value.orelse] if isinstance(s_.value, ast.IfExp) else [s_.value]
            hashed = [v for v in vals if isinstance(v, ast.Call) and call_name(v) == "hash_file" and [ast.unparse(a) for a in v.args[:len(path_args)]] == path_args]
            empty = [v for v in vals if isinstance(v, ast.Constant) and v.value == ""]
            return len(hashed) == 1 and len(hashed) + len(empty) == len(vals)
        ok = fresh("local_hash", ["cache_path"])
        if name == "compare_local":
            ok = ok and fresh("remote_hash", ["pool_path"])
        else:
            ok = ok and fresh("remote_hash", ["session", "path"])
        rets = [r for r in ast.walk(f.node) if isinstance(r, ast.Return)]
        ok = ok and len(rets) == 1 and ast.unparse(rets[0].value) == "local_hash == remote_hash"
        ctx.record(rule, "PROV", f.ref, f"{name}: both checksums are computed from the files when asked (missing file = ''), result = equality", ok, defs,
                   "" if ok else f"{name} no longer compares freshly computed checksums (a cached or otherwise derived checksum can be stale)")
    c = ctx.repo.cls(f"{POOL}:TransferOps")
    state = [ast.unparse(s_.targets[0]) for s_ in c.node.body if isinstance(s_, ast.Assign)]
    ctx.record(rule + "s", "OWNER", f"{POOL}:TransferOps", "TransferOps keeps no state besides the session cache", state == ["_session_cache"], {"class_attributes": state},
               "" if state == ["_session_cache"] else f"TransferOps has additional class-level state {state}: results of file operations may be remembered across changes of the files")
