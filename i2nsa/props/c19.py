"""C19 — tunnel end point parameters mirror each other."""

from __future__ import annotations

import ast
import copy
import itertools
import re

from .. import norm
from ..ctx import Ctx
from ..facts import PathView
from ..kinds import TableSpec, bool_return_outcome, function_views, names_interesting, table_rule
from ..paths import PathEnum, first_line
from ..repo import AnalysisError, call_name, calls_in
from . import nodetables as N

TUN = "vmnet/tunnel.py"
INIT = f"{TUN}:VMTunnel.__init__"
B = N.B

EXPLANATION = (
    "The values are opaque, the mirror is structural: on every path through the tunnel constructor the parameters "
    "written for the two end points are collected (key stem, side, value expression resolved through the local "
    "definitions) and compared pairwise: local net of one side == remote net of the other, peer addresses come from the "
    "other node's interfaces, PSK identities and their types are swapped, the right-hand types are those of the derived "
    "peer variant. The peer-variant derivation is extracted as a table over local x remote x peer types, every type "
    "dispatch ends in a ValueError, connects_nodes is checked for symmetry by truth table and its two helpers for "
    "agreement under left<->right."
)
DECIDED = [
    "C19.1 local network of each side == remote network of the other (net and netmask), on every constructor path",
    "C19.2 peer addresses point at each other (interfaces of the other node), sides left/right, connection name on both",
    "C19.3 PSK identities and identity types are swapped between the sides",
    "C19.4 derived right-hand variant table (_get_peer_variant) over 3 x 3 x 2 type combinations; types written from it",
    "C19.5 unsupported local/remote/peer/auth types raise ValueError",
    "C19.6 connects_nodes is symmetric in its arguments; on_the_left / on_the_right agree under left<->right",
    "C19.7 configure_on_endpoint uses the mirrored tuple for the right node and raises for a foreign node",
    "C19.8w the only tunnel parameters pre-set outside the constructor are the mirrored remote-net overrides of a forwarding hop",
    "C19.1n each end's own network is looked up on its own node through the nic role of the configuration describing that end",
]
NOT_DECIDED = ["(nothing of the statement depends on runtime quantities beyond the opaque values; the mirror is structural)"]
MIN_INSTANCES = 10

KEY_RX = re.compile(r"^'(?P<stem>[a-z_]+?)_%s(?:_%s)?' % (?P<args>.+)$")


def key_parts(slice_node: ast.AST):
    """('stem', [argument texts]) of a parameter key built as '<stem>_%s[_%s]' % (...) or as the equivalent f-string; None otherwise."""
    if isinstance(slice_node, ast.JoinedStr) and slice_node.values and isinstance(slice_node.values[0], ast.Constant):
        stem = slice_node.values[0].value
        args = []
        for v in slice_node.values[1:]:
            if isinstance(v, ast.FormattedValue):
                args.append(ast.unparse(v.value))
            elif isinstance(v, ast.Constant) and v.value == "_":
                continue
            else:
                return None
        if stem.endswith("_") and args:
            return stem[:-1], args
        return None
    if isinstance(slice_node, ast.Constant) and isinstance(slice_node.value, str):
        return slice_node.value, []
    txt = ast.unparse(slice_node)
    m = KEY_RX.match(txt)
    if m:
        a = m.group("args").strip()
        return m.group("stem"), [x.strip() for x in a.strip("()").split(",")]
    return None


def _store_key(target: ast.Subscript, n1: str, n2: str):
    if ast.unparse(target.value) != "params":
        return None
    kp = key_parts(target.slice)
    if kp is None or not kp[1]:
        return None
    stem, args = kp
    if args == ["name"]:
        return (stem, 0)
    if args == ["name", f"{n1}.name"]:
        return (stem, 1)
    if args == ["name", f"{n2}.name"]:
        return (stem, 2)
    return (stem, -1)


def _collect(view: PathView, n1: str, n2: str) -> dict:
    """Final parameter stores of a path: (stem, side) -> value text, resolved through locals and attribute stores."""
    attrs: dict[str, str] = {}
    out: dict = {}

    class Res(ast.NodeTransformer):
        def visit_Attribute(self, node):
            key = ast.unparse(node)
            if key in attrs and isinstance(node.ctx, ast.Load):
                return ast.parse(attrs[key], mode="eval").body
            self.generic_visit(node)
            return node

    for i, s in view.stmts(lambda s: isinstance(s, ast.Assign) and len(s.targets) == 1):
        t = s.targets[0]
        val = Res().visit(copy.deepcopy(s.value))
        val = view.canon(val, i)
        vtxt = ast.unparse(val)
        if isinstance(t, ast.Attribute) and isinstance(t.value, ast.Name):
            attrs[ast.unparse(t)] = vtxt
        elif isinstance(t, ast.Subscript):
            k = _store_key(t, n1, n2)
            if k is not None:
                out[k] = vtxt
    return out


def constructor_mirror(ctx: Ctx, rule1: str, rule2: str, rule3: str, rule4: str) -> None:
    fn = ctx.repo.func(INIT)
    ctx.require_locals(INIT, ["params", "name"])
    p = fn.params()
    n1, n2 = p[2], p[3]
    # the three `if <cfg> is None: <cfg> = {defaults}` are special cases of an explicit configuration: analysed without them
    defaults = [st for st in fn.node.body if isinstance(st, ast.If) and ast.unparse(st.test) in (f"{p[4]} is None", f"{p[5]} is None", f"{p[6]} is None")]
    ok_def = len(defaults) == 3 and all(len(d.body) == 1 and isinstance(d.body[0], ast.Assign) and isinstance(d.body[0].value, ast.Dict) and not d.orelse for d in defaults)
    ctx.record(rule4 + "d", "CONST", INIT, "missing left configurations are replaced by literal defaults before anything is derived from them", ok_def, {},
               "" if ok_def else "the handling of omitted left configurations changed")
    body = [st for st in fn.node.body if not any(st is d for d in defaults)]
    ctx.touch(INIT)
    paths = PathEnum(None, max_paths=5000).block(body)
    ctx.paths_enumerated += len(paths)
    views = [v for v in (PathView(pth) for pth in paths) if v.feasible()]
    normal = [v for v in views if v.path.exit != "raise"]
    variant = [st for st in fn.node.body if isinstance(st, ast.Assign) and isinstance(st.value, ast.Call) and call_name(st.value) == "_get_peer_variant"
               and isinstance(st.targets[0], ast.Tuple) and len(st.targets[0].elts) == 3]
    derived = [ast.unparse(e) for e in variant[0].targets[0].elts] if len(variant) == 1 else [None, None, None]
    if len(normal) < 20:
        raise AnalysisError(f"{INIT}: only {len(normal)} normal paths")
    probs = {rule1: [], rule1 + "n": [], rule2: [], rule3: [], rule4: []}
    n_pairs = 0
    n_lookups = [0]
    for v in normal:
        d = _collect(v, n1, n2)
        if any(side == -1 for _, side in d):
            probs[rule2].append(("a parameter is written for something other than the two end points", v, d))
        for a, b in (("vpnconn_lan_net", "vpnconn_remote_net"), ("vpnconn_lan_netmask", "vpnconn_remote_netmask")):
            for s_loc, s_rem in ((1, 2), (2, 1)):
                loc, rem = d.get((a, s_loc)), d.get((b, s_rem))
                if loc is None and rem is None:
                    continue
                n_pairs += 1
                side = {1: "left", 2: "right"}
                if loc is None or rem is None:
                    probs[rule1].append((f"{a} of the {side[s_loc]} side and {b} of the {side[s_rem]} side are not written together "
                                         f"({a}[{side[s_loc]}]={loc}, {b}[{side[s_rem]}]={rem})", v, d))
                elif loc != rem:
                    probs[rule1].append((f"{a} of the {side[s_loc]} side ({loc}) differs from {b} of the {side[s_rem]} side ({rem})", v, d))
        # an end point's own network is looked up on its own node through the configuration that describes that end: the left one by the
        # left local configuration, the right one by the left remote configuration (what _get_peer_variant turns into the right local one)
        for side, node_, cfg, other in ((1, n1, p[4], p[5]), (2, n2, p[5], p[4])):
            for stem in ("vpnconn_lan_net", "vpnconn_lan_netmask"):
                val = d.get((stem, side))
                if val is None or ".interfaces[" not in val:
                    continue
                n_lookups[0] += 1
                for sub in ast.walk(ast.parse(val, mode="eval")):
                    if isinstance(sub, ast.Subscript) and isinstance(sub.value, ast.Attribute) and sub.value.attr == "interfaces":
                        owner = ast.unparse(sub.value.value)
                        names = {x.id for x in ast.walk(sub.slice) if isinstance(x, ast.Name)}
                        side_txt = {1: "left", 2: "right"}[side]
                        if owner != node_:
                            probs[rule1 + "n"].append((f"{stem} of the {side_txt} side is looked up on {owner}, not on the {side_txt} node", v, d))
                        elif other in names and cfg not in names:
                            probs[rule1 + "n"].append((f"{stem} of the {side_txt} side is looked up through the nic role of `{other}` "
                                                       f"(the configuration of the other end) instead of `{cfg}`: {val}", v, d))
        # peers
        want_sides = {("vpn_side", 1): "'left'", ("vpn_side", 2): "'right'", ("vpnconn", 1): "name", ("vpnconn", 2): "name"}
        for k, val in want_sides.items():
            if d.get(k) != val:
                probs[rule2].append((f"{k[0]} of side {k[1]} is {d.get(k)}, expected {val}", v, d))
        pip2 = d.get(("vpnconn_peer_ip", 2))
        if not (pip2 and pip2.startswith(f"{n1}.interfaces[") and pip2.endswith(".ip")):
            probs[rule2].append((f"the right side's peer address is not an interface address of the left node: {pip2}", v, d))
        pip1 = d.get(("vpnconn_peer_ip", 1))
        conds = norm.conj([v.cond_formula(i) for i, s in enumerate(v.steps) if s.kind == "cond"])
        is_ip = norm.implies(conds, norm.formula(ast.parse(f"{p[6]}['type'] == 'ip'", mode="eval").body))
        if is_ip:
            if not (pip1 and pip1.startswith(f"{n2}.interfaces[") and pip1.endswith(".ip")):
                probs[rule2].append((f"the left side's peer address is not an interface address of the right node: {pip1}", v, d))
            if d.get(("vpnconn_activation", 1)) != "'ALWAYS'":
                probs[rule2].append(("peer type ip without ALWAYS activation on the left", v, d))
        else:
            if pip1 is not None or d.get(("vpnconn_activation", 1)) != "'PASSIVE'":
                probs[rule2].append(("a road warrior peer (dynip) must have no fixed peer address and PASSIVE activation on the left", v, d))
        if d.get(("vpnconn_activation", 2)) != "'ALWAYS'":
            probs[rule2].append(("the right side is not activated ALWAYS", v, d))
        # psk
        if ("vpnconn_psk", 0) in d:
            for a, b in (("vpnconn_psk_foreign_id", "vpnconn_psk_own_id"), ("vpnconn_psk_foreign_id_type", "vpnconn_psk_own_id_type")):
                for s1, s2 in ((1, 2), (2, 1)):
                    x, y = d.get((a, s1)), d.get((b, s2))
                    if x is None or y is None or x != y:
                        probs[rule3].append((f"{a} of side {s1} ({x}) is not {b} of side {s2} ({y})", v, d))
            if d.get(("vpnconn_psk_own_id", 1)) != f"{p[7]}['left_id']" or d.get(("vpnconn_psk_own_id", 2)) != f"{p[7]}['right_id']":
                probs[rule3].append(("own identities are not the left/right ids of the authentication settings", v, d))
            # 'IP' if the id is empty else 'CUSTOM' (the conditional expression is a branch of the path)
            conds_ = norm.conj([v.cond_formula(i) for i, st_ in enumerate(v.steps) if st_.kind == "cond"])
            empty_id = v.formula_of(ast.parse(f"{p[7]}['left_id'] == ''", mode="eval").body, len(v.steps))
            got_t = d.get(("vpnconn_psk_own_id_type", 1))
            want_t = "'IP'" if norm.implies(conds_, empty_id) else ("'CUSTOM'" if norm.implies(conds_, norm.neg(empty_id)) else f"'IP' if {p[7]}['left_id'] == '' else 'CUSTOM'")
            if got_t != want_t:
                probs[rule3].append((f"identity type of the left id is {got_t}", v, d))
        # types written from the derived variant
        for stem, src1, idx in (("vpnconn_lan_type", p[4], 0), ("vpnconn_remote_type", p[5], 1), ("vpnconn_peer_type", p[6], 2)):
            w1 = d.get((stem, 1))
            w2 = d.get((stem, 2))
            if w1 != f"{src1}['type'].upper()":
                probs[rule4].append((f"{stem} of the left side is {w1}", v, d))
            if w2 != f"{derived[idx]}['type'].upper()":
                probs[rule4].append((f"{stem} of the right side is not taken from the derived peer variant: {w2}", v, d))

    def rec(rule, text):
        pr = probs[rule]
        ctx.record(rule, "PAIR", INIT, text, not pr, {"paths": len(normal), **({"path_conditions": [s.describe() for s in pr[0][1].steps if s.kind == "cond"],
                                                                             "stores": {f"{k[0]}[{k[1]}]": val for k, val in pr[0][2].items()}} if pr else {})},
                   "" if not pr else pr[0][0])

    rec(rule1, "on every path: lan_net/netmask[left] == remote_net/netmask[right] and lan_net/netmask[right] == remote_net/netmask[left] (written together)")
    rec(rule1 + "n", "each end's own network is read from its own node's interface, selected by the nic role of the configuration describing that end "
                     "(left: local1, right: remote1)")
    if n_lookups[0] == 0:
        raise AnalysisError("no interface lookups of the end points' own networks found")
    rec(rule2, "peer_ip[right] from the left node's interfaces, peer_ip[left] from the right node's (only for peer type ip); vpn_side left/right; name on both")
    rec(rule3, "PSK: foreign_id[left] == own_id[right], own_id[left] == foreign_id[right], same for the id types")
    rec(rule4, "type parameters: left from the given configuration, right from the derived peer variant")
    if n_pairs == 0:
        raise AnalysisError("no network mirror pairs found")
    # the derived variant is a single call with the three left dictionaries (defaults filled in first)
    calls = [c for c in calls_in(fn.node) if call_name(c) == "_get_peer_variant"]
    ok = len(calls) == 1 and [ast.unparse(a) for a in calls[0].args] == [p[4], p[5], p[6]]
    ctx.record(rule4 + "c", "PROV", INIT, "local2, remote2, peer2 = self._get_peer_variant(local1, remote1, peer1)", ok, {},
               "" if ok else "the right-hand configuration is no longer derived from the left-hand one")


def peer_variant_table(ctx: Ctx, rule: str) -> None:
    fref = f"{TUN}:VMTunnel._get_peer_variant"
    fn = ctx.repo.func(fref)
    p = fn.params()
    ll, lr, lp = p[1], p[2], p[3]
    views = function_views(ctx, fref, None)

    def m_enum(var, src):
        rx_ = re.compile(r"^%s\['type'\] == '(\w+)'$" % re.escape(src))

        def m(t):
            mm = rx_.match(t)
            if mm:
                val = mm.group(1)
                return lambda v, val=val: v[var] == val
            return None
        return m

    spec = TableSpec({"L": ["nic", "internetip", "custom"], "R": ["custom", "externalip", "modeconfig"], "P": ["ip", "dynip"]},
                     [m_enum("L", ll), m_enum("R", lr), m_enum("P", lp)],
                     lambda v: (
                         ("type", "custom" if v["R"] == "custom" and v["L"] == "custom" else ("internetip" if v["R"] == "externalip" else "nic"),
                          "nic", f"nic-of:{lr}" if v["R"] == "custom" and v["L"] != "custom" else None),
                         ("type", "externalip" if v["L"] == "internetip" else "custom", "nic", f"nic-of:{ll}" if v["L"] == "nic" else None),
                         ("type", "ip", "nic", f"nic-of:{lp}"),
                     ))

    def outcome(view, val, free):
        if view.path.exit != "return":
            return view.path.exit
        names = [ast.unparse(e) for e in view.path.exit_node.value.elts] if isinstance(view.path.exit_node.value, ast.Tuple) else []
        state = {}
        for i, s in view.stmts(lambda s: isinstance(s, ast.Assign) and len(s.targets) == 1):
            t = s.targets[0]
            if isinstance(t, ast.Name) and isinstance(s.value, ast.Dict):
                state[t.id] = {k.value: (v_.value if isinstance(v_, ast.Constant) else ast.unparse(v_)) for k, v_ in zip(s.value.keys, s.value.values)}
            elif isinstance(t, ast.Subscript) and isinstance(t.value, ast.Name) and isinstance(t.slice, ast.Constant) and t.value.id in state:
                state[t.value.id][t.slice.value] = s.value.value if isinstance(s.value, ast.Constant) else ast.unparse(s.value)
        def nic_of(text):
            # X['nic'] and X.get('nic', <default>) both mean "the nic of X" (the default is checked by rule 8n)
            if text is None:
                return None
            mm = re.match(r"^(\w+)\['nic'\]$", text) or re.match(r"^(\w+)\.get\('nic', '\w+'\)$", text)
            return f"nic-of:{mm.group(1)}" if mm else text

        return tuple(("type", state.get(n, {}).get("type"), "nic", nic_of(state.get(n, {}).get("nic"))) for n in names)

    table_rule(ctx, rule, fref, views, spec, outcome,
               construct="right local/remote/peer from left: remote custom -> local nic (custom if left local custom), externalip -> internetip, else nic; "
               "local nic -> remote custom(+nic), internetip -> externalip, else custom; peer -> ip(+nic)")


def unsupported_raise(ctx: Ctx, rule: str) -> None:
    fn = ctx.repo.func(INIT)
    p = fn.params()
    chains = {}
    for s in fn.node.body:
        if isinstance(s, ast.If):
            t = ast.unparse(s.test)
            for name in (p[4], p[5], p[6], p[7]):
                if t.startswith(f"{name}['type'] ==") or t.startswith(f"{name} is None"):
                    cur = s
                    accepted = []
                    while isinstance(cur, ast.If):
                        accepted.append(ast.unparse(cur.test))
                        last = cur
                        cur = cur.orelse[0] if len(cur.orelse) == 1 and isinstance(cur.orelse[0], ast.If) else None
                    tail = last.orelse
                    ok = len(tail) == 1 and isinstance(tail[0], ast.Raise) and PathEnum._raised_name(tail[0]) == "ValueError"
                    if name not in chains or len(accepted) > len(chains[name][1]):
                        chains[name] = (ok, accepted)
    import re as _re

    want = {p[4]: {"nic", "internetip", "custom"}, p[5]: {"custom", "externalip", "modeconfig"}, p[6]: {"ip", "dynip"}, p[7]: {"pubkey", "psk", "none"}}
    for name, names in want.items():
        got = chains.get(name)
        accepted, documented, none_ok = set(), set(), False
        if got is not None:
            for t in got[1]:
                tn = ast.parse(t, mode="eval").body
                for c in ast.walk(tn):
                    if isinstance(c, ast.Compare) and len(c.ops) == 1 and isinstance(c.ops[0], ast.Eq) and ast.unparse(c.left) == f"{name}['type']" and isinstance(c.comparators[0], ast.Constant):
                        accepted.add(c.comparators[0].value)
                    if isinstance(c, ast.Compare) and isinstance(c.ops[0], ast.Is) and ast.unparse(c.left) == name:
                        none_ok = True
            # the types the error message of the rejecting raise promises
            cur = next((s_ for s_ in fn.node.body if isinstance(s_, ast.If) and ast.unparse(s_.test) == got[1][0]), None)
            while cur is not None and len(cur.orelse) == 1 and isinstance(cur.orelse[0], ast.If):
                cur = cur.orelse[0]
            if cur is not None and cur.orelse and isinstance(cur.orelse[0], ast.Raise):
                msg = "".join(c.value for c in ast.walk(cur.orelse[0]) if isinstance(c, ast.Constant) and isinstance(c.value, str))
                documented = set(_re.findall(r"'(\w+)'", msg.split("one of")[-1])) if "one of" in msg else set()
        ok = got is not None and got[0] and accepted == names and (not documented or documented == accepted) and (none_ok == (name == p[7]))
        ctx.record(rule, "TABLE", INIT, f"{name}: accepted {sorted(names)}" + (" or no auth at all" if name == p[7] else "") + ", anything else -> ValueError; the error message names exactly the accepted types", ok,
                   {"accepted": sorted(accepted), "documented_in_message": sorted(documented)},
                   "" if ok else f"the accepted {name} types {sorted(accepted)} differ from the supported/documented ones {sorted(documented or names)} (an unsupported type is no longer rejected, or a documented one is refused)")


def symmetry(ctx: Ctx, rule: str) -> None:
    fref = f"{TUN}:VMTunnel.connects_nodes"
    fn = ctx.repo.func(fref)
    a, b = fn.params()[1], fn.params()[2]
    views = function_views(ctx, fref, None)
    spec = TableSpec({"L1": B, "R2": B, "R1": B, "L2": B},
                     [N.M("L1", f"on_the_left({a})"), N.M("R2", f"on_the_right({b})"), N.M("R1", f"on_the_right({a})"), N.M("L2", f"on_the_left({b})")],
                     lambda v: None)
    table = {}
    unknown = None
    for val in spec.valuations():
        outs = set()
        for v in views:
            conds = [v.cond_formula(i) for i, s in enumerate(v.steps) if s.kind == "cond"]
            from ..kinds import eval_with_spec, unknown_atoms
            fs = list(conds)
            if v.path.exit == "return" and v.path.exit_node.value is not None:
                fs.append(v.formula_of(v.path.exit_node.value, len(v.steps)))
            for f in fs:
                ua = unknown_atoms(f, spec)
                if ua:
                    unknown = ua[0]
            if unknown:
                break
            if all(eval_with_spec(c, spec, val, {}) for c in conds):
                outs.add(bool_return_outcome(v, val, {}, spec))
        table[tuple(val[k] for k in ("L1", "R2", "R1", "L2"))] = outs
    ok = unknown is None and all(len(o) == 1 for o in table.values())
    asym = None
    if ok:
        for (l1, r2, r1, l2), o in table.items():
            sw = table[(l2, r1, r2, l1)]
            if o != sw:
                asym = {"L(n1)": l1, "R(n2)": r2, "R(n1)": r1, "L(n2)": l2, "result": sorted(map(str, o)), "swapped_result": sorted(map(str, sw))}
                break
        want = all(o == {(l1 and r2) or (r1 and l2)} for (l1, r2, r1, l2), o in table.items())
    ctx.record(rule, "TABLE", fref, "connects_nodes(n1, n2) == connects_nodes(n2, n1) for all 16 valuations of left/right membership; value = (L1 and R2) or (R1 and L2)",
               ok and asym is None and want, {"asymmetric_case": asym, "unknown_atom": unknown},
               "" if ok and asym is None and want else (f"connects_nodes depends on the argument order: {asym}" if asym else
                                                        f"the connection test changed (unknown condition {unknown})" if unknown else "the connection formula changed"))
    fl = ctx.repo.func(f"{fref}.<locals>.on_the_left")
    fr = ctx.repo.func(f"{fref}.<locals>.on_the_right")

    class Ren(ast.NodeTransformer):
        def visit_Attribute(self, node):
            self.generic_visit(node)
            node.attr = node.attr.replace("right", "left")
            return node

        def visit_Constant(self, node):
            if isinstance(node.value, str):
                node.value = node.value.replace("right", "left")
            return node

    x = copy.deepcopy(fl.node)
    y = Ren().visit(copy.deepcopy(fr.node))
    x.name = y.name = "f"
    same = ast.dump(x) == ast.dump(y)
    ctx.record(rule + "s", "SIBLING", fref, "on_the_left and on_the_right are identical under left<->right", same, {},
               "" if same else "the left and right membership tests of a tunnel are no longer mirror images")


def endpoint_tuple(ctx: Ctx, rule: str) -> None:
    fref = f"{TUN}:VMTunnel.configure_on_endpoint"
    fn = ctx.repo.func(fref)
    ctx.touch(fref)
    chain = next((s for s in fn.node.body if isinstance(s, ast.If) and ast.unparse(s.test) == f"{fn.params()[1]} == self.left"), None)
    ok = chain is not None and len(chain.orelse) == 1 and isinstance(chain.orelse[0], ast.If) and ast.unparse(chain.orelse[0].test) == f"{fn.params()[1]} == self.right"
    if ok:
        left = [ast.unparse(s) for s in chain.body]
        right = [ast.unparse(s) for s in chain.orelse[0].body]
        swap = [s.replace("left", "\0").replace("right", "left").replace("\0", "right") for s in left]
        tail = chain.orelse[0].orelse
        ok = swap == right and len(left) == 4 and len(tail) == 1 and isinstance(tail[0], ast.Raise) and PathEnum._raised_name(tail[0]) == "ValueError"
        ok = ok and left == ["params1 = self.left_params", "params2 = self.right_params",
                             "interface1, interface2 = (self.left_iface, self.right_iface)", "netconfig1, netconfig2 = (self.left_net, self.right_net)"]
    ctx.record(rule, "SIBLING", fref, "the right end point is configured with the mirrored (params, interfaces, netconfigs) tuple; a foreign node raises ValueError", ok, {},
               "" if ok else "configure_on_endpoint no longer mirrors the end point tuple consistently")


def constructor_table(ctx: Ctx, rule: str) -> None:
    """Which parameters the constructor writes for which declared type: the branch taken is the branch of the declared type."""
    from ..kinds import TableSpec, table_rule

    fn = ctx.repo.func(INIT)
    p = fn.params()
    n1, n2 = p[2], p[3]
    L, R, P, A = p[4], p[5], p[6], p[7]
    defaults = [st for st in fn.node.body if isinstance(st, ast.If) and ast.unparse(st.test) in (f"{L} is None", f"{R} is None", f"{P} is None")]
    body = [st for st in fn.node.body if not any(st is d for d in defaults)]
    paths = PathEnum(None, max_paths=5000).block(body)
    views = [v for v in (PathView(pth) for pth in paths) if v.feasible()]
    for v_ in views:
        v_.depth = 0

    def enum(var, src, values):
        rx_ = re.compile(r"^%s\['type'\] == '(\w+)'$" % re.escape(src))

        def m(t):
            mm = rx_.match(t)
            if mm:
                val = mm.group(1)
                return lambda v, val=val: v[var] == val
            return None
        return m

    def m_none(t):
        return (lambda v: v["A"] == "absent") if t == f"{A} is None" else None

    spec = TableSpec({"L": ["nic", "internetip", "custom", "other"], "R": ["custom", "externalip", "modeconfig", "other"], "P": ["ip", "dynip", "other"],
                      "A": ["absent", "none", "pubkey", "psk", "other"]},
                     [enum("L", L, None), enum("R", R, None), enum("P", P, None), enum("A", A, None), m_none], None)

    TYPED = ("lan_net", "lan_netmask", "remote_net", "remote_netmask", "remote_modeconfig_ip", "peer_ip", "activation", "key_type", "psk")

    def reference(v):
        if v["L"] == "other" or v["R"] == "other" or v["P"] == "other" or v["A"] == "other":
            return "raise:ValueError"
        out = set()
        if v["L"] in ("nic", "custom"):
            out |= {("lan_net", 1), ("lan_netmask", 1), ("remote_net", 2), ("remote_netmask", 2)}
        if v["R"] == "custom":
            out |= {("lan_net", 2), ("lan_netmask", 2), ("remote_net", 1), ("remote_netmask", 1)}
        if v["R"] == "modeconfig":
            out.add(("remote_modeconfig_ip", 1))
        out |= {("peer_ip", 2), ("activation", 2, "'ALWAYS'")}
        if v["P"] == "ip":
            out |= {("peer_ip", 1), ("activation", 1, "'ALWAYS'")}
        else:
            out.add(("activation", 1, "'PASSIVE'"))
        out.add(("key_type", 0, {"absent": "'NONE'", "none": "'NONE'", "pubkey": "'PUBLIC'", "psk": "'PSK'"}[v["A"]]))
        if v["A"] == "psk":
            out.add(("psk", 0))
        return frozenset(out)

    spec.reference = reference

    def outcome(view, val, free):
        if view.path.exit == "raise":
            return "raise:" + (PathEnum._raised_name(view.path.exit_node) or "?")
        out = set()
        for i, st in view.stmts(lambda s_: isinstance(s_, ast.Assign) and len(s_.targets) == 1 and isinstance(s_.targets[0], ast.Subscript)):
            k = _store_key(st.targets[0], n1, n2)
            if k is None or k[0].replace("vpnconn_", "") not in TYPED:
                continue
            stem = k[0].replace("vpnconn_", "")
            if stem in ("activation", "key_type"):
                out.add((stem, k[1], ast.unparse(st.value)))
            else:
                out.add((stem, k[1]))
        return frozenset(out)

    table_rule(ctx, rule, INIT, views, spec, outcome, ignore_atoms=lambda a: not (("['type'] ==" in a) or a == f"{A} is None"),
               construct="constructor: local nic/custom -> left lan + right remote net; remote custom -> right lan + left remote net; modeconfig -> modeconfig ip; "
               "peer ip -> left peer ip and ALWAYS, dynip -> PASSIVE; auth none/pubkey/psk -> NONE/PUBLIC/PSK (+psk); any other type -> ValueError")


def route_overrides(ctx: Ctx, rule: str) -> None:
    """Outside the tunnel constructor the only vpnconn_* parameters written are the two mirrored remote-net overrides of a forwarding
    route (node parameters win over generated ones in VMTunnel.__init__, so any further pre-set key silently replaces a mirrored value)."""
    fref = "vmnet/network.py:VMNetwork.configure_vpn_route"
    fn = ctx.repo.func(fref)
    ctx.touch(fref)
    writes = []
    for f in ctx.repo.all_functions(("vmnet/network.py", "vmnet/netconfig.py", "vmnet/interface.py", "vmnet/node.py")):
        for st in ast.walk(f.node):
            if isinstance(st, ast.Assign):
                for t in st.targets:
                    if isinstance(t, ast.Subscript):
                        kp = key_parts(t.slice)
                        if kp is not None and kp[0].startswith("vpnconn_"):
                            writes.append((f.ref, kp[0], ast.unparse(t.value), ast.unparse(st.value)))
    want = {("vms[i].params", "next_net"), ("vms[i + 1].params", "prev_net")}
    got = {(recv, val) for ref, key, recv, val in writes if ref == fref and key == "vpnconn_remote_net"}
    other = [w for w in writes if not (w[0] == fref and w[1] == "vpnconn_remote_net")]
    ok = got == want and not other and len(writes) == 2
    ctx.record(rule, "OWNER", fref, "the only vpnconn_* parameters pre-set outside VMTunnel.__init__: vpnconn_remote_net_<tunnel> of a forwarding hop, mirrored (this end <- the next net, the other end <- the previous net)",
               ok, {"writes": [f"{w[0].split(':')[-1]}: {w[2]}[{w[1]}...] = {w[3]}" for w in writes]},
               "" if ok else (f"another tunnel parameter is pre-set outside the tunnel constructor: {other[0][2]}[{other[0][1]}...] = {other[0][3]} (node parameters override the mirrored values "
                              "the constructor generates)" if other else f"the remote-net overrides of a forwarding hop are no longer mirrored: {sorted(got)}"))


def key_agreement(ctx: Ctx, rule: str) -> None:
    """The tunnel parameters read back elsewhere in the package are parameters the tunnel constructor writes."""
    import re as _re

    def stem(text: str) -> str:
        return _re.sub(r"(_%s)+$", "", text)

    written = set()
    for f in ctx.repo.all_functions(("vmnet/tunnel.py",)):
        for st in ast.walk(f.node):
            if isinstance(st, ast.Subscript) and isinstance(st.ctx, ast.Store):
                kp = key_parts(st.slice)
                if kp is not None and kp[0].startswith("vpnconn_"):
                    written.add(stem(kp[0]))
                else:
                    for c in ast.walk(st.slice):
                        if isinstance(c, ast.Constant) and isinstance(c.value, str) and c.value.startswith("vpnconn_"):
                            written.add(stem(c.value.rstrip("_")))
    reads = []
    # readers outside the tunnel module consume what the constructor produced (inside it, user-provided optional keys are read too)
    for f in ctx.repo.all_functions(("vmnet/network.py",)):
        for c in ast.walk(f.node):
            key = None
            if isinstance(c, ast.Call) and call_name(c) == "get" and c.args and isinstance(c.args[0], ast.Constant) and isinstance(c.args[0].value, str):
                key = c.args[0].value
            elif isinstance(c, ast.Subscript) and isinstance(c.ctx, ast.Load):
                kp = key_parts(c.slice)
                ks = [k.value for k in ast.walk(c.slice) if isinstance(k, ast.Constant) and isinstance(k.value, str)]
                key = kp[0] if kp is not None else (ks[0].rstrip("_") if ks else None)
            if key and key.startswith("vpnconn_"):
                reads.append((f.ref, c.lineno, stem(key)))
    unknown = [(ref, k) for ref, _l, k in reads if k not in written]
    if len(written) < 15 or len(reads) < 8:
        raise AnalysisError(f"tunnel parameter tables too small (written {len(written)}, reads {len(reads)})")
    ctx.record(rule, "TABLE", "vmnet/network.py / vmnet/tunnel.py", f"every vpnconn_* parameter read by the network module ({len(reads)} reads) is one the tunnel constructor writes ({len(written)} keys)", not unknown,
               {"unknown_reads": sorted(set(unknown))}, "" if not unknown else f"a tunnel parameter is read under a name nobody writes: {sorted(set(unknown))[0]} — the value is always missing (None)")
    # optional 'nic' of an end point description: read with the same default wherever it is read
    direct = []
    defaults: dict[str, set] = {}
    for fname in ("__init__", "_get_peer_variant"):
        f = ctx.repo.func(f"vmnet/tunnel.py:VMTunnel.{fname}")
        for c in ast.walk(f.node):
            if isinstance(c, ast.Subscript) and isinstance(c.ctx, ast.Load) and isinstance(c.slice, ast.Constant) and c.slice.value == "nic" and isinstance(c.value, ast.Name):
                direct.append(f"{fname}: {ast.unparse(c)}")
            if isinstance(c, ast.Call) and call_name(c) == "get" and len(c.args) == 2 and isinstance(c.args[0], ast.Constant) and c.args[0].value == "nic" and isinstance(c.func.value, ast.Name):
                role = "peer" if "peer" in c.func.value.id else "net"
                defaults.setdefault(role, set()).add(ast.unparse(c.args[1]))
    ok = not direct and defaults == {"peer": {"'internet_nic'"}, "net": {"'lan_nic'"}}
    ctx.record(rule + "n", "SIBLING", "vmnet/tunnel.py:VMTunnel.__init__ / _get_peer_variant", "the optional 'nic' of an end point description is read with its default everywhere (lan_nic for local/remote, internet_nic for peers)", ok,
               {"unguarded": direct, "defaults": {k: sorted(v) for k, v in defaults.items()}},
               "" if ok else f"an end point description without 'nic' (documented as optional) works in the constructor's own reads but fails with KeyError in {direct[:2]}")


def run(ctx: Ctx) -> None:
    ctx.call(key_agreement, "8")
    ctx.call(route_overrides, "8w")
    ctx.call(constructor_table, "9")
    ctx.call(constructor_mirror, "1", "2", "3", "4")
    ctx.call(peer_variant_table, "4t")
    ctx.call(unsupported_raise, "5")
    ctx.call(symmetry, "6")
    ctx.call(endpoint_tuple, "7")


MUTANTS = [
    ("route-presets-netmask", "vmnet/network.py", "            vms[i + 1].params[\"vpnconn_remote_net_%s\" % fvpn] = prev_net\n", "            vms[i + 1].params[\"vpnconn_remote_net_%s\" % fvpn] = prev_net\n            vms[i].params[\"vpnconn_remote_netmask_%s\" % fvpn] = prev_mask\n", "8w"),
    ("internetip-branch-inverted", "vmnet/tunnel.py", "        elif local1[\"type\"] == \"internetip\":\n            netconfig1 = None", "        elif local1[\"type\"] != \"internetip\":\n            netconfig1 = None", "9"),
    ("dynip-treated-as-ip", "vmnet/tunnel.py", "        elif peer1[\"type\"] == \"dynip\":\n            interface2 = node2.interfaces[", "        elif peer1[\"type\"] != \"dynip\":\n            interface2 = node2.interfaces[", "9"),
    ("pubkey-gets-psk-type", "vmnet/tunnel.py", "            params[\"vpnconn_key_type_%s\" % name] = \"PUBLIC\"", "            params[\"vpnconn_key_type_%s\" % name] = \"PSK\"", "9"),
    ("modeconfig-without-ip", "vmnet/tunnel.py", "        elif remote1[\"type\"] == \"modeconfig\":\n            netconfig2 = None\n            params[\"vpnconn_remote_modeconfig_ip_%s_%s\" % (name, node1.name)] = remote1[\n                \"modeconfig_ip\"\n            ]", "        elif remote1[\"type\"] == \"modeconfig\":\n            netconfig2 = None", "9"),
    ("route-mask-unwritten-key", "vmnet/network.py", "                    .get(\"vpnconn_remote_netmask\")\n                )\n            logging.debug(\n                \"Retrieved previous network", "                    .get(\"vpnconn_remote_mask\")\n                )\n            logging.debug(\n                \"Retrieved previous network", "8"),
    ("auth-none-refused", "vmnet/tunnel.py", "        if auth is None or auth[\"type\"] == \"none\":", "        if auth is None:", "5"),
    ("peer-variant-nic-unguarded", "vmnet/tunnel.py", "right_remote[\"nic\"] = left_local.get(\"nic\", \"lan_nic\")", "right_remote[\"nic\"] = left_local[\"nic\"]", "8n"),
    ("right-lan-by-left-role", TUN, "node2.params[remote1.get(\"nic\", \"lan_nic\")]", "node2.params[local1.get(\"nic\", \"lan_nic\")]", "1n"),
    ("custom-not-mirrored", TUN, "            params[\"vpnconn_remote_net_%s_%s\" % (name, node2.name)] = local1[\"lnet\"]\n            params[\"vpnconn_remote_netmask_%s_%s\" % (name, node2.name)] = local1[\n                \"lmask\"\n            ]\n", "", "1"),
    ("remote-net-from-own-lan", TUN, "            params[\"vpnconn_remote_net_%s_%s\" % (name, node1.name)] = netconfig2.net_ip", "            params[\"vpnconn_remote_net_%s_%s\" % (name, node1.name)] = netconfig1.net_ip", "1"),
    ("peer-ip-own-interface", TUN, "        interface1 = node1.interfaces[node1.params[peer2.get(\"nic\", \"internet_nic\")]]", "        interface1 = node2.interfaces[node2.params[peer2.get(\"nic\", \"internet_nic\")]]", "2"),
    ("psk-types-not-swapped", TUN, "            params[\"vpnconn_psk_foreign_id_type_%s_%s\" % (name, node2.name)] = (\n                left_id_type\n            )", "            params[\"vpnconn_psk_foreign_id_type_%s_%s\" % (name, node2.name)] = (\n                right_id_type\n            )", "3"),
    ("both-sides-left", TUN, "        params[\"vpn_side_%s_%s\" % (name, node2.name)] = \"right\"", "        params[\"vpn_side_%s_%s\" % (name, node2.name)] = \"left\"", "2"),
    ("variant-externalip-to-nic", TUN, "        elif left_remote[\"type\"] == \"externalip\":\n            right_local[\"type\"] = \"internetip\"", "        elif left_remote[\"type\"] == \"externalip\":\n            right_local[\"type\"] = \"nic\"", "4t"),
    ("unknown-peer-type-accepted", TUN, "            raise ValueError(\n                \"Invalid choice of left peer type '%s', must be one of\"\n                \" 'ip', 'dynip'\" % peer1[\"type\"]\n            )", "            interface2 = None", "5"),
    ("connects-order-dependent", TUN, "        if on_the_left(node1) and on_the_right(node2):\n            return True\n        elif on_the_right(node1) and on_the_left(node2):\n            return True\n        else:\n            return False",
     "        if on_the_left(node1):\n            return on_the_right(node2)\n        elif on_the_right(node1):\n            return on_the_left(node2)\n        else:\n            return False", "6"),
    ("right-helper-drift", TUN, "            if self.right_net is not None and node.check_interface(\n                self.right_net.has_interface\n            ):", "            if node.check_interface(\n                self.right_net.has_interface\n            ):", "6s"),
    ("endpoint-tuple-half-swapped", TUN, "            interface1, interface2 = self.right_iface, self.left_iface\n            netconfig1, netconfig2 = self.right_net, self.left_net", "            interface1, interface2 = self.right_iface, self.left_iface\n            netconfig1, netconfig2 = self.left_net, self.right_net", "7"),
]
