"""C15 — the update tool reruns exactly the requested path and drops only its dependants."""

from __future__ import annotations

import ast

from .. import norm
from ..ctx import Ctx
from ..facts import PathView, is_call_named
from ..kinds import function_views, loop_iteration_views, names_interesting, the_loop
from ..paths import PathEnum, first_line
from ..repo import AnalysisError, call_name, calls_in
from . import graphrules as GR

IS = "intertest_setup.py"
UPD = f"{IS}:update"
GRAPH = "cartgraph/graph.py"
FALSE = "lambda self, slot: False"
RUNFLAG = "lambda self, slot: not self.is_finished(slot) or self.should_rerun(slot)"
CLEANFLAG = "lambda self, slot: len(self.cloned_nodes) == 0"

EXPLANATION = (
    "The executed and removed sets for all (from, to) pairs are not decided. Decided is the construction: every freshly "
    "parsed graph of the update tool is first flagged 'run nothing, clean nothing'; the clean flag is set only on the "
    "dependants of the target state (target and clone sources excluded) of that vm and worker; the run flag is set on "
    "the intersection with the path to the target and cleared/re-set around the starting state in the documented order; "
    "unknown states are rejected (AssertionError of flag_children turned into ValueError) before any flag is assigned; "
    "all parses are pinned to the one vm and worker with forced modes; intersection maps nodes by their set-invariant "
    "name and rejects ambiguous matches."
)
DECIDED = [
    "C15.1 'nothing else': the first two flag operations on a fresh clean graph clear run and clean everywhere",
    "C15.2 clean flag: dependants of the target state only (skip_parents), for that vm and worker, clone sources excluded",
    "C15.3 unknown from/to state: flag_children raises before flagging; update turns it into ValueError",
    "C15.4 run flag: intersection with the path to the target; starting state handling in order (clear path to from_state, re-flag from_state only)",
    "C15.5 every parse is pinned to the vm (vms, main_vm), the worker (nets) and forced modes ra/ff/fi; run/skip graphs restricted to that vm",
    "C15.6 flag_intersection maps by set-invariant name, rejects non-unique matches before flagging, honours the skip switches",
    "C15.7 flag_children: selection of exactly one root (else AssertionError), walk over cleanup edges, skip_parents/skip_children semantics",
    "C15.5v from_state / to_state / remove_set come from the vm's own suffix-resolved parameters",
    "C15.9 the per-worker copies of the update graph are bridged all-pairs (runs and removals of one worker are seen by the others); C15.10 removal requests use the worker's own session",
    "C15.8 the removal itself: sync_states decision table (what is unset for which object, permanent vms only protected at install)",
]
NOT_DECIDED = ["the executed and removed sets for all (from_state, to_state) pairs, vm selections and worker counts"]
MIN_INSTANCES = 14


def _kw(c: ast.Call) -> dict:
    return {k.arg: ast.unparse(k.value) for k in c.keywords}


def _vm_collection(fn_node: ast.AST, it: ast.AST) -> bool:
    """The iterated collection is the vm's objects, possibly narrowed to the worker through a local."""
    if ast.unparse(it) == "vm_objects":
        return True
    if isinstance(it, ast.Name):
        ds = [s_ for s_ in ast.walk(fn_node) if isinstance(s_, ast.Assign) and len(s_.targets) == 1 and ast.unparse(s_.targets[0]) == it.id]
        return len(ds) == 1 and any(isinstance(n_, ast.Name) and n_.id == "vm_objects" for n_ in ast.walk(ds[0].value))
    return False


def update_flags(ctx: Ctx, rule: str) -> None:
    fn = ctx.repo.func(UPD)
    ctx.require_locals(UPD, ["clean_graph", "run_graph", "skip_graph", "setup_dict", "flag_state", "vm_objects", "from_state", "to_state", "vm_name", "worker"])
    wl = the_loop(ctx, UPD, ast.For, lambda l: ast.unparse(l.iter) == "graph.workers.values()", "worker loop of update")
    views = loop_iteration_views(ctx, UPD, wl, names_interesting({"flag_intersection", "flag_children", "parse_object_trees", "get_nodes_by_name", "new_nodes", "new_objects",
                                                                  "setup_dict"}, extra=lambda n: isinstance(n, ast.Raise)))
    problems = {k: [] for k in ("1", "2", "3", "4")}
    n_paths = 0
    for v in views:
        if v.path.exit == "raise" or any(s.kind in ("except", "excin") for s in v.steps):
            continue
        if v.path.exit == "continue":
            continue  # empty Cartesian product for this worker
        n_paths += 1
        flags = [(i, c) for i, c in v.calls(lambda c: call_name(c) in ("flag_intersection", "flag_children") and ast.unparse(c.func.value) == "clean_graph")]
        conds = norm.conj([v.cond_formula(i) for i, s in enumerate(v.steps) if s.kind == "cond"])
        # C15.1
        if len(flags) < 3:
            problems["1"].append(("too few flag operations", v))
            continue
        first, second = flags[0][1], flags[1][1]
        for c, ft in ((first, "'run'"), (second, "'clean'")):
            if call_name(c) != "flag_intersection" or [ast.unparse(a) for a in c.args] != ["clean_graph"] or _kw(c) != {"flag_type": ft, "flag": FALSE}:
                problems["1"].append((f"the clean graph is not first flagged to {ft[1:-1]} nothing: {ast.unparse(c)[:100]}", v))
        # C15.2 clean flag
        cleans = [c for i, c in flags[2:] if _kw(c).get("flag_type") == "'clean'"]
        iter_steps = [s for s in v.steps if s.kind == "iter" and _vm_collection(fn.node, s.node.iter) and s.extra == "next"
                      and any(call_name(c) == "flag_children" and _kw(c).get("flag_type") == "'clean'" for c in calls_in(s.node))]
        if iter_steps:
            if not cleans:
                problems["2"].append(("no clean flag is set for the dependants of the target state", v))
            for c in cleans:
                if call_name(c) != "flag_children" or [ast.unparse(a) for a in c.args] != ["flag_state", "vm_name", "vm_object.component_form + '.*' + worker.id"] \
                        or _kw(c) != {"flag_type": "'clean'", "flag": CLEANFLAG, "skip_parents": "True"}:
                    problems["2"].append((f"the clean flag is set differently: {ast.unparse(c)[:160]}", v))
        # C15.4 run flags
        runs = [(i, c) for i, c in flags[2:] if _kw(c).get("flag_type") == "'run'"]
        if not runs:
            problems["4"].append(("no run flag is set", v))
            continue
        r0 = runs[0][1]
        if call_name(r0) != "flag_intersection" or [ast.unparse(a) for a in r0.args] != ["run_graph"] or _kw(r0) != {"flag_type": "'run'", "flag": RUNFLAG, "skip_shared_root": "True"}:
            problems["4"].append((f"the run flag of the update path is set differently: {ast.unparse(r0)[:160]}", v))
        from_install = norm.implies(conds, norm.formula(ast.parse("from_state == 'install'", mode="eval").body))
        not_install = norm.implies(conds, norm.formula(ast.parse("from_state != 'install'", mode="eval").body))
        rest = runs[1:]
        if not_install:
            if not rest or call_name(rest[0][1]) != "flag_intersection" or [ast.unparse(a) for a in rest[0][1].args] != ["skip_graph"] \
                    or _kw(rest[0][1]) != {"flag_type": "'run'", "flag": FALSE}:
                problems["4"].append(("with a starting state the path up to it is not first cleared from running", v))
            fc = [c for i, c in rest[1:]]
            if rest and any(s.kind == "iter" and _vm_collection(fn.node, s.node.iter) and s.extra == "next"
                            and any(call_name(c) == "flag_children" and _kw(c).get("flag_type") == "'run'" for c in calls_in(s.node)) for s in v.steps):
                if not fc:
                    problems["4"].append(("the starting state itself is not flagged to run again", v))
            for c in fc:
                if call_name(c) != "flag_children" or [ast.unparse(a) for a in c.args] != ["from_state", "vm_name", "vm_object.component_form + '.*' + worker.id"] \
                        or _kw(c) != {"flag_type": "'run'", "flag": RUNFLAG, "skip_children": "True"}:
                    problems["4"].append((f"the starting state is re-flagged differently: {ast.unparse(c)[:160]}", v))
        elif from_install and rest:
            problems["4"].append(("run flags are cleared although the update starts from the installation", v))
    if n_paths < 2:
        raise AnalysisError(f"{UPD}: only {n_paths} normal paths through the worker loop")
    texts = {
        "1": "the first two flag operations on the freshly parsed clean graph: run -> constant False, clean -> constant False (for every node)",
        "2": f"clean flag: flag_children(target state or '' for install, vm, <vm variant>.*<worker>, clean, {CLEANFLAG}, skip_parents=True)",
        "4": "run flag: intersection with the graph up to to_state (skip shared root); from_state != install: clear the graph up to from_state, then re-flag from_state alone",
    }
    for k, t in texts.items():
        pr = problems[k]
        ctx.record(rule + k if k != "1" else rule + "1", "ORDER", UPD, t, not pr, {"paths": n_paths, **({"path": pr[0][1].path.describe()[-25:]} if pr else {})},
                   "" if not pr else pr[0][0])
    fs = [s for s in ast.walk(fn.node) if isinstance(s, ast.Assign) and ast.unparse(s.targets[0]) == "flag_state"]
    ok = len(fs) == 1 and ast.unparse(fs[0].value) == "'' if to_state == 'install' else to_state"
    ctx.record(rule + "2s", "TABLE", UPD, "target of the clean flag: the object root ('' name) when updating the installation itself, else the to_state node", ok, {},
               "" if ok else "the node whose dependants are cleaned changed")
    # C15.3 rejection
    tries = [t for t in ast.walk(fn.node) if isinstance(t, ast.Try) and any(call_name(c) == "flag_children" for s in t.body for c in calls_in(s))]
    ok3 = len(tries) == 2
    for t in tries:
        hs = [h for h in t.handlers if ast.unparse(h.type) == "AssertionError"]
        ok3 = ok3 and len(hs) == 1 and any(isinstance(x, ast.Raise) and PathEnum._raised_name(x) == "ValueError" for x in ast.walk(hs[0]))
    ctx.record(rule + "3", "TABLE", UPD, "both flag_children sites: AssertionError (state not found / ambiguous) -> ValueError", ok3, {"sites": len(tries)},
               "" if ok3 else "an unknown starting or target state is no longer rejected by the update tool")
    # a nonexistent target or starting state must surface: only the clean graph's empty product may be skipped
    swallowed = []
    n_parse = 0
    for t in [t for t in ast.walk(fn.node) if isinstance(t, ast.Try)]:
        for c in [c for st in t.body for c in calls_in(st) if call_name(c) == "parse_object_trees"]:
            restr = _kw(c).get("restriction")
            reraises = all(any(isinstance(x, ast.Raise) for x in ast.walk(h)) for h in t.handlers)
            if restr != "setup_str" and not reraises:
                swallowed.append(restr)
    n_parse = len([c for c in calls_in(fn.node) if call_name(c) == "parse_object_trees"])
    ctx.record(rule + "3b", "TABLE", UPD, "an empty Cartesian product is tolerated (worker skipped) only for the clean graph; for the run and skip graphs (to_state / from_state) it propagates",
               not swallowed and n_parse == 4, {"swallowed_for": swallowed},
               "" if not swallowed and n_parse == 4 else f"a nonexistent state is silently tolerated: the parse of {swallowed} is wrapped in a handler that does not re-raise")
    # install target keeps only the original (install) node
    src = ast.unparse(fn.node)
    ok5 = "install_nodes = run_graph.get_nodes_by_name('all.original')" in src and "run_graph.new_nodes(install_nodes)" in src
    ctx.record(rule + "4i", "PROV", UPD, "to_state == install: the run graph is reduced to the 'all.original' node(s)", ok5, {}, "" if ok5 else "updating only the installation runs more than the installation")


def worker_variants(ctx: Ctx, rule: str) -> None:
    """A worker may support only some variants of the selected vm (net restrictions such as only_vm1 = Fedora): the variants flagged for a
    worker are those its restrictions admit.  Flagging a variant the worker has no node for raises (AssertionError -> ValueError) and
    rejects the whole update although the requested states exist."""
    fn = ctx.repo.func(UPD)
    ctx.touch(UPD)
    wl = the_loop(ctx, UPD, ast.For, lambda l: ast.unparse(l.iter) == "graph.workers.values()", "worker loop of update")
    loops = [l for l in ast.walk(wl) if isinstance(l, ast.For) and l is not wl and any(call_name(c) == "flag_children" for c in calls_in(l)) and _vm_collection(fn.node, l.iter)]
    bad = []
    for l in loops:
        it = l.iter
        src = ""
        if isinstance(it, ast.Name):
            ds = [s_ for s_ in ast.walk(fn.node) if isinstance(s_, ast.Assign) and len(s_.targets) == 1 and ast.unparse(s_.targets[0]) == it.id]
            src = ast.unparse(ds[0].value) if len(ds) == 1 else ""
        narrowed = "worker.net.restrs" in src or "worker.restrs" in src
        if not narrowed:
            bad.append(f"line {l.lineno}: for {ast.unparse(l.target)} in {ast.unparse(it)}")
    ok = len(loops) >= 2 and not bad
    ctx.record(rule, "GUARD", UPD, "per worker the flagged vm variants are narrowed by that worker's own restrictions for the vm (a variant the worker cannot have is skipped, not an error)",
               ok, {"loops": len(loops), "unnarrowed": bad},
               "" if ok else f"update flags every variant of the vm on every worker ({bad[0] if bad else 'loops not found'}): a worker whose net admits only some variants "
               "(only_vm1 = Fedora) has no node for the others, flag_children raises and the update is rejected with a misleading 'could not identify a test node'")


def update_pinning(ctx: Ctx, rule: str) -> None:
    fn = ctx.repo.func(UPD)
    ctx.touch(UPD)
    wl = the_loop(ctx, UPD, ast.For, lambda l: ast.unparse(l.iter) == "graph.workers.values()", "worker loop of update")
    from ..facts import dict_writes

    stores = {}
    for s in ast.walk(wl):
        if isinstance(s, ast.Assign) and ast.unparse(s.targets[0]) == "setup_dict":
            stores["setup_dict"] = ast.unparse(s.value)
    written = {}
    for k, v, _ in dict_writes(wl, "setup_dict"):
        written.setdefault(ast.unparse(k) if k is not None else "*", set()).add(ast.unparse(v))
    modes = {k: sorted(v) for k, v in written.items()}
    ok = (stores.get("setup_dict") == "config['param_dict'].copy()"
          and all(written.get(k) == v for k, v in {"'main_vm'": {"vm_name"}, "'vms'": {"vm_name"}, "'nets'": {"worker.id"}, "'get_mode'": {"'ra'"}, "'set_mode'": {"'ff'"},
                                                    "'unset_mode'": {"'fi'"}}.items()) and "*" not in written)
    ctx.record(rule, "PROV", UPD, "every parse of the update tool: vms = main_vm = the current vm, nets = the current worker, modes ra/ff/fi", ok, {"stores": stores, "modes": modes},
               "" if ok else "the update of one vm is no longer isolated from other vms/workers or no longer forces the overwrite modes")
    parses = [c for c in calls_in(wl) if call_name(c) == "parse_object_trees"]
    bad = []
    for c in parses:
        kw = _kw(c)
        if kw.get("worker") != "worker" or kw.get("params") != "setup_dict":
            bad.append(ast.unparse(c)[:120])
        if "setup_str" in kw.get("restriction", ""):
            if kw.get("object_restrs") != "config['available_vms']" or kw.get("with_shared_root") != "False":
                bad.append(ast.unparse(c)[:120])
        elif kw.get("object_restrs") != "{vm_name: config['vm_strs'][vm_name]}":
            bad.append(ast.unparse(c)[:120])
    ctx.record(rule + "g", "PROV", UPD, "run/skip graphs are parsed for the one vm only ({vm: its restriction}); the clean graph for the worker with all available vms, no shared root",
               not bad and len(parses) == 4, {"parses": len(parses)}, "" if not bad and len(parses) == 4 else f"a graph of the update tool is parsed with other restrictions: {bad[:1]}")
    restr = {}
    for c in parses:
        kw = _kw(c)
        restr[kw.get("restriction")] = True
    from ..canon import same_set

    ok_r = same_set(restr, ["setup_str", "param.re_str('all..customize')", "param.re_str('all..' + to_state)", "param.re_str('all..' + from_state)"])
    ctx.record(rule + "r", "PROV", UPD, "restrictions: clean = remove_set; run = all..<to_state> (all..customize for install); skip = all..<from_state>", ok_r, {"found": sorted(map(str, restr))},
               "" if ok_r else "the graphs of the update tool are parsed from other restrictions")
    d = {ast.unparse(s.targets[0]): ast.unparse(s.value) for s in ast.walk(fn.node) if isinstance(s, ast.Assign) and ast.unparse(s.targets[0]) in ("from_state", "to_state", "vm_objects", "selected_vms")}
    ok_d = d == {"from_state": "vm_params.get('from_state', 'install')", "to_state": "vm_params.get('to_state', 'customize')",
                 "vm_objects": "graph.get_objects(param_val=vm_name)", "selected_vms": "sorted(config['vm_strs'].keys())"}
    ctx.record(rule + "d", "CONST", UPD, "defaults: from_state install, to_state customize; vms = the selected ones", ok_d, d, "" if ok_d else "the defaults of the update tool changed")
    # the per-vm settings are read from the vm's own (suffix-resolved) parameters
    reads = [c for c in calls_in(fn.node) if call_name(c) == "get" and c.args and isinstance(c.args[0], ast.Constant) and c.args[0].value in ("from_state", "to_state", "remove_set")]
    wrong = [ast.unparse(c) for c in reads if ast.unparse(c.func.value) != "vm_params"]
    vp = [ast.unparse(s_.value) for s_ in ast.walk(fn.node) if isinstance(s_, ast.Assign) and ast.unparse(s_.targets[0]) == "vm_params"]
    keys = {c.args[0].value for c in reads}
    chain = [ast.unparse(s_.value) for s_ in sorted((x for x in ast.walk(fn.node) if isinstance(x, ast.Assign) and ast.unparse(x.targets[0]) == "setup_str"), key=lambda x: x.lineno)]
    ok_v = not wrong and vp == ["config['vms_params'].object_params(vm_name)"] and keys == {"from_state", "to_state", "remove_set"} \
        and chain == ["vm_params.get('remove_set', 'leaves')", "'all..' + setup_str", "param.re_str(setup_str)"]
    ctx.record(rule + "v", "PROV", UPD, "from_state / to_state / remove_set are read from the current vm's own parameters (vms_params.object_params(vm)); remove set default 'leaves', prefixed all.. unless it names a known set",
               ok_v, {"reads": [ast.unparse(c) for c in reads], "vm_params": vp, "setup_str": chain},
               "" if ok_v else f"per-vm update settings are no longer read from the vm's own parameters ({wrong or vp or chain}): <setting>_<vm> is ignored")


def intersection_rules(ctx: Ctx, rule: str) -> None:
    fref = f"{GRAPH}:TestGraph.flag_intersection"
    fn = ctx.repo.func(fref)
    loop = the_loop(ctx, fref, ast.For, lambda l: ast.unparse(l.iter) == "self.nodes", "loop over the graph's nodes")
    nd = loop.target.id
    views = loop_iteration_views(ctx, fref, loop, None)
    problems = []
    kinds = set()
    for v in views:
        raw = {ast.unparse(s.node): s.pol for s in v.steps if s.kind == "cond"}
        flagged = [s for i, s in v.stmts(lambda s: isinstance(s, ast.Assign) and ast.unparse(s.targets[0]) in (f"{nd}.should_run", f"{nd}.should_clean"))]
        if raw.get("len(matching_nodes) == 0"):
            kinds.add("none")
            if flagged or v.path.exit != "continue":
                problems.append("a node without counterpart in the other graph is flagged")
        elif raw.get("len(matching_nodes) > 1"):
            kinds.add("many")
            if v.path.exit != "raise" or PathEnum._raised_name(v.path.exit_node) != "ValueError" or flagged:
                problems.append("an ambiguous match is not rejected before flagging")
        elif raw.get(f"{nd}.is_shared_root() and skip_shared_root") or raw.get(f"{nd}.is_object_root() and skip_object_roots"):
            kinds.add("skip")
            if flagged:
                problems.append("a root that should be skipped is flagged")
        else:
            kinds.add("flag")
            if len(flagged) != 1 or ast.unparse(flagged[0].value) != f"flag.__get__({nd})":
                problems.append("a uniquely matched node is not flagged exactly once with the bound flag")
            else:
                tgt = ast.unparse(flagged[0].targets[0])
                is_run = raw.get("flag_type == 'run'")
                if (is_run and tgt != f"{nd}.should_run") or (is_run is False and tgt != f"{nd}.should_clean"):
                    problems.append("the flag type selects the wrong decision")
    ctx.record(rule, "TABLE", fref, "per node: no match -> untouched; several matches -> ValueError; skipped roots -> untouched; else should_run/should_clean = bound flag",
               not problems and kinds == {"none", "many", "skip", "flag"}, {"paths": len(views), "kinds": sorted(kinds)},
               "" if not problems and kinds == {"none", "many", "skip", "flag"} else (problems[0] if problems else f"rows found {sorted(kinds)}"))
    from ..canon import inline_locals

    # a call argument named as a local (name_regex = node.setless_form + "$") is that argument
    m = [s for s in ast.walk(inline_locals(loop, keep={"matching_nodes"})) if isinstance(s, ast.Assign) and ast.unparse(s.targets[0]) == "matching_nodes"]
    okm = len(m) == 1 and ast.unparse(m[0].value) == f"graph.get_nodes(param_key='name', param_val={nd}.setless_form + '$')"
    ctx.record(rule + "m", "PROV", fref, "nodes are mapped into the other graph by their set-invariant name anchored at the end", okm, {}, "" if okm else "the node mapping of flag_intersection changed")


def children_rules(ctx: Ctx, rule: str) -> None:
    fref = f"{GRAPH}:TestGraph.flag_children"
    fn = ctx.repo.func(fref)
    views = function_views(ctx, fref, names_interesting({"should_run", "should_clean", "flagged", "root_tests"}, extra=lambda n: isinstance(n, ast.Raise)))
    n_raise = 0
    bad = None
    for v in views:
        raw = {ast.unparse(s.node): s.pol for s in v.steps if s.kind == "cond"}
        stores = [s for i, s in v.stmts(lambda s: isinstance(s, ast.Assign) and ast.unparse(s.targets[0]).endswith((".should_run", ".should_clean")))]
        if raw.get("len(root_tests) < 1") or raw.get("len(root_tests) > 1"):
            n_raise += 1
            if v.path.exit != "raise" or PathEnum._raised_name(v.path.exit_node) != "AssertionError" or stores:
                bad = v
    ctx.record(rule, "TABLE", fref, "no root or several roots found -> AssertionError before any flag is assigned", bad is None and n_raise >= 2, {"raising_paths": n_raise},
               "" if bad is None and n_raise >= 2 else "flag_children flags something although the requested root is missing or ambiguous")
    src = ast.unparse(fn.node)
    # start set: the root itself, or only its children when skip_parents (written as if/else or as a conditional expression)
    init = [s_ for s_ in fn.node.body if isinstance(s_, ast.Assign) and ast.unparse(s_.targets[0]) == "flagged"]
    walk = [w for w in fn.node.body if isinstance(w, ast.While)]
    ok = len(init) == 1 and len(walk) == 1 and isinstance(init[0].value, ast.IfExp)
    if ok:
        ie = init[0].value
        f = norm.formula(ie.test)
        a_, b_ = ast.unparse(ie.body), ast.unparse(ie.orelse)
        if norm.equivalent(f, ("atom", "skip_parents")):
            a_, b_ = b_, a_
            f = norm.neg(f)
        ok = norm.equivalent(f, norm.neg(("atom", "skip_parents"))) and a_ == "[test_node]" and b_ == "list(test_node.cleanup_nodes)"
        w = walk[0]
        ok = ok and ast.unparse(w.test) == "len(flagged) > 0" and ast.unparse(w.body[0]) == "test_node = flagged.pop()"
        tail = w.body[-1]
        ok = ok and isinstance(tail, ast.If) and ast.unparse(tail.test) == "not skip_children" and [ast.unparse(x) for x in tail.body] == ["flagged.extend(test_node.cleanup_nodes)"] \
            and not tail.orelse and not any(isinstance(x, (ast.Break, ast.Continue, ast.Return)) for x in ast.walk(w))
    ctx.record(rule + "w", "TABLE", fref, "walk: start at the root (or only its children with skip_parents), follow cleanup edges (unless skip_children)", ok, {},
               "" if ok else "the set of nodes flag_children reaches from its root changed")
    # the lookups as keyword tables (any equivalent way of building the regular expressions is accepted)
    lookups = [{k.arg: ast.unparse(k.value) for k in c.keywords} for c in calls_in(fn.node) if call_name(c) == "get_nodes" and ast.unparse(c.func.value) == "self"]
    want_lookups = [
        {"param_key": "'shared_root'", "param_val": "'yes'"},
        {"param_key": "'object_root'", "param_val": "'(?:-|\\.|^)' + object_name + '(?:-|\\.|$)'"},
        {"param_key": "'vms'", "param_val": "'(?:^|\\s)' + object_name + '(?:$|\\s)'", "subset": "root_tests"},
        {"param_key": "'name'", "param_val": "'(?:^|\\.)' + worker_name + '(?:$|\\.)'", "subset": "root_tests"},
    ]
    byname = [c for c in calls_in(fn.node) if call_name(c) == "get_nodes_by_name" and [ast.unparse(a_) for a_ in c.args] == ["node_name"]]
    sel = len(lookups) == 4 and all(any(l == w for l in lookups) for w in want_lookups) and len(byname) == 1
    ctx.record(rule + "s", "PROV", fref, "root selection: shared root / object root of the vm / node by name, narrowed to the vm (whole word) and the worker (whole variant)", sel, {},
               "" if sel else "how flag_children selects its root node changed (other vms' or workers' nodes may match)")


def intersection_target(ctx: Ctx, rule: str) -> None:
    """flag_intersection sets the decision its flag_type names, on the node of *this* graph, bound to that node."""
    fref = f"{GRAPH}:TestGraph.flag_intersection"
    fn = ctx.repo.func(fref)
    ctx.touch(fref)
    loops = [l for l in fn.node.body if isinstance(l, ast.For) and ast.unparse(l.iter) == "self.nodes"]
    ok, detail = False, None
    if len(loops) == 1 and isinstance(loops[0].target, ast.Name):
        nd = loops[0].target.id
        last = loops[0].body[-1]
        if isinstance(last, ast.If):
            f = norm.formula(last.test)
            run = norm.formula(ast.parse("flag_type == 'run'", mode="eval").body)
            a, b = [ast.unparse(x) for x in last.body], [ast.unparse(x) for x in last.orelse]
            if norm.equivalent(f, norm.neg(run)):
                a, b = b, a
                f = run
            detail = {"run": a, "else": b}
            ok = norm.equivalent(f, run) and a == [f"{nd}.should_run = flag.__get__({nd})"] and b == [f"{nd}.should_clean = flag.__get__({nd})"]
        # skips: only non-overlapping nodes, and roots on request; an ambiguous match raises
        conts = [i for i in loops[0].body if isinstance(i, ast.If) and any(isinstance(x, ast.Continue) for x in ast.walk(i))]
        tests = [norm.formula(i.test) for i in conts]
        want = [norm.formula(ast.parse(t, mode="eval").body) for t in ("len(matching_nodes) == 0", f"{nd}.is_shared_root() and skip_shared_root", f"{nd}.is_object_root() and skip_object_roots")]
        ok = ok and len(tests) == 3 and all(any(norm.equivalent(t, w) for t in tests) for w in want)
    ctx.record(rule, "TABLE", fref, "per node of this graph with exactly one counterpart in the other graph (none -> skipped, several -> ValueError; roots skipped on request): flag_type run -> should_run, else should_clean, bound to the node",
               ok, detail or {}, "" if ok else "flag_intersection assigns the wrong decision (run/clean swapped), binds it to another node, or skips nodes for another reason")


def children_table(ctx: Ctx, rule: str) -> None:
    """flag_children as a decision table: which root is selected, how it is narrowed, when it raises, which flag is set."""
    from ..kinds import TableSpec, table_rule

    fref = f"{GRAPH}:TestGraph.flag_children"
    views = function_views(ctx, fref, names_interesting({"should_run", "should_clean", "root_tests", "get_nodes", "get_nodes_by_name"}, extra=lambda n: isinstance(n, ast.Raise)))
    for v_ in views:
        v_.depth = 0  # the table is about the tests as written (root_tests / flagged are re-bound along the way)

    def _stores(view):
        return [ast.unparse(st.targets[0]).split(".")[-1] for i, st in view.stmts(lambda s_: isinstance(s_, ast.Assign) and ast.unparse(s_.targets[0]).endswith((".should_run", ".should_clean")))]

    # a pass that flags nothing (work list empty at once) says nothing about which flag is set: judge the raising paths and those that flag a node
    views = [v_ for v_ in views if v_.path.exit == "raise" or _stores(v_)]

    def M(name, text, neg=False):
        def m(t):
            if t == text:
                return (lambda v: not v[name]) if neg else (lambda v: v[name])
            return None
        return m

    matchers = [M("OE", "object_name == ''"), M("NE", "node_name == ''"), M("WE", "worker_name == ''"),
                M("N0", "empty(root_tests)"), M("N0", "len(root_tests) < 1"), M("N2", "len(root_tests) > 1"), M("N2", "1 < len(root_tests)"), M("RUN", "flag_type == 'run'"),
                M("SP", "skip_parents"), M("SC", "skip_children")]

    def reference(v):
        sel = "shared" if v["OE"] and v["NE"] else ("objroot" if v["NE"] else "byname")
        vm = (not v["NE"]) and (not v["OE"])
        worker = not v["WE"]
        if v["N0"] or v["N2"]:
            return ("raise:AssertionError", sel, vm, worker, ())
        return ("done", sel, vm, worker, ("should_run",) if v["RUN"] else ("should_clean",))

    spec = TableSpec({k: [True, False] for k in ("OE", "NE", "WE", "N0", "N2", "RUN", "SP", "SC")}, matchers, reference,
                     constraint=lambda v: not (v["N0"] and v["N2"]))

    def outcome(view, val, free):
        p = view.path
        term = "raise:" + (PathEnum._raised_name(p.exit_node) or "?") if p.exit == "raise" else "done"
        sel, vm, worker = None, False, False
        for i, st in view.stmts(lambda s_: isinstance(s_, ast.Assign) and ast.unparse(s_.targets[0]) == "root_tests"):
            t = ast.unparse(st.value)
            if "subset=root_tests" not in t:
                sel = "shared" if "'shared_root'" in t and "'yes'" in t else ("objroot" if "'object_root'" in t and "object_name" in t else ("byname" if t == "self.get_nodes_by_name(node_name)" else "?"))
            elif "param_key='vms'" in t and "object_name" in t:
                vm = True
            elif "param_key='name'" in t and "worker_name" in t:
                worker = True
        return (term, sel, vm, worker, tuple(sorted(set(_stores(view)))))

    table_rule(ctx, rule, fref, views, spec, outcome, ignore_atoms=lambda a: "flagged" in a,
               construct="flag_children: root = shared root (no object, no node) / object root of the vm (no node) / node by name narrowed to the vm; narrowed to the worker if given; "
               "not exactly one root -> AssertionError without flagging; flag_type run -> should_run, else should_clean")


def run(ctx: Ctx) -> None:
    ctx.call(children_table, "7t")
    ctx.call(intersection_target, "6t")
    ctx.call(update_flags, "")
    ctx.call(update_pinning, "5")
    ctx.call(worker_variants, "2w")
    from .c05 import sync_table

    ctx.call(sync_table, "8")
    ctx.call(intersection_rules, "6")
    ctx.call(children_rules, "7")
    from ..kinds import signature_defaults

    ctx.call(signature_defaults, "7d", {
        "cartgraph/graph.py:TestGraph.flag_children": {"node_name": "''", "object_name": "''", "worker_name": "''", "flag_type": "'run'", "skip_parents": "False", "skip_children": "False"},
        "cartgraph/graph.py:TestGraph.flag_intersection": {"flag_type": "'run'", "skip_object_roots": "False", "skip_shared_root": "False"},
        "cartgraph/graph.py:TestGraph.get_nodes": {"param_key": "'name'", "param_val": "''", "subset": "None", "unique": "False"},
    }, "flagging defaults: from the shared root over everything, nothing skipped")
    ctx.call(GR.name_forms, "6n")
    # each worker's copy of the update graph sees what the other workers already ran / removed: all pairs bridged (the shared views read
    # direct bridges only), the bridging itself sound; and the removal requests travel over the removing worker's own session
    ctx.call(GR.bridging_sites, "9")
    ctx.call(GR.bridge_table, "9b")
    from . import atoms as A

    ctx.call(A.definitions, "9v", only=("shared_started_workers", "shared_finished_workers", "shared_results"))
    from .c08 import session_identity

    ctx.call(session_identity, "10")


MUTANTS = [
    ("update-all-variants-on-every-worker", IS, "            for vm_object in worker_vm_objects:\n                try:\n                    clean_graph.flag_children(\n                        flag_state,", "            for vm_object in vm_objects:\n                try:\n                    clean_graph.flag_children(\n                        flag_state,", "2w"),
    ("update-bridges-chain", IS, "    for node1 in graph.nodes:\n        for node2 in graph.nodes:\n            if node1 == node2:\n                continue\n            if node1.bridged_form == node2.bridged_form:\n                if node1.id == node2.id:\n                    raise ValueError\n                node1.bridge_with_node(node2)",
     "    for i, node1 in enumerate(graph.nodes):\n        for node2 in graph.nodes[i + 1 :]:\n            if node1.bridged_form == node2.bridged_form:\n                if node1.id == node2.id:\n                    raise ValueError\n                node1.bridge_with_node(node2)\n                break", "9u"),
    ("intersection-run-sets-clean", "cartgraph/graph.py", "            logging.debug(f\"The test {test_node} is assigned custom {activity} policy\")\n            if flag_type == \"run\":\n                test_node.should_run = flag.__get__(test_node)\n            else:\n                test_node.should_clean = flag.__get__(test_node)\n\n    \"\"\"parse and get",
     "            logging.debug(f\"The test {test_node} is assigned custom {activity} policy\")\n            if flag_type != \"run\":\n                test_node.should_run = flag.__get__(test_node)\n            else:\n                test_node.should_clean = flag.__get__(test_node)\n\n    \"\"\"parse and get", "6t"),
    ("intersection-nonoverlap-stops", "cartgraph/graph.py", "                logging.debug(f\"Skip flag for non-overlapping {test_node}\")\n                continue", "                logging.debug(f\"Skip flag for non-overlapping {test_node}\")\n                break", "6"),
    ("flag-run-sets-clean", "cartgraph/graph.py", "            if flag_type == \"run\":\n                test_node.should_run = flag.__get__(test_node)\n            else:\n                test_node.should_clean = flag.__get__(test_node)\n            if not skip_children:",
     "            if flag_type != \"run\":\n                test_node.should_run = flag.__get__(test_node)\n            else:\n                test_node.should_clean = flag.__get__(test_node)\n            if not skip_children:", "7t"),
    ("flag-root-selection-swapped", "cartgraph/graph.py", "        elif node_name == \"\":\n            root_tests = self.get_nodes(\n                param_key=\"object_root\",", "        elif node_name != \"\":\n            root_tests = self.get_nodes(\n                param_key=\"object_root\",", "7t"),
    ("flag-ambiguous-root-tolerated", "cartgraph/graph.py", "        elif len(root_tests) > 1:\n            raise AssertionError(\n                f\"Could not identify node with name {node_name} and flag all its children tests\"\n            )\n        else:\n            test_node = root_tests[0]", "        else:\n            test_node = root_tests[0]", "7"),
    ("flag-worker-filter-inverted", "cartgraph/graph.py", "        if worker_name != \"\":\n            root_tests = self.get_nodes(\n                param_key=\"name\",", "        if worker_name == \"\":\n            root_tests = self.get_nodes(\n                param_key=\"name\",", "7t"),
    ("remove-set-from-global-params", "intertest_setup.py", "setup_str = vm_params.get(\"remove_set\", \"leaves\")", "setup_str = config[\"vms_params\"].get(\"remove_set\", \"leaves\")", "5v"),
    ("permanent-vm-never-cleaned", "cartgraph/node.py", "if object_state == \"install\" and test_object.is_permanent():\n                should_clean = False", "if test_object.is_permanent():\n                should_clean = False", "8"),
    ("clean-not-cleared", IS, "            clean_graph.flag_intersection(\n                clean_graph, flag_type=\"clean\", flag=lambda self, slot: False\n            )\n", "", "1"),
    ("target-itself-cleaned", IS, "                        flag=lambda self, slot: len(self.cloned_nodes) == 0,\n                        skip_parents=True,", "                        flag=lambda self, slot: len(self.cloned_nodes) == 0,\n                        skip_parents=False,", "2"),
    ("clean-all-workers", IS, "                        vm_object.component_form + r\".*\" + worker.id,\n                        flag_type=\"clean\",", "                        vm_object.component_form,\n                        flag_type=\"clean\",", "2"),
    ("unknown-state-ignored", IS, "                    logging.error(error)\n                    raise ValueError(\n                        f\"Could not identify a test node from {vm_name}'s to_state='{flag_state}', \"\n                        f\"is it compatible with the default or specified remove_set?\"\n                    )", "                    logging.error(error)", "3"),
    ("bogus-from-state-tolerated", IS, "                skip_graph = l.parse_object_trees(\n                    worker=worker,\n                    restriction=param.re_str(\"all..\" + from_state),\n                    prefix=tag,\n                    object_restrs={vm_name: config[\"vm_strs\"][vm_name]},\n                    params=setup_dict,\n                    verbose=False,\n                )",
     "                try:\n                    skip_graph = l.parse_object_trees(\n                        worker=worker,\n                        restriction=param.re_str(\"all..\" + from_state),\n                        prefix=tag,\n                        object_restrs={vm_name: config[\"vm_strs\"][vm_name]},\n                        params=setup_dict,\n                        verbose=False,\n                    )\n                except param.EmptyCartesianProduct as error:\n                    logging.warning(error)\n                    continue", "3b"),
    ("run-before-from-state", IS, "                clean_graph.flag_intersection(\n                    skip_graph, flag_type=\"run\", flag=lambda self, slot: False\n                )\n", "", "4"),
    ("from-state-children-rerun", IS, "                            or self.should_rerun(slot),\n                            skip_children=True,", "                            or self.should_rerun(slot),\n                            skip_children=False,", "4"),
    ("other-vms-parsed", IS, "            setup_dict[\"vms\"] = vm_name\n", "", "5"),
    ("modes-not-forced", IS, "            setup_dict.update({\"get_mode\": \"ra\", \"set_mode\": \"ff\", \"unset_mode\": \"fi\"})", "            setup_dict.update({\"get_mode\": \"ra\", \"set_mode\": \"ff\"})", "5"),
    ("ambiguous-intersection-flagged", GRAPH, "            elif len(matching_nodes) > 1:\n                raise ValueError(\n                    f\"Cannot map {test_node} into a unique test node from {graph}\"\n                )\n", "", "6"),
    ("children-missing-root-ok", GRAPH, "        if len(root_tests) < 1:\n            raise AssertionError(\n                f\"Could not retrieve node with name {node_name} and flag all its children tests\"\n            )\n        elif len(root_tests) > 1:", "        if len(root_tests) < 1:\n            return\n        elif len(root_tests) > 1:", "7"),
    ("vm-substring-match", GRAPH, "                    param_val=r\"(?:^|\\s)\" + object_name + r\"(?:$|\\s)\",", "                    param_val=object_name,", "7s"),
]
