"""C06 — the parsed dependency graph is well formed."""
from . import graphrules as GR
from . import nodetables as N

EXPLANATION = (
    "Acyclicity, reachability and uniqueness of producers depend on what the Cartesian parser returns for an input and "
    "are not decidable statically. Decided are the invariants that hold by construction for every input: dependencies are "
    "recorded on both ends by a single owner (no deletion, read-only public views), the node list and its name index have "
    "one writer that registers every element in both, every freshly resolved node is validated and the validation raises "
    "in every documented inconsistency, every parentless node is attached to the one never-run shared root (also on lazy "
    "expansion), an already attached setup node is reused as dependency only for the very same object, clone sources are "
    "never runnable."
)
DECIDED = [
    "C06.1 edges written symmetrically in descend_from_node only; no deletions; read-only views",
    "C06.2 node/object lists and indices have a single writer registering each element in both",
    "C06.3 validate() is called on every node yielded by parse_paths_to_object_roots (eager and lazy sites); lazy object roots attached to the shared root first",
    "C06.4 raise table of TestNode.validate (12 rows) and the quantities it compares",
    "C06.5 shared root: every node without setup nodes descends from the unique, registered, never-run root",
    "C06.6 clone sources / flat nodes are never run, cleaned or rerun (first rows of the three decision tables)",
    "C06.10 cloning of multi-producer branches: one clone per producer built from its own clone source, dependants re-queued against that source, at any depth",
    "C06.7 get_dependency accepts a setup node only for the same object (identity or long suffix) and matching name/state",
    "C06.7p/7t the parents of a test are looked up / parsed for exactly the declared state; a cached single candidate is reused only for a unique dependency",
    "C06.11 is_flat / is_object_root / is_shared_root / id definitions; read-only bridged/cloned views; fresh per-node edge containers",
    "C06.10g every round of the cloning work list marks the clone source and queues its dependants",
]
NOT_DECIDED = ["acyclicity", "reachability of every node", "exactly one producer per required state", "uniqueness of identities for all inputs"]
MIN_INSTANCES = 30


def run(ctx):
    ctx.call(GR.edge_symmetry, "1")
    ctx.call(GR.index_consistency, "2")
    ctx.call(GR.validate_coverage, "3")
    ctx.call(GR.validate_table, "4")
    ctx.call(GR.shared_root, "5")
    from ..kinds import signature_defaults

    ctx.call(signature_defaults, "5d", {
        "cartgraph/graph.py:TestGraph.parse_object_trees": {"with_shared_root": "True", "restriction": "''", "prefix": "''"},
        "cartgraph/node.py:TestNode.get_terminal_object": {"key": "'object_root'"},
    }, "complete graphs get their shared root by default")
    ctx.call(N.run_decision_table, "6r")
    ctx.call(N.clean_decision_table, "6c")
    ctx.call(GR.dependency_lookup, "7")
    ctx.call(GR.object_root_value, "14")
    ctx.call(GR.dependency_provenance, "7p")
    ctx.call(GR.dependency_table, "7t")
    ctx.call(GR.identity_forms, "8")
    ctx.call(GR.name_forms, "8n")
    ctx.call(GR.node_objects, "9")
    ctx.call(GR.cloning, "10")
    ctx.call(GR.worker_symmetry, "12")
    ctx.call(GR.flat_expansion, "13")
    from . import atoms as A

    ctx.call(A.definitions, "11", only=('is_flat','is_object_root','is_shared_root','bridged_nodes','cloned_nodes','id'))
    ctx.call(A.fresh_state, "11f")


NODE = "cartgraph/node.py"
G = "cartgraph/graph.py"
MUTANTS = [
    ("clone-source-unmarked-when-all-reused", G, "            # NOTE: the graph and node index are purely additive and node could be parsed again\n            clone_source.clone_as_source(clones)", "            if len(new_clones) == 0:\n                continue\n            clone_source.clone_as_source(clones)", "10g"),
    ("reused-clones-registered-again", G, "                self.new_nodes(new_clones)", "                self.new_nodes(clones)", "10"),
    ("reused-clones-returned-again", G, "                test_nodes.extend(new_clones)", "                test_nodes.extend(clones)", "10"),
    ("one-sided-edge", NODE, "        self._setup_nodes[test_node] = self._setup_nodes.get(test_node, set()) | {\n            test_object\n        }\n",
     "        if test_node in self._setup_nodes:\n            self._setup_nodes[test_node] = self._setup_nodes[test_node] | {test_object}\n            return\n        self._setup_nodes[test_node] = self._setup_nodes.get(test_node, set()) | {\n            test_object\n        }\n", "1"),
    ("edge-deleted-elsewhere", NODE, "        self._dropped_setup_nodes.register(test_node, worker)", "        self._dropped_setup_nodes.register(test_node, worker)\n        self._setup_nodes.pop(test_node, None)", "1"),
    ("index-not-updated", G, "            self.nodes_index.insert(test_node)\n            self._nodes.append(test_node)", "            if test_node.is_flat():\n                self.nodes_index.insert(test_node)\n            self._nodes.append(test_node)", "2"),
    ("no-lazy-validate", G, "                            parent.descend_from_node(root, parent.get_terminal_object())\n                    current.validate()", "                            parent.descend_from_node(root, parent.get_terminal_object())", "3"),
    ("lazy-roots-detached", G, "                    for parent in parents:\n                        if parent.is_object_root():\n                            parent.descend_from_node(root, parent.get_terminal_object())\n", "", "3r"),
    ("validate-incompatible-state-ok", NODE, "                if object_state != object_params[\"get_state\"]:\n                    raise ValueError(\n                        f\"Detected incompatible dependency {object_state} via {dependency_object} of {self}\"\n                    )", "                pass", "4"),
    ("validate-one-direction", NODE, "        if len(attr_vms - param_vms) > 0:", "        if len(attr_vms - param_vms) > 1:", "4"),
    ("root-runnable", G, "        root_for_all.should_run = lambda x: False\n", "", "5"),
    ("dependency-by-short-suffix", NODE, "node_object_suffices = [t.long_suffix for t in test_node.objects]", "node_object_suffices = [t.suffix for t in test_node.objects]", "7"),
    ("clone-objects-from-branch-root", G, "child.set_objects_from_net(clone_source.objects[0])", "child.set_objects_from_net(test_node.objects[0])", "10c"),
    ("grandchildren-replace-branch-root", G, "to_clone.append((grandchild, clones, clone_source))", "to_clone.append((grandchild, clones, test_node))", "10g"),
    ("P-edge-helper-var", NODE, "        self._setup_nodes[test_node] = self._setup_nodes.get(test_node, set()) | {\n            test_object\n        }\n",
     "        logging.debug('descending')\n        self._setup_nodes[test_node] = self._setup_nodes.get(test_node, set()) | {\n            test_object\n        }\n", None),
]
