"""C17 — a vm state exists exactly when all of the vm's images have it."""

from __future__ import annotations

import ast
import itertools
import random
import re

from .. import norm, rx
from ..ctx import Ctx
from ..facts import PathView
from ..kinds import expr_formula, function_views, guard_rule, loop_iteration_views, names_interesting, the_loop
from ..paths import first_line
from ..repo import AnalysisError, call_name, calls_in

Q = "states/qcow2.py"
R = "states/ramfile.py"
SITES = ((f"{Q}:QCOW2VTBackend.show", "vm state listing of the qcow2vt backend"),
         (f"{R}:RamfileBackend._show", "vm state listing of the ramfile backend"))
INTERSECTION_METHODS = {"intersection", "intersection_update"}

EXPLANATION = (
    "Decides, from the source, that the cross-image combination in both vm-level listings is an intersection on every "
    "path: the accumulator is initialised from the first image under a sentinel test that an empty intermediate result "
    "cannot satisfy, combined with an intersection-class operator that exists on the inferred builtin type, and the "
    "result is derived from every image; the memory-file listing is additionally guarded by membership in that "
    "intersection. The ON/OFF snapshot regexes are compared as regular languages (Brzozowski derivatives with "
    "intersection/complement) against a stated model of `qemu-img snapshot -l` lines: disjoint, and classifying by "
    "vm-state size. Real qemu output outside the model is an assumption."
)
DECIDED = [
    "C17.1 every attribute used on the cross-image accumulator exists on its inferred builtin type(s)",
    "C17.2 accumulator = first image's states, then intersection only; the 'first image' test is not an emptiness test",
    "C17.3 ramfile: a memory state is listed only if its name is in the image intersection; names are '<entry minus .state>'",
    "C17.4 ON/OFF regex languages vs the qemu-img line model: disjoint; '0 B' lines are OFF only; non-zero sizes are ON only",
    "C17.6 the per-image operations behind a vm-level ramfile state are local ones (KNOWN FINDING F24: the pool-routing public operations are used)",
    "C17.5 qcow2ext listing: a state per '*.qcow2' entry; backend class constants select the ON/OFF pattern",
    "C17.7w the vm-level parameters name all images (the object iteration does not write its input); C17.2z companion snapshots of size 0 must not veto a vm state (known finding F41)",
    'C17.8 os.stat of a listed state file is guarded by its existence (a dangling link hides nothing else)',
    "C17.5/C17.3 the directory listings accept exactly the entries ending with the state suffix (decided on the language of accepted names: endswith / regular expressions) and name the state '<entry minus suffix>'",
]
NOT_DECIDED = ["qemu-img output outside the stated line model", "captured group text under backtracking", "matches spanning several lines"]
ASSUMPTIONS = ["line model of `qemu-img snapshot -l`: ID, spaces, TAG [\\w.-]+, spaces, VM SIZE ('0 B' or %0.3g value + unit), spaces, DATE yyyy-mm-dd, rest"]
MIN_INSTANCES = 12


# ---------------------------------------------------------------------- type-lite
def _type_of(expr: ast.AST, defs: dict[str, list[ast.AST]], depth: int = 0) -> set[str]:
    """Builtin container type(s) an expression may have: {"set","list","none","?"}."""
    if depth > 4:
        return {"?"}
    if isinstance(expr, ast.Constant) and expr.value is None:
        return {"none"}
    if isinstance(expr, (ast.Set, ast.SetComp)):
        return {"set"}
    if isinstance(expr, (ast.List, ast.ListComp)):
        return {"list"}
    if isinstance(expr, ast.Call):
        name = call_name(expr)
        if isinstance(expr.func, ast.Name) and name in ("set", "frozenset"):
            return {"set"}
        if isinstance(expr.func, ast.Name) and name in ("list", "sorted"):
            return {"list"}
        if isinstance(expr.func, ast.Attribute):
            if name in ("intersection", "union", "difference", "symmetric_difference", "copy"):
                return _type_of(expr.func.value, defs, depth + 1) & {"set", "list", "?"} or {"?"}
            if name == "show":
                # annotated `-> list[str]` for every image backend of the package
                return {"list"}
    if isinstance(expr, ast.BinOp) and isinstance(expr.op, (ast.BitAnd, ast.BitOr, ast.Sub)):
        return _type_of(expr.left, defs, depth + 1)
    if isinstance(expr, ast.IfExp):
        return _type_of(expr.body, defs, depth + 1) | _type_of(expr.orelse, defs, depth + 1)
    if isinstance(expr, ast.Name):
        out: set[str] = set()
        for d in defs.get(expr.id, []):
            out |= _type_of(d, defs, depth + 1)
        return out or {"?"}
    return {"?"}


def _defs(fn: ast.AST) -> dict[str, list[ast.AST]]:
    out: dict[str, list[ast.AST]] = {}
    for n in ast.walk(fn):
        if isinstance(n, ast.Assign) and len(n.targets) == 1 and isinstance(n.targets[0], ast.Name):
            out.setdefault(n.targets[0].id, []).append(n.value)
    return out


def _image_loop(ctx: Ctx, fref: str):
    return the_loop(ctx, fref, ast.For, lambda l: ast.unparse(l.iter) == "params.objects('images')", "loop over the vm's images")


def _accumulator(fn: ast.AST, loop: ast.For) -> str:
    """The name assigned in the image loop whose value is used after the loop."""
    assigned = [n.targets[0].id for n in ast.walk(loop) if isinstance(n, ast.Assign) and len(n.targets) == 1 and isinstance(n.targets[0], ast.Name)]
    after = []
    seen = False
    for s in fn.body:
        if s is loop:
            seen = True
            continue
        if seen:
            after.append(s)
    used_after = {n.id for s in after for n in ast.walk(s) if isinstance(n, ast.Name) and isinstance(n.ctx, ast.Load)}
    cands = [a for a in dict.fromkeys(assigned) if a in used_after]
    if len(cands) != 1:
        raise AnalysisError(f"cannot identify the cross-image accumulator: {cands}")
    return cands[0]


def accumulator_rules(ctx: Ctx, rule1: str, rule2: str) -> None:
    for fref, what in SITES:
        fn = ctx.repo.func(fref)
        loop = _image_loop(ctx, fref)
        acc = _accumulator(fn.node, loop)
        defs = _defs(fn.node)
        # C17.1: attributes used on the accumulator exist on every inferred type
        types = _type_of(ast.Name(id=acc, ctx=ast.Load()), defs)
        uses = [n for n in ast.walk(fn.node) if isinstance(n, ast.Attribute) and isinstance(n.value, ast.Name) and n.value.id == acc]
        bad = []
        for u in uses:
            for t in types:
                if t in ("set", "list") and not hasattr({"set": set, "list": list}[t], u.attr):
                    bad.append((u.attr, t))
        ctx.record(rule1, "TYPE", fref, f"attributes used on accumulator `{acc}` ({sorted(types)}): {sorted({u.attr for u in uses})}", not bad,
                   {"types": sorted(types)}, "" if not bad else f"`{acc}.{bad[0][0]}` does not exist on builtin {bad[0][1]} ({what})")
        # C17.2: per-iteration paths: init from the image listing under a non-emptiness sentinel, else intersection
        views = loop_iteration_views(ctx, fref, loop, None)
        problems = []
        n_init = n_comb = 0
        for v in views:
            stores = [(i, s) for i, s in v.stmts(lambda s: isinstance(s, (ast.Assign, ast.AugAssign)) and acc in {
                t.id for t in ast.walk(s.targets[0] if isinstance(s, ast.Assign) else s.target) if isinstance(t, ast.Name)})]
            if len(stores) != 1:
                problems.append((f"{len(stores)} updates of the accumulator on one pass over an image", v))
                continue
            i, s = stores[0]
            listing = None
            # the per-image listing: a `.show(image_params...)` call reachable through local definitions
            val = s.value
            cval = v.canon(val, i)
            shows = [c for c in ast.walk(cval) if isinstance(c, ast.Call) and call_name(c) == "show"]
            if not shows:
                problems.append(("the accumulator update does not involve the image's state listing", v))
                continue
            reads_acc = acc in {n.id for n in ast.walk(val) if isinstance(n, ast.Name)} or isinstance(s, ast.AugAssign)
            if not reads_acc:
                n_init += 1
                prem = v.premise(i, 0)
                empt = ("atom", f"empty({acc})")
                atoms = norm.atoms_of(prem)
                if f"empty({acc})" in atoms or acc in atoms:
                    problems.append(("the first-image test is an emptiness/truthiness test: an empty intersection re-initialises from the next image", v))
                elif not norm.implies(prem, ("atom", f"{acc} is None")):
                    problems.append(("the accumulator is re-initialised from an image without a 'not started' sentinel test", v))
            else:
                n_comb += 1
                ok = False
                if isinstance(s, ast.AugAssign):
                    ok = isinstance(s.op, ast.BitAnd)
                elif isinstance(val, ast.BinOp):
                    ok = isinstance(val.op, ast.BitAnd)
                elif isinstance(val, ast.Call) and isinstance(val.func, ast.Attribute):
                    ok = val.func.attr in INTERSECTION_METHODS and (
                        (isinstance(val.func.value, ast.Name) and val.func.value.id in (acc, "set")))
                if not ok:
                    problems.append((f"images are combined with something other than an intersection: {first_line(s)}", v))
        if n_init < 1 or n_comb < 1:
            problems.append((f"missing initialisation or combination path (init {n_init}, combine {n_comb})", views[0]))
        ctx.record(rule2, "TABLE", fref, f"`{acc}` = first image's states under an `is None` sentinel, afterwards intersection with each image's states",
                   not problems, {"paths": len(views), "init_paths": n_init, "combine_paths": n_comb,
                                  **({"path": problems[0][1].path.describe()} if problems else {})},
                   "" if not problems else problems[0][0] + f" ({what})")
        # the accumulator starts as the sentinel and every image is visited (no break/continue/return in the loop)
        init = [d for d in defs.get(acc, []) if isinstance(d, ast.Constant) and d.value is None]
        esc = [n for n in ast.walk(loop) if isinstance(n, (ast.Break, ast.Continue, ast.Return))]
        ctx.record(rule2 + "b", "COUNT", fref, f"`{acc}` starts as None; the image loop has no early exit (every image contributes)",
                   len(init) == 1 and not esc, {}, "" if len(init) == 1 and not esc else "not every image of the vm contributes to the vm state listing")


def vt_result(ctx: Ctx, rule: str) -> None:
    fref = SITES[0][0]
    fn = ctx.repo.func(fref)
    loop = _image_loop(ctx, fref)
    acc = _accumulator(fn.node, loop)
    rets = [r for r in ast.walk(fn.node) if isinstance(r, ast.Return)]
    ok = len(rets) == 1 and {n.id for n in ast.walk(rets[0].value) if isinstance(n, ast.Name)} <= {acc, "set", "list", "sorted"}
    ctx.record(rule, "PROV", fref, "the listing returned is the accumulator (empty for a vm without images)", ok,
               {"returns": ast.unparse(rets[0].value) if rets else None}, "" if ok else "the vm state listing is not the cross-image intersection")
    sup = [c for c in calls_in(loop) if call_name(c) == "show"]
    oks = len(sup) == 1 and ast.unparse(sup[0].func.value) == "super()" and ast.unparse(sup[0].args[0]) == "image_params"
    pin = [s for s in loop.body if isinstance(s, ast.Assign) and ast.unparse(s.targets[0]) == "image_params['images']" and ast.unparse(s.value) == loop.target.id]
    ctx.record(rule + "b", "PROV", fref, "per image: super().show(image_params) with image_params['images'] pinned to that image", oks and len(pin) == 1, {},
               "" if oks and len(pin) == 1 else "the per-image listing is not taken for exactly the iterated image")


def companion_snapshots(ctx: Ctx, rule: str) -> None:
    """savevm stores the vm state in one image and gives every other image a snapshot of the same name with vm-state size 0: 'every image
    carries a state of that name' must therefore intersect snapshot NAMES, with the size test (on vs off) as a separate question."""
    fref = SITES[0][0]
    fn = ctx.repo.func(fref)
    loop = _image_loop(ctx, fref)
    per_image = [s_ for s_ in loop.body if isinstance(s_, ast.Assign) and isinstance(s_.targets[0], ast.Name) and any(call_name(c) == "show" for c in calls_in(s_))]
    only_filtered = len(per_image) == 1 and ast.unparse(per_image[0].value) in ("set(super().show(image_params, object=object))", "super().show(image_params, object=object)") \
        and not any(call_name(c) in ("snapshot_list", "_parse_states") for c in calls_in(fn.node))
    ctx.record(rule, "TABLE", fref, "the per-image sets that are intersected are snapshot names of any vm-state size; 'running vm' (size > 0) is required of some image, not of every image",
               not only_filtered, {"per_image": [ast.unparse(s_.value) for s_ in per_image]},
               "" if not only_filtered else "every image's listing is filtered by vm-state size > 0 before intersecting: the 0-size companion snapshots that savevm leaves on the "
               "other images veto the vm state, so a vm with two or more images never lists a vm state")


def dead_links(ctx: Ctx, rule: str) -> None:
    """In link mode a cached state is a symlink into a pool; when the pool file is removed the link dangles.  Listing the states of an image
    must not die on such an entry (os.stat follows links), or one removed pool state blocks check/get/set of every other state of the image -
    including the download that would repair the link."""
    from ..kinds import guard_rule, function_views, names_interesting, expr_formula

    for fref in ("states/qcow2.py:QCOW2ExtBackend._show", "states/ramfile.py:RamfileBackend._show"):
        fn = ctx.repo.func(fref)
        ctx.touch(fref)
        views = function_views(ctx, fref, names_interesting({"stat", "exists", "lexists", "islink", "listdir"}))
        tolerant = any(isinstance(t, ast.Try) and any(call_name(c) == "stat" for b_ in t.body for c in calls_in(b_))
                       and any(h.type is not None and ("FileNotFoundError" in ast.unparse(h.type) or "OSError" in ast.unparse(h.type)) for h in t.handlers) for t in ast.walk(fn.node))
        if tolerant:
            ctx.record(rule, "GUARD", fref, "os.stat of a listed state file tolerates a dangling link", True, {}, "")
            continue
        guard_rule(ctx, rule, fref, views, lambda c: call_name(c) == "stat" and ast.unparse(c.func.value) == "os",
                   lambda v, i, c: expr_formula(v, i, f"os.path.exists({ast.unparse(c.args[0])})"),
                   min_sites=1, missing_is_violation=True, what="os.stat of a listed state file",
                   describe_required="the entry exists (a dangling link left by a removed pool state is skipped)")


def _state_name(loop: ast.For, accepted: list[str]) -> tuple[bool, str]:
    """The single assignment to `state` in the loop, with single-assigned locals of the loop substituted."""
    names = [s for s in ast.walk(loop) if isinstance(s, ast.Assign) and ast.unparse(s.targets[0]) == "state"]
    if len(names) != 1:
        return False, f"{len(names)} assignments to `state`"
    local = {}
    for s in ast.walk(loop):
        if isinstance(s, ast.Assign) and len(s.targets) == 1 and isinstance(s.targets[0], ast.Name) and s.targets[0].id != "state":
            local.setdefault(s.targets[0].id, []).append(s.value)

    class Sub(ast.NodeTransformer):
        def visit_Name(self, node):
            if node.id in local and len(local[node.id]) == 1:
                return self.visit(ast.parse(ast.unparse(local[node.id][0]), mode="eval").body)
            return node

    got = ast.unparse(Sub().visit(ast.parse(ast.unparse(names[0].value), mode="eval").body))
    return got in accepted or ast.unparse(names[0].value) in accepted, got


def _module_regexes(ctx: Ctx, mod: str) -> dict[str, tuple[str, int]]:
    out = {}
    for s in ctx.repo.module(mod).body:
        if isinstance(s, ast.Assign) and len(s.targets) == 1 and isinstance(s.targets[0], ast.Name) and isinstance(s.value, ast.Call) \
                and ast.unparse(s.value.func) == "re.compile" and s.value.args and isinstance(s.value.args[0], ast.Constant) and isinstance(s.value.args[0].value, str):
            flags = 0
            for fl in list(s.value.args[1:]) + [kw.value for kw in s.value.keywords if kw.arg == "flags"]:
                for part in ast.unparse(fl).split("|"):
                    flags |= getattr(re, part.strip().split(".")[-1], 0)
            out[s.targets[0].id] = (s.value.args[0].value, flags)
    return out


def suffix_filter(ctx: Ctx, mod: str, loop: ast.For, snap: str, ext: str):
    """The entry filter of a state directory listing, decided by the language of accepted file names rather than by its spelling.

    Recognised tests of the entry `snap`: `snap.endswith(K)`, `R.match/fullmatch/search(snap)` of a module-level compiled pattern and
    `re.match/fullmatch/search(P, snap)`.  A test qualifies when the accepted names all end with `ext` and every `<state name><ext>` is accepted.
    returns (formula texts of qualifying tests, accepted name expressions, notes about tests that do not qualify)"""
    regexes = _module_regexes(ctx, mod)
    want_sup = rx.cat(rx.SIGMA_STAR, rx.literal(ext))
    model = rx.exact_language(r"[\w.-]+" + re.escape(ext))
    formulas, names, notes = [], [], []
    for c in calls_in(loop):
        f = c.func
        if not isinstance(f, ast.Attribute):
            continue
        lang = None
        if f.attr == "endswith" and ast.unparse(f.value) == snap and len(c.args) == 1 and isinstance(c.args[0], ast.Constant) and isinstance(c.args[0].value, str):
            k = c.args[0].value
            lang, what = rx.cat(rx.SIGMA_STAR, rx.literal(k)), f"endswith({k!r})"
            nm = [f"{snap}[:-{len(k)}]", f"{snap}[:-len({k!r})]", f"{snap}.removesuffix({k!r})", f"{snap}[:len({snap}) - {len(k)}]"]
            if k.count(".") == 1 and k.startswith("."):
                nm.append(f"os.path.splitext({snap})[0]")
        elif f.attr in ("match", "fullmatch", "search"):
            if ast.unparse(f.value) == "re" and len(c.args) >= 2 and isinstance(c.args[0], ast.Constant) and ast.unparse(c.args[1]) == snap:
                pat, flags = c.args[0].value, 0
            elif isinstance(f.value, ast.Name) and f.value.id in regexes and len(c.args) == 1 and ast.unparse(c.args[0]) == snap:
                pat, flags = regexes[f.value.id]
            else:
                continue
            try:
                lang, what = rx.call_language(pat, flags, f.attr), f"{f.attr} of {pat!r}"
            except AnalysisError as e:
                notes.append(f"pattern {pat!r} is outside the analysed regex subset ({e})")
                continue
            call = ast.unparse(c)
            nm = [f"{call}.group(1)", f"{call}[1]"] if rx.group_then_suffix(pat, flags, f.attr, ext) else []
        if lang is None:
            continue
        only, wit1, _ = rx.is_empty(rx.conj([lang, rx.neg(want_sup)]))
        every, wit2, _ = rx.subset(model, lang)
        if only and every:
            call = ast.unparse(c)
            formulas += [call, f"{call} is not None"]
            names += nm
        elif not only:
            notes.append(f"{what} accepts the entry {wit1!r} that does not end with {ext!r}")
        else:
            notes.append(f"{what} rejects the state file {wit2!r}")
    return formulas, names, notes


def ramfile_guard(ctx: Ctx, rule: str) -> None:
    fref = SITES[1][0]
    fn = ctx.repo.func(fref)
    loop = _image_loop(ctx, fref)
    acc = _accumulator(fn.node, loop)
    snap_loop = the_loop(ctx, fref, ast.For, lambda l: isinstance(l.iter, ast.Name) and l is not loop, "loop over the memory state files")
    snap = snap_loop.target.id
    views = loop_iteration_views(ctx, fref, snap_loop, None)

    tests, name_forms, notes = suffix_filter(ctx, R, snap_loop, snap, ".state")

    def required(v: PathView, i: int, c: ast.Call):
        suffix = norm.disj([expr_formula(v, i, t) for t in tests]) if tests else expr_formula(v, i, f"{snap}.endswith('.state')")
        return norm.conj([expr_formula(v, i, f"{ast.unparse(c.args[0])} in {acc}"), suffix])

    guard_rule(ctx, rule, fref, views, lambda c: call_name(c) in ("append", "add") and ast.unparse(c.func.value) == "states", required,
               min_sites=1, missing_is_violation=True, what="states.append(<state>)",
               describe_required="the memory file's state name is in the image intersection and the entry ends with '.state'" + "".join(f"; {n}" for n in notes))
    ok, got = _state_name(snap_loop, name_forms)
    ctx.record(rule + "n", "CONST", fref, "state name = directory entry minus the suffix '.state'", ok, {"accepted": name_forms, "found": got},
               "" if ok else f"memory state names are no longer '<entry minus .state>': {got}")
    src = [s for s in fn.node.body if isinstance(s, ast.Assign) and ast.unparse(s.targets[0]) == snap_loop.iter.id]
    oks = len(src) == 1 and ast.unparse(src[0].value) == "os.listdir(vm_dir)"
    rets = [r for r in ast.walk(fn.node) if isinstance(r, ast.Return)]
    oks = oks and len(rets) == 1 and ast.unparse(rets[0].value) == "states"
    ctx.record(rule + "s", "PROV", fref, "candidates are the entries of the vm's state directory; the list built under the guard is returned", oks, {},
               "" if oks else "the ramfile listing no longer comes from the vm's state directory entries")
    # image listings come from the configured image backend
    sup = [c for c in calls_in(loop) if call_name(c) == "show"]
    okb = len(sup) == 1 and ast.unparse(sup[0].func.value) == "cls.image_state_backend" and ast.unparse(sup[0].args[0]) == "image_params"
    pin = [s for s in loop.body if isinstance(s, ast.Assign) and ast.unparse(s.targets[0]) == "image_params['images']" and ast.unparse(s.value) == loop.target.id]
    ctx.record(rule + "b", "PROV", fref, "per image: cls.image_state_backend.show(image_params) with the image pinned", okb and len(pin) == 1, {},
               "" if okb and len(pin) == 1 else "the per-image listing is not taken for exactly the iterated image")


# ---------------------------------------------------------------------- regexes
MODEL_SIZE0 = r"0 B"
MODEL_SIZEP = r"(?:[1-9]\d{0,2}(?:\.\d{1,2})?|0\.\d{1,3}|\de\+\d\d) (?:B|KiB|MiB|GiB|TiB|PiB|EiB)"


def _model(size: str):
    return rx.exact_language(r"\d+ +[\w.-]+ +" + size + r" +\d{4}-\d\d-\d\d(?: [ -~]*)?")


def _regex_constants(ctx: Ctx) -> dict[str, tuple[str, int]]:
    tree = ctx.repo.module(Q)
    out = {}
    for s in tree.body:
        if isinstance(s, ast.Assign) and len(s.targets) == 1 and isinstance(s.targets[0], ast.Name) and s.targets[0].id.endswith("_STATES_REGEX"):
            c = s.value
            if not (isinstance(c, ast.Call) and ast.unparse(c.func) == "re.compile" and c.args and isinstance(c.args[0], ast.Constant)):
                raise AnalysisError(f"{s.targets[0].id} is not a literal re.compile(...)")
            flags = 0
            for kw in c.keywords:
                if kw.arg == "flags":
                    for part in ast.unparse(kw.value).split("|"):
                        flags |= getattr(re, part.strip().split(".")[-1])
            if len(c.args) > 1:
                for part in ast.unparse(c.args[1]).split("|"):
                    flags |= getattr(re, part.strip().split(".")[-1])
            out[s.targets[0].id] = (c.args[0].value, flags)
    if not {"QEMU_ON_STATES_REGEX", "QEMU_OFF_STATES_REGEX"} <= set(out):
        raise AnalysisError(f"snapshot regex constants not found: {sorted(out)}")
    return out


def regex_rules(ctx: Ctx, rule: str) -> None:
    consts = _regex_constants(ctx)
    (on_p, on_f), (off_p, off_f) = consts["QEMU_ON_STATES_REGEX"], consts["QEMU_OFF_STATES_REGEX"]
    ok_flags = bool(on_f & re.MULTILINE) and bool(off_f & re.MULTILINE)
    ctx.record(rule + "f", "CONST", Q, "both snapshot patterns are compiled with re.MULTILINE (one match per listing line)", ok_flags, {},
               "" if ok_flags else "a snapshot pattern lost re.MULTILINE: only the first listing line could match")
    l_on = rx.line_match_language(on_p, on_f)
    l_off = rx.line_match_language(off_p, off_f)
    m0, mp = _model(MODEL_SIZE0), _model(MODEL_SIZEP)
    checks = [
        ("a", "no modelled listing line is matched by both patterns", rx.is_empty(rx.conj([l_on, l_off, rx.alt([m0, mp])]))),
        ("b", "every '0 B' (stopped image) line is matched by the OFF pattern", rx.subset(m0, l_off)),
        ("c", "no '0 B' line is matched by the ON pattern", rx.is_empty(rx.conj([m0, l_on]))),
        ("d", "every line with a non-zero vm-state size is matched by the ON pattern", rx.subset(mp, l_on)),
        ("e", "no line with a non-zero vm-state size is matched by the OFF pattern", rx.is_empty(rx.conj([mp, l_off]))),
    ]
    states = 0
    for tag, text, (ok, wit, n) in checks:
        states += n
        ctx.record(rule + tag, "REGEX", f"{Q}:QEMU_ON/OFF_STATES_REGEX", text, ok, {"automaton_states": n, **({"counterexample_line": wit} if wit else {})},
                   "" if ok else f"{text}: fails for the listing line {wit!r}")
    ctx.extra["regex_automaton_states"] = states
    # group 1 is the tag in both patterns
    for name in ("QEMU_ON_STATES_REGEX", "QEMU_OFF_STATES_REGEX"):
        p, f = consts[name]
        groups = re.compile(p, f).groups
        ctx.record(rule + "g", "CONST", f"{Q}:{name}", "two capture groups: (tag)(vm size)", groups == 2, {"groups": groups},
                   "" if groups == 2 else "the capture groups of a snapshot pattern changed: show() reads group 0 as the state name")
    # which pattern each backend uses
    fref = f"{Q}:QCOW2Backend.show"
    fn = ctx.repo.func(fref)
    ctx.touch(fref)
    pat = [s for s in ast.walk(fn.node) if isinstance(s, ast.Assign) and ast.unparse(s.targets[0]) == "pattern"]
    okp = len(pat) == 1 and ast.unparse(pat[0].value) == "QEMU_ON_STATES_REGEX if cls._require_running_object else QEMU_OFF_STATES_REGEX"
    fa = [c for c in calls_in(fn.node) if call_name(c) == "findall"]
    okp = okp and len(fa) == 1 and ast.unparse(fa[0].args[0]) == "pattern"
    # the state name is the first group of every match: an element of the findall result, first component (indexed or unpacked)
    def first_component(target: ast.AST, elt: ast.AST) -> bool:
        if isinstance(target, ast.Name):
            return ast.unparse(elt) == f"{target.id}[0]"
        return isinstance(target, ast.Tuple) and len(target.elts) == 2 and isinstance(target.elts[0], ast.Name) and ast.unparse(elt) == target.elts[0].id

    found = {ast.unparse(fa[0])} if fa else set()
    found |= {ast.unparse(s_.targets[0]) for s_ in ast.walk(fn.node) if isinstance(s_, ast.Assign) and fa and s_.value is fa[0]}
    named_ok = False
    for l in ast.walk(fn.node):
        if isinstance(l, ast.For) and ast.unparse(l.iter) in found:
            app = [c for c in calls_in(l) if call_name(c) in ("append", "add")]
            named_ok = len(app) == 1 and first_component(l.target, app[0].args[0]) and not any(isinstance(x, (ast.Continue, ast.Break, ast.If)) for x in ast.walk(l))
        elif isinstance(l, (ast.ListComp, ast.SetComp)) and len(l.generators) == 1 and ast.unparse(l.generators[0].iter) in found:
            named_ok = first_component(l.generators[0].target, l.elt) and not l.generators[0].ifs
    okp = okp and named_ok
    ctx.record(rule + "p", "TABLE", fref, "pattern = ON if the backend requires a running object else OFF; state name = first group of each match", okp, {},
               "" if okp else "the selection of the snapshot pattern or of the state name in QCOW2Backend.show changed")
    flags = {}
    for cname in ("QCOW2Backend", "QCOW2ExtBackend", "QCOW2VTBackend"):
        c = ctx.repo.cls(f"{Q}:{cname}")
        for s in c.node.body:
            if isinstance(s, ast.Assign) and ast.unparse(s.targets[0]) == "_require_running_object":
                flags[cname] = ast.unparse(s.value)
    okc = flags == {"QCOW2Backend": "False", "QCOW2ExtBackend": "False", "QCOW2VTBackend": "True"}
    ctx.record(rule + "q", "CONST", Q, "image backends list stopped (OFF) snapshots, the vm backend running (ON) snapshots", okc, {"flags": flags},
               "" if okc else f"_require_running_object constants changed: {flags}")


def ext_listing(ctx: Ctx, rule: str) -> None:
    fref = f"{Q}:QCOW2ExtBackend._show"
    fn = ctx.repo.func(fref)
    loop = the_loop(ctx, fref, ast.For, lambda l: isinstance(l.iter, ast.Name), "loop over the image's snapshot files")
    snap = loop.target.id
    views = loop_iteration_views(ctx, fref, loop, None)
    tests, name_forms, notes = suffix_filter(ctx, Q, loop, snap, ".qcow2")
    guard_rule(ctx, rule, fref, views, lambda c: call_name(c) == "append" and ast.unparse(c.func.value) == "states",
               lambda v, i, c: norm.disj([expr_formula(v, i, t) for t in tests]) if tests else expr_formula(v, i, f"{snap}.endswith('.qcow2')"),
               min_sites=1, missing_is_violation=True,
               what="states.append(<state>)", describe_required="the directory entry ends with '.qcow2'" + "".join(f"; {n}" for n in notes))
    ok, got = _state_name(loop, name_forms)
    ctx.record(rule + "n", "CONST", fref, "state name = entry minus the suffix '.qcow2'", ok, {"accepted": name_forms, "found": got},
               "" if ok else f"external state names are no longer '<entry minus .qcow2>': {got}")


def engine_selftest(ctx: Ctx, seed: int) -> dict:
    """Differential self-test of the regular-language engine against CPython's re on sampled lines."""
    consts = _regex_constants(ctx)
    rng = random.Random(seed)
    alphabet = "0159 Be.-+_aK:i\t"
    mism = 0
    n = 0
    for name, (p, f) in consts.items():
        lang = rx.line_match_language(p, f)
        cre = re.compile(p, f & ~re.MULTILINE)
        seeds = ["1 snap 0 B 2021-01-01 10:00", "12  a.b-c   1.16 GiB 2021-01-01 x", "1 s 1e+03 MiB 2021-12-31", "3 10 0 B 2021-01-01"]
        for k in range(1500):
            if k < len(seeds):
                s = seeds[k]
            elif rng.random() < 0.5:
                base = list(rng.choice(seeds))
                for _ in range(rng.randint(1, 3)):
                    base[rng.randrange(len(base))] = rng.choice(alphabet)
                s = "".join(base)
            else:
                s = "".join(rng.choice(alphabet) for _ in range(rng.randint(0, 24)))
            t = lang
            for ch in s:
                t = rx.deriv(t, ord(ch))
            got = rx.nullable(t)
            want = cre.match(s) is not None
            n += 1
            if got != want:
                mism += 1
    return {"engine_vs_re_samples": n, "engine_vs_re_mismatches": mism}


def local_image_listing(ctx: Ctx, rule: str) -> None:
    """The per-image listing behind the completeness test is the image's *local* listing.

    RamfileBackend._show/_get/_set/_unset are the local halves of a pool-aware backend; the image backend they delegate to
    is pool-aware too.  Calling its public (pool-routing) operation with the vm's parameters lets pool content count as an
    image's states (a vm state is listed although an image lacks it locally and in the pool) and repeats transfers/removals
    per image.  Accepted: the image backend's local operation (`_show` ...), or the public one with pool_scope forced to 'own'."""
    for op in ("show", "get", "set", "unset"):
        fref = f"{R}:RamfileBackend._{op}"
        fn = ctx.repo.func(fref)
        ctx.touch(fref)
        calls = [c for c in calls_in(fn.node) if isinstance(c.func, ast.Attribute) and ast.unparse(c.func.value) == "cls.image_state_backend" and c.func.attr in (op, "_" + op)]
        if len(calls) != 1:
            raise AnalysisError(f"{fref}: expected one delegation to the image backend, found {len(calls)}")
        c = calls[0]
        local = c.func.attr.startswith("_")
        arg = ast.unparse(c.args[0]) if c.args else ""
        forced = any(isinstance(s_, ast.Assign) and ast.unparse(s_.targets[0]) == f"{arg}['pool_scope']" and isinstance(s_.value, ast.Constant) and s_.value.value == "own" and s_.lineno < c.lineno
                     for s_ in ast.walk(fn.node))
        ok = local or forced
        ctx.record(rule, "OWNER", fref, f"cls.image_state_backend.{c.func.attr}({arg}, ...)", ok, {"local_operation": local, "scope_forced_own": forced},
                   "" if ok else f"_{op} of the vm-level backend runs the image backend's pool-routing {op}() with the vm's pool parameters: pool content counts as the image's own states / is transferred or removed once per image")


def run(ctx: Ctx) -> None:
    ctx.call(local_image_listing, "6")
    from .c12 import iteration_isolation, iteration_order

    # the vm-level parameters the backends combine over: all images of the vm, components first
    ctx.call(iteration_isolation, "7w")
    ctx.call(iteration_order, "7")
    ctx.call(accumulator_rules, "1", "2")
    ctx.call(vt_result, "2r")
    ctx.call(companion_snapshots, "2z")
    ctx.call(ramfile_guard, "3")
    ctx.call(dead_links, "8")
    ctx.call(regex_rules, "4")
    ctx.call(ext_listing, "5")
    if ctx.tier == "thorough":
        st = engine_selftest(ctx, ctx.seed)
        ctx.extra.update(st)
        if st["engine_vs_re_mismatches"]:
            raise AnalysisError(f"regular-language engine disagrees with CPython re on {st['engine_vs_re_mismatches']} sampled lines")


MUTANTS = [
    ("image-listing-stats-dead-link", Q, "            if not os.path.exists(os.path.join(image_dir, snapshot)):\n                logging.warning(f\"Dead link {snapshot} in {image_dir} is not a state\")\n                continue\n", "", "8"),
    ("memory-listing-stats-dead-link", R, "            if not os.path.exists(os.path.join(vm_dir, snapshot)):\n                logging.warning(f\"Dead link {snapshot} in {vm_dir} is not a state\")\n                continue\n", "", "8"),
    ("iteration-writes-input", "states/setup.py", "        obj_params[params_obj_type] = params_obj_name\n", "        params[params_obj_type] = params_obj_name\n        obj_params[params_obj_type] = params_obj_name\n", "7w"),
    ("intersect-typo", Q, "states = states.intersection(image_states)", "states = states.intersect(image_states)", "1"),
    ("empty-sentinel", Q, "            if states is None:\n                states = image_states", "            if not states:\n                states = image_states", "2"),
    ("union-instead", R, "images_states = images_states.intersection(image_snapshots)", "images_states = images_states.union(image_snapshots)", "2"),
    ("first-image-only", Q, "                states = states.intersection(image_states)\n", "                states = states.intersection(image_states)\n                break\n", "2b"),
    ("memory-without-images", R, "            if state in images_states:\n                logging.debug(f\"Memory state '{snapshot}' is a complete vm state\")\n                states.append(state)",
     "            logging.debug(f\"Memory state '{snapshot}' is a complete vm state\")\n            states.append(state)", "3"),
    ("on-lookahead-dropped", Q, "\\s*(?!0 B)(\\d+e?", "\\s*(\\d+e?", "4"),
    ("off-size-any", Q, "\\s*(0 B)\\s+", "\\s*(\\d+ B)\\s+", "4"),
    ("vt-uses-off", Q, "    _require_running_object = True\n", "    _require_running_object = False\n", "4q"),
    ("multiline-lost", Q, "r\"^\\d+\\s+([\\w\\.-]+)\\s*(0 B)\\s+\\d{4}-\\d\\d-\\d\\d\", flags=re.MULTILINE", "r\"^\\d+\\s+([\\w\\.-]+)\\s*(0 B)\\s+\\d{4}-\\d\\d-\\d\\d\"", "4f"),
    ("qcow2-suffix-unanchored-regex", Q, "            if not snapshot.endswith(\".qcow2\"):\n", "            if not re.match(r\"[\\w.-]+\\.qcow2\", snapshot):\n", "5"),
    ("memory-suffix-without-dot", R, "            if not snapshot.endswith(\".state\"):\n", "            if not snapshot.endswith(\"state\"):\n", "3"),
    ("state-name-from-size-group", Q, "            states.append(state_tuple[0])", "            states.append(state_tuple[1])", "4p"),
    ("qcow2-suffix-filter", Q, "            if not snapshot.endswith(\".qcow2\"):\n                continue\n", "", "5"),
    ("P-and-operator", Q, "states = states.intersection(image_states)", "states = states & image_states", None),
    ("P-update", R, "images_states = images_states.intersection(image_snapshots)", "images_states &= image_snapshots", None),
]
