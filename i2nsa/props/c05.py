"""C05 — states are removed only after every dependant finished, and only if asked."""

from __future__ import annotations

import ast

from .. import norm
from ..ctx import Ctx
from ..facts import PathView, is_call_named
from ..kinds import (
    TableSpec,
    call_sites,
    function_views,
    guard_rule,
    loop_iteration_views,
    names_interesting,
    owner_rule,
    role_rename,
    table_rule,
    the_loop,
)
from ..paths import PathEnum, first_line
from ..repo import AnalysisError, call_name, calls_in
from . import nodetables as N
from . import traversal as T

NODE = "cartgraph/node.py"
SYNC = f"{NODE}:TestNode.sync_states"

EXPLANATION = (
    "Decides who may request a state removal (only sync_states, only with the constants 'unset'/'get'), under which "
    "policy row (only unset_mode f.), that the default pool_filter leads to no request at all, that reverse_node "
    "syncs only under should_clean, the full 'last worker closes the door' clean decision table, the readiness table "
    "for dependants, and the guards of the reversal in the traversal loop. When removal happens relative to other "
    "workers' dependants at run time is not decided."
)
DECIDED = [
    "C05.1 reverse_node calls sync_states only under should_clean(worker) and with stateful objects, inside the marker",
    "C05.2 the only door requests with an action other than 'check' come from sync_states, action in {'unset','get'}; no direct unset calls",
    "C05.3 per-object decision table of sync_states (policy letter x pool_filter x selection)",
    "C05.4 decision table of default_clean_decision",
    "C05.5 reversal guards in the traversal loop (T.G5)",
    "C05.6 is_cleanup_ready table; drop_child single site",
    "C05.7 defaults: pool_filter 'reuse', unset_mode 'ri'",
    "C05.7 involved workers = both pick registers over all run swarms; drop_child/pick_child register (node, worker) in the right register",
]
NOT_DECIDED = ["lazily added dependants beyond the unexplored_nodes guard", "timing of removal across workers at run time"]
MIN_INSTANCES = 25


def reverse_guard(ctx: Ctx, rule: str) -> None:
    views = function_views(ctx, T.RN, names_interesting({"sync_states", "should_clean", "is_occupied", "started_worker", "get_stateful_objects"}),
                           roles=["test_node", "worker", "params"])

    def required(v: PathView, i: int, c: ast.Call):
        recv = c.func.value
        return norm.conj([
            v.formula_of(ast.parse("test_node.should_clean(worker)", mode="eval").body, i),
            v.formula_of(ast.parse("len(test_node.get_stateful_objects()) > 0", mode="eval").body, i),
        ])

    sites = guard_rule(ctx, rule, T.RN, views, is_call_named("sync_states"), required, min_sites=1, missing_is_violation=False,
                       what="sync_states call in reverse_node",
                       describe_required="test_node.should_clean(worker) and the node has stateful objects")
    # receiver is the reversed node
    ok = all(v.canon_text(c.func.value, i) == "test_node" for v in views for i, c in v.calls(is_call_named("sync_states")))
    ctx.record(rule + "b", "PROV", T.RN, "sync_states is called on the node being reversed", ok, {},
               "" if ok else "reverse_node syncs/cleans a node other than the one it was asked to reverse")
    owner_rule(ctx, rule + "c", "call of sync_states", [(f, c, "call") for f, c in call_sites(ctx.repo, "sync_states")],
               {T.RN: "under should_clean"}, 1)
    owner_rule(ctx, rule + "c", "call of reverse_node", [(f, c, "call") for f, c in call_sites(ctx.repo, "reverse_node")],
               {T.TOT: "guarded reversal in the traversal loop"}, 1)


def who_may_unset(ctx: Ctx, rule: str) -> None:
    allowed = {SYNC: "state sync/cleanup", f"{NODE}:TestNode.scan_states": "read-only check"}
    for name in ("run_subcontrol", "set_subcontrol_parameter", "set_subcontrol_parameter_dict", "run_subcontrol_in_thread"):
        sites = [(f, c, "call") for f, c in call_sites(ctx.repo, name, ("cartgraph/", "plugins/", "intertest_setup.py", "cmd_parser.py", "params_parser.py"))]
        if name in ("run_subcontrol", "set_subcontrol_parameter", "set_subcontrol_parameter_dict"):
            owner_rule(ctx, rule, f"door.{name} call", sites, allowed, 2)
        elif sites:
            owner_rule(ctx, rule, f"door.{name} call", sites, {}, 0)
    # action values
    for fref, want in ((SYNC, {"unset", "get"}), (f"{NODE}:TestNode.scan_states", {"check"})):
        fn = ctx.repo.func(fref)
        ctx.touch(fref)
        acts = [c for c in calls_in(fn.node) if call_name(c) == "set_subcontrol_parameter" and len(c.args) >= 3
                and isinstance(c.args[1], ast.Constant) and c.args[1].value == "action"]
        values = set()
        ok = len(acts) == 1
        for c in acts:
            a = c.args[2]
            if isinstance(a, ast.Constant):
                values.add(a.value)
            elif isinstance(a, ast.Name):
                defs = [n for n in ast.walk(fn.node) if isinstance(n, ast.Assign) and any(isinstance(t, ast.Name) and t.id == a.id for t in n.targets)]
                for d in defs:
                    if isinstance(d.value, ast.Constant):
                        values.add(d.value.value)
                    else:
                        ok = False
                others = [n for n in ast.walk(fn.node) if isinstance(n, (ast.AugAssign, ast.For, ast.NamedExpr)) and a.id in {
                    x.id for x in ast.walk(getattr(n, "target", n)) if isinstance(x, ast.Name) and isinstance(x.ctx, ast.Store)}]
                if others:
                    ok = False
            else:
                ok = False
        ok = ok and values == want
        ctx.record(rule + "a", "OWNER", fref, f"door action values = {sorted(want)}", ok, {"found": sorted(map(str, values))},
                   "" if ok else f"{fref.split(':')[1]} can request door actions {sorted(map(str, values))}")
    # no direct state removal from graph/plugins/tools code
    direct = []
    for name in ("unset_states", "unset_state", "pop_states"):
        for f, c in call_sites(ctx.repo, name, ("cartgraph/", "plugins/")):
            direct.append((f, c))
    ctx.record(rule + "d", "OWNER", "cartgraph/*, plugins/*", "no direct unset_states/pop_states call in graph or runner code", not direct, {},
               "" if not direct else f"direct state removal outside sync_states: {first_line(direct[0][1])}")


def sync_table(ctx: Ctx, rule: str) -> None:
    fn = ctx.repo.func(SYNC)
    loop = the_loop(ctx, SYNC, ast.For, lambda l: ast.unparse(l.iter) == "self.objects", "loop over self.objects")
    ctx.require_locals(SYNC, ["should_clean", "do", "node_params", "object_params", "unset_policy", "object_state", "location", "suffixes"])
    interesting = names_interesting({"should_clean", "do", "update", "remove"},
                                    extra=lambda n: isinstance(n, ast.Raise))
    views = loop_iteration_views(ctx, SYNC, loop, interesting)
    obj = loop.target.id
    for v in views:
        v.rename[obj] = "_OBJ"

    def m_has(t):
        if t.endswith(".get('set_state')") and "_OBJ.object_typed_params(self.params)" in t:
            return lambda v: v["HAS"]
        return None

    OBJP = "_OBJ.object_typed_params(self.params)"

    def m_policy(t):
        if not t.startswith(OBJP + ".get('unset_mode', 'ri')[0] "):
            return None
        if t.endswith("[0] in ['f', 'r']") or t.endswith("[0] in ['r', 'f']"):
            return lambda v: v["P"] in ("f", "r")
        if t.endswith("[0] == 'f'"):
            return lambda v: v["P"] == "f"
        if t.endswith("[0] == 'r'"):
            return lambda v: v["P"] == "r"
        return None

    def m_pf(t):
        if "'pool_filter'" not in t:
            return None
        if t == "node_params.get('pool_filter', 'reuse') in ['reuse', 'block']":
            return lambda v: v["PF"] in ("reuse", "block")
        if t == "node_params.get('pool_filter', 'reuse') == 'copy'":
            return lambda v: v["PF"] == "copy"
        return None

    def m_sel(t):
        if " in params.get('vms'" in t and "_OBJ" in t:
            return lambda v: v["SEL"]
        return None

    def m_inst(t):
        if t.endswith(" == 'install'") and ".get('set_state')" in t:
            return lambda v: v["INST"]
        return None

    matchers = [m_has, m_policy, m_pf, m_sel, m_inst,
                N.M("NET", "_OBJ.key == 'nets'"), N.M("ISPERM", "_OBJ.is_permanent()")]
    STATE = OBJP + ".get('set_state')"
    from ..canon import canon_text

    LOC = canon_text("':' + " + OBJP + "['shared_pool']")
    UNSET = ("pool_scope", "unset_location=" + LOC, "unset_mode=" + OBJP + ".get('unset_mode', 'ri')", "unset_state=" + STATE)
    GET = ("get_location=" + LOC, "get_state=" + STATE, "pool_scope!=own")  # the sync request never carries the own scope

    def reference(v):
        if not v["HAS"]:
            return ("next", None, None, ())
        if v["P"] == "other":
            return ("next", None, None, ())
        if v["NET"]:
            return ("next", None, None, ())
        if v["INST"] and v["ISPERM"]:
            return ("break", False, None, ())
        if not v["SEL"]:
            return ("next", None, None, ())
        if v["P"] == "f":
            return ("next", True, "unset", UNSET)
        if v["PF"] in ("reuse", "block"):
            return ("break", False, None, ())
        if v["PF"] == "copy":
            return ("next", True, "get", GET)
        return ("raise:ValueError", True, None, ())

    spec = TableSpec({"HAS": N.B, "P": ["f", "r", "other"], "NET": N.B, "INST": N.B, "ISPERM": N.B, "SEL": N.B,
                      "PF": ["reuse", "block", "copy", "other"]}, matchers, reference)

    def final_const(view: PathView, name: str):
        c = view.canon(ast.Name(id=name, ctx=ast.Load()), len(view.steps))
        if isinstance(c, ast.Constant):
            return c.value
        if isinstance(c, ast.Name) and c.id == name:
            return None
        return f"?{ast.unparse(c)}"

    def outcome(view: PathView, val, free):
        p = view.path
        kind = {"continue": "next", "fall": "next", "break": "break"}.get(p.exit)
        if p.exit == "raise":
            kind = "raise:" + (PathEnum._raised_name(p.exit_node) or "?")
        keys = set()
        from ..facts import dict_writes

        for i, st in view.stmts():
            if any(isinstance(x, (ast.For, ast.While)) for x in ast.walk(st)):
                continue
            for k, value, site in dict_writes(st, "node_params"):
                if k is None:
                    keys.add("?")
                    continue
                lead = k.values[0].value if isinstance(k, ast.JoinedStr) and isinstance(k.values[0], ast.Constant) else (
                    k.value if isinstance(k, ast.Constant) else "?")
                if lead in ("images_", "image_name_", "image_format_", "remove_image_", "skip_image_processing"):
                    continue  # the image description of a vm handed to the door, not part of the request
                if lead == "pool_scope" and not (isinstance(value, ast.Constant) and value.value == "own"):
                    lead = "pool_scope!=own"
                elif lead != "pool_scope":
                    lead = f"{lead}={view.canon_text(value, i)}"
                keys.add(lead)
        return (kind, final_const(view, "should_clean"), final_const(view, "do"), tuple(sorted(keys)))

    table_rule(ctx, rule, SYNC, views, spec, outcome,
               construct="per object: no set_state / policy not f,r / net -> skip; permanent install -> no clean, stop; vm not selected -> skip; "
               "f -> unset request (scope own); r with pool_filter reuse|block -> no clean, stop; r with copy -> get request; other filter -> ValueError")
    # the door request is made only when should_clean ended up True
    fviews = function_views(ctx, SYNC, names_interesting({"should_clean", "run_subcontrol", "set_subcontrol_parameter"}))
    n, bad = 0, None
    for v in fviews:
        for i, c in v.calls(is_call_named("run_subcontrol", "set_subcontrol_parameter", "set_subcontrol_parameter_dict")):
            n += 1
            if not norm.implies(v.premise(i, 0), ("atom", "should_clean")):
                # the guard variable is substituted when its definition is on the path
                conds = [j for j in range(i) if v.steps[j].kind == "cond" and v.steps[j].pol and ast.unparse(v.steps[j].node) == "should_clean"]
                if not conds:
                    bad = v
    ctx.expect_sites(rule + "b", n, 1, SYNC, False, "door call in sync_states")
    ctx.record(rule + "b", "GUARD", SYNC, "the door request of sync_states is made only under `if should_clean`", bad is None, {"paths": n},
               "" if bad is None else "sync_states contacts the worker although no object asked for cleanup/sync")
    # the node's own get/unset states are deleted from the copied parameters before anything is added
    body = fn.node.body
    del_loops = [s for s in body if isinstance(s, ast.For) and any(isinstance(x, ast.Delete) for x in ast.walk(s))]
    ok = False
    if len(del_loops) == 1 and body.index(del_loops[0]) < body.index(loop):
        dl = del_loops[0]
        ifs = [i for i in ast.walk(dl) if isinstance(i, ast.If)]
        k = dl.target.id if isinstance(dl.target, ast.Name) else "key"
        want = norm.formula(ast.parse(f"{k}.startswith('get_state') or {k}.startswith('unset_state')", mode="eval").body)
        # semantic: the deletion is the positive branch of exactly this test (a negated or narrowed test keeps the node's own requests)
        ok = len(ifs) == 1 and norm.equivalent(norm.formula(ifs[0].test), want) and any(isinstance(x, ast.Delete) for x in ifs[0].body) and not ifs[0].orelse
        dels = [ast.unparse(d) for d in ast.walk(dl) if isinstance(d, ast.Delete)]
        ok = ok and dels == [f"del node_params[{dl.target.id}]"]
    copies = [s for s in body if isinstance(s, ast.Assign) and ast.unparse(s.targets[0]) == "node_params"]
    ok = ok and len(copies) == 1 and ast.unparse(copies[0].value) == "self.params.copy()"
    ctx.record(rule + "c", "ORDER", SYNC, "node_params is a copy of the node's params with every get_state*/unset_state* key deleted before the object loop",
               ok, {}, "" if ok else "the node's own get/unset states are no longer stripped from the sync request (they would be acted on)")
    # defaults
    src = ast.unparse(fn.node)
    d1 = [c for c in calls_in(fn.node) if call_name(c) == "get" and c.args and isinstance(c.args[0], ast.Constant) and c.args[0].value == "pool_filter"]
    d2 = [c for c in calls_in(fn.node) if call_name(c) == "get" and c.args and isinstance(c.args[0], ast.Constant) and c.args[0].value == "unset_mode"]
    okd = bool(d1) and all(len(c.args) == 2 and isinstance(c.args[1], ast.Constant) and c.args[1].value == "reuse" for c in d1) \
        and bool(d2) and all(len(c.args) == 2 and isinstance(c.args[1], ast.Constant) and c.args[1].value == "ri" for c in d2)
    ctx.record(rule + "d", "CONST", SYNC, "defaults: pool_filter 'reuse' (no request at all), unset_mode 'ri' (nothing removed)", okd,
               {"pool_filter": [ast.unparse(c) for c in d1], "unset_mode": [ast.unparse(c) for c in d2]},
               "" if okd else "the non-invasive defaults of sync_states changed")


def sync_addressing(ctx: Ctx, rule: str) -> None:
    """Whom a cleanup request addresses: the object's vm decides the 'selected vms' test, the state keys carry the object's own suffix (plus its vm for images)."""
    fn = ctx.repo.func(SYNC)
    ctx.touch(SYNC)

    def ifexp_ok(node, test, a, b):
        if not isinstance(node, ast.IfExp):
            return False
        f = norm.formula(node.test)
        w = norm.formula(ast.parse(test, mode="eval").body)
        if norm.equivalent(f, w):
            return ast.unparse(node.body) == a and ast.unparse(node.orelse) == b
        if norm.equivalent(f, norm.neg(w)):
            return ast.unparse(node.body) == b and ast.unparse(node.orelse) == a
        return False

    vm = [s_ for s_ in ast.walk(fn.node) if isinstance(s_, ast.Assign) and ast.unparse(s_.targets[0]) == "vm_name"]
    ok_vm = len(vm) == 1 and ifexp_ok(vm[0].value, "test_object.key == 'vms'", "test_object.suffix", "test_object.composites[0].suffix")
    sf = sorted((s_ for s_ in ast.walk(fn.node) if isinstance(s_, (ast.Assign, ast.AugAssign)) and ast.unparse(s_.targets[0] if isinstance(s_, ast.Assign) else s_.target) == "suffixes"), key=lambda x: x.lineno)
    ok_sf = (len(sf) == 2 and isinstance(sf[0], ast.Assign) and ast.unparse(sf[0].value) == "f'_{test_object.key}_{test_object.suffix}'"
             and isinstance(sf[1], ast.AugAssign) and isinstance(sf[1].op, ast.Add) and ifexp_ok(sf[1].value, "test_object.key == 'images'", "f'_{vm_name}'", "''"))
    # which vm the 'selected' test is about (its polarity and effect are rows of the sync_states decision table, C05.3)
    sel = [c for i in ast.walk(fn.node) if isinstance(i, ast.If) for c in ast.walk(i.test) if isinstance(c, ast.Compare) and len(c.ops) == 1 and isinstance(c.ops[0], (ast.In, ast.NotIn))
           and ast.unparse(c.comparators[0]).startswith("params.get('vms'")]
    ok_sel = len(sel) == 1 and ast.unparse(sel[0].left) == "vm_name"
    ok = ok_vm and ok_sf and ok_sel
    ctx.record(rule, "PROV", SYNC, "selected test: the object's vm (own suffix for a vm, the composite's for an image) is among the run's vms, else skipped; state keys: _<type>_<suffix> plus _<vm> for images",
               ok, {"vm_name": ok_vm, "suffixes": ok_sf, "selection": ok_sel}, "" if ok else "a cleanup request is addressed to another object or vm than the one whose state is decided on")


def run(ctx: Ctx) -> None:
    ctx.call(sync_addressing, "3a")
    ctx.call(reverse_guard, "1")
    ctx.call(T.t_a1, "1d/T.A1")
    ctx.call(who_may_unset, "2")
    ctx.call(sync_table, "3")
    ctx.call(N.clean_decision_table, "4", True)
    ctx.call(T.t_g5, "5/T.G5")
    ctx.call(T.t_g5u, "5u/T.G5u")
    ctx.call(N.readiness_table, "6", "cleanup")
    ctx.call(N.pick_agreement, "6p", "cleanup")
    from . import atoms as A

    ctx.call(A.involved_workers, "7i")
    ctx.call(A.drop_registrations, "7d")
    ctx.call(A.definitions, "7", only=('shared_finished_workers','is_flat','bridged_nodes'))
    ctx.call(A.fresh_state, "7f")


G = "cartgraph/graph.py"
MUTANTS = [
    ("postponement-ignores-own-unrolling", "cartgraph/graph.py", "                    if not next.is_flat() and len(unexplored_nodes + unrolling_nodes) > 0:", "                    if not next.is_flat() and len(unexplored_nodes) > 0:", "5u/T.G5u"),
    ("sync-image-keys-without-vm", "cartgraph/node.py", "            suffixes += f\"_{vm_name}\" if test_object.key == \"images\" else \"\"", "            suffixes += f\"_{vm_name}\" if test_object.key != \"images\" else \"\"", "3a"),
    ("sync-selection-by-wrong-vm", "cartgraph/node.py", "                test_object.suffix\n                if test_object.key == \"vms\"\n                else test_object.composites[0].suffix", "                test_object.suffix\n                if test_object.key != \"vms\"\n                else test_object.composites[0].suffix", "3a"),
    ("reversible-means-last-object", "cartgraph/node.py", "            if is_reversible:\n                break\n        else:\n            is_reversible = False", "            if not is_reversible:\n                break\n        else:\n            is_reversible = False", "r"),
    ("picked-node-of-wrong-worker", "cartgraph/node.py", "                        if picked_worker.id in node.params[\"name\"]:\n                            picked_node = node", "                        if picked_worker.id not in node.params[\"name\"]:\n                            picked_node = node", "wp"),
    ("picked-node-always-self", "cartgraph/node.py", "                if self.is_flat() or picked_worker.id in self.params[\"name\"]:\n                    picked_node = self", "                if not self.is_flat() or picked_worker.id in self.params[\"name\"]:\n                    picked_node = self", "wp"),
    ("own-requests-kept-in-sync-params", "cartgraph/node.py", "            if key.startswith(\"get_state\") or key.startswith(\"unset_state\"):\n                del node_params[key]", "            if not (key.startswith(\"get_state\") or key.startswith(\"unset_state\")):\n                del node_params[key]", "3c"),
    ("sync-without-should-clean", G, "        if test_node.should_clean(worker):\n\n            if len(test_node.get_stateful_objects()) > 0:\n                test_node.sync_states(params)",
     "        if len(test_node.get_stateful_objects()) > 0:\n                test_node.sync_states(params)\n        if test_node.should_clean(worker):\n            pass", "1"),
    ("reuse-policy-unsets", NODE, "            if unset_policy[0] == \"f\":\n                # reverse the state setup", "            if unset_policy[0] in [\"f\", \"r\"]:\n                # reverse the state setup", "3"),
    ("default-filter-copy", NODE, "if node_params.get(\"pool_filter\", \"reuse\") in [\"reuse\", \"block\"]:", "if node_params.get(\"pool_filter\", \"copy\") in [\"reuse\", \"block\"]:", "3"),
    ("unselected-vm-cleaned", NODE, "            if vm_name in params.get(\"vms\", param.all_objects(\"vms\")):\n                should_clean = True\n            else:\n                continue",
     "            should_clean = True", "3"),
    ("unset-all-scopes", NODE, "                        f\"pool_scope\": \"own\",\n", "", "3"),
    ("clean-ignores-running", NODE, "                if \"unknown\" in test_statuses:\n                    logging.debug(\n                        f\"A worker {picked_worker.id} is still running node which cannot yet be reversed\"\n                    )\n                    return False\n", "", "4"),
    ("clean-eager-finish", NODE, "            return self.is_finished(worker, -1)", "            return self.is_finished(worker, 1)", "4"),
    ("clean-not-ready-ok", NODE, "                if not picked_node.is_cleanup_ready(picked_worker):\n                    logging.debug(f\"Node is not cleanup ready for {picked_worker.id}\")\n                    return False\n", "", "4"),
    ("reverse-when-not-ready", G, "                if next.is_cleanup_ready(worker):\n                    self.report_progress()", "                if next.is_setup_ready(worker):\n                    self.report_progress()", "5/T.G5"),
    ("drop-child-filtered", G, "                    for setup in next.setup_nodes:\n                        setup.drop_child(next, worker)",
     "                    for setup in next.setup_nodes:\n                        if not setup.is_flat():\n                            setup.drop_child(next, worker)", "5/T.G5"),
    ("keep-own-unset-states", NODE, "            if key.startswith(\"get_state\") or key.startswith(\"unset_state\"):\n                del node_params[key]", "            if key.startswith(\"get_state\"):\n                del node_params[key]", "3c"),
    ("direct-unset-in-graph", G, "        test_node.started_worker = worker\n        if test_node.should_clean(worker):",
     "        test_node.started_worker = worker\n        if params.get(\"eager_unset\"):\n            ss.unset_states(test_node.params, None)\n        if test_node.should_clean(worker):", "2d"),
    ("image-policy-overrides-vm", NODE, "            unset_policy = object_params.get(\"unset_mode\", \"ri\")", "            unset_policy = object_params.get(\"unset_mode_images\", object_params.get(\"unset_mode\", \"ri\"))", "3"),
    ("P-clean-flag", G, "        if test_node.should_clean(worker):\n\n            if len(test_node.get_stateful_objects()) > 0:",
     "        clean = test_node.should_clean(worker)\n        if clean:\n\n            if len(test_node.get_stateful_objects()) > 0:", None),
]
