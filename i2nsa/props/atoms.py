"""Definitions of the predicates and aggregated views that the other rules use as atoms.

The traversal, retry and clean rules reason with atoms such as ``X.is_flat()``, ``X.shared_results`` or
``worker in X.shared_started_workers``.  Those arguments are only as good as the definitions of the atoms, so each
definition is pinned here *structurally*: a view is described by the set of its contributions
``(iterated sources, filter, element)`` extracted from the accumulator idiom the code uses, compared up to renaming of
loop variables, order of contributions and logically equivalent filters.  A rewrite that keeps the set of contributions
stays silent; one that loses, adds or re-filters a contribution is reported.
"""

from __future__ import annotations

import ast

from .. import norm
from ..ctx import Ctx
from ..repo import AnalysisError, call_name

NODE = "cartgraph/node.py"
N_ = f"{NODE}:TestNode"


class _Rename(ast.NodeTransformer):
    def __init__(self, m):
        self.m = m

    def visit_Name(self, n):
        return ast.copy_location(ast.Name(id=self.m.get(n.id, n.id), ctx=n.ctx), n)


def _ren(node: ast.AST, m: dict) -> ast.AST:
    import copy

    return ast.fix_missing_locations(_Rename(m).visit(copy.deepcopy(node)))


def contributions(fn: ast.FunctionDef) -> tuple[set, list[str]]:
    """Contributions to the returned accumulator: {(iters, cond formula, element text)}; plus anything not understood."""
    rets = [r for r in ast.walk(fn) if isinstance(r, ast.Return)]
    odd: list[str] = []
    if len(rets) != 1:
        return set(), [f"{len(rets)} return statements"]
    rv = rets[0].value
    wrap = None
    if isinstance(rv, ast.Call) and isinstance(rv.func, ast.Name) and rv.func.id in ("set", "list", "tuple") and len(rv.args) == 1 and isinstance(rv.args[0], ast.Name):
        wrap, rv = rv.func.id, rv.args[0]
    direct = None
    if isinstance(rv, ast.Call) and isinstance(rv.func, ast.Name) and rv.func.id in ("set", "list", "tuple") and len(rv.args) == 1 \
            and isinstance(rv.args[0], (ast.ListComp, ast.SetComp, ast.GeneratorExp)):
        rv = rv.args[0]
    if isinstance(rv, (ast.ListComp, ast.SetComp, ast.GeneratorExp)):
        # the view is returned as one comprehension: a single contribution, no accumulator
        direct, acc = rv, "\0none"
    elif not isinstance(rv, ast.Name):
        return set(), [f"returns {ast.unparse(rets[0].value)}"]
    else:
        acc = rv.id
    if direct is None:
        # a sub-expression named as a local (own_worker = self.finished_worker) is that sub-expression
        from ..canon import inline_locals

        fn = inline_locals(fn, keep={acc})
    out = set()

    def add(iters, conds, elem, star):
        m = {}
        its = []
        for k, (tgt, it) in enumerate(iters):
            its.append(ast.unparse(_ren(it, m)))
            if isinstance(tgt, ast.Name):
                m[tgt.id] = f"_v{k}"
            else:
                odd.append(f"loop target {ast.unparse(tgt)}")
        f = norm.conj([norm.formula(_ren(c, m)) if pol else norm.neg(norm.formula(_ren(c, m))) for c, pol in conds])
        out.add((tuple(its), repr(f), ("*" if star else "") + ast.unparse(_ren(elem, m))))

    def comp(value, iters, conds, star):
        # a comprehension contributes its element per generator tuple
        its = list(iters)
        cs = list(conds)
        for g in value.generators:
            its.append((g.target, g.iter))
            cs += [(c, True) for c in g.ifs]
        add(its, cs, value.elt, star)

    def value_contrib(value, iters, conds, star):
        if isinstance(value, (ast.ListComp, ast.SetComp, ast.GeneratorExp)):
            comp(value, iters, conds, False if star else False)
        elif isinstance(value, ast.Call) and isinstance(value.func, ast.Name) and value.func.id in ("list", "set", "tuple") and len(value.args) == 1:
            value_contrib(value.args[0], iters, conds, True)
        elif isinstance(value, ast.Call) and isinstance(value.func, ast.Name) and value.func.id in ("list", "set", "tuple") and not value.args:
            pass
        elif isinstance(value, (ast.List, ast.Set, ast.Tuple)):
            for e in value.elts:
                add(iters, conds, e, False)
        elif isinstance(value, ast.BinOp) and isinstance(value.op, (ast.BitOr, ast.Add)):
            value_contrib(value.left, iters, conds, True)
            value_contrib(value.right, iters, conds, True)
        elif isinstance(value, ast.IfExp):
            # {x} if c else set()  =  the contribution of x under c
            value_contrib(value.body, iters, list(conds) + [(value.test, True)], star)
            value_contrib(value.orelse, iters, list(conds) + [(value.test, False)], star)
        else:
            add(iters, conds, value, True)

    def walk(stmts, iters, conds):
        for s in stmts:
            if isinstance(s, ast.Expr) and isinstance(s.value, ast.Constant):
                continue
            if isinstance(s, ast.Assign) and len(s.targets) == 1 and isinstance(s.targets[0], ast.Name) and s.targets[0].id == acc:
                value_contrib(s.value, iters, conds, True)
            elif isinstance(s, ast.AugAssign) and isinstance(s.target, ast.Name) and s.target.id == acc:
                if isinstance(s.op, (ast.Add, ast.BitOr)):
                    value_contrib(s.value, iters, conds, True)
                else:
                    odd.append(ast.unparse(s))
            elif isinstance(s, ast.Expr) and isinstance(s.value, ast.Call) and isinstance(s.value.func, ast.Attribute) and ast.unparse(s.value.func.value) == acc:
                m = s.value.func.attr
                if m in ("add", "append") and len(s.value.args) == 1:
                    add(iters, conds, s.value.args[0], False)
                elif m in ("update", "extend") and len(s.value.args) == 1:
                    value_contrib(s.value.args[0], iters, conds, True)
                else:
                    odd.append(ast.unparse(s))
            elif isinstance(s, ast.For) and isinstance(s.iter, (ast.Tuple, ast.List)) and isinstance(s.target, ast.Name):
                # for x in (a, *bs): one contribution per listed element, one iterated contribution per starred collection
                for e in s.iter.elts:
                    if isinstance(e, ast.Starred):
                        walk(s.body, iters + [(s.target, e.value)], conds)
                    else:
                        import copy as _copy

                        body = [norm.substitute(_copy.deepcopy(b), {s.target.id: e}, None, 1) for b in s.body]
                        walk(body, iters, conds)
            elif isinstance(s, ast.For):
                walk(s.body, iters + [(s.target, s.iter)], conds)
                if s.orelse or any(isinstance(x, (ast.Break,)) for x in ast.walk(s)):
                    odd.append("loop with else/break")
            elif isinstance(s, ast.If):
                # `if c: continue` guards the rest of the block
                if len(s.body) == 1 and isinstance(s.body[0], ast.Continue) and not s.orelse:
                    conds = conds + [(s.test, False)]
                    continue
                walk(s.body, iters, conds + [(s.test, True)])
                walk(s.orelse, iters, conds + [(s.test, False)])
            elif isinstance(s, ast.Return):
                pass
            elif isinstance(s, ast.Assign) and all(isinstance(t, ast.Name) for t in s.targets):
                # a helper local: inline it textually where it is used is not attempted; remember as odd only if it shadows acc
                locals_.append(s)
            else:
                if any(isinstance(x, ast.Name) and x.id == acc for x in ast.walk(s)):
                    odd.append(ast.unparse(s).splitlines()[0])

    locals_: list[ast.Assign] = []
    walk(fn.body, [], [])
    if direct is not None:
        comp(direct, [], [], False)
    if wrap:
        out = {(i, c, e) for i, c, e in out}
    return out, odd + ([f"helper local {ast.unparse(l.targets[0])}" for l in locals_] if locals_ else [])


def _f(text: str, m: dict | None = None) -> str:
    return repr(norm.formula(ast.parse(text, mode="eval").body))


TRUE = repr(norm.conj([]))

VIEWS = {
    f"{N_}.shared_started_workers": ({((), _f("self.started_worker is not None"), "self.started_worker"),
                                     (("self.bridged_nodes",), _f("_v0.started_worker is not None"), "_v0.started_worker")},
                                    "the node's own starting worker and the starting worker of every bridged node"),
    f"{N_}.shared_finished_workers": ({((), _f("self.finished_worker is not None"), "self.finished_worker"),
                                      (("self.bridged_nodes",), _f("_v0.finished_worker is not None"), "_v0.finished_worker")},
                                     "the node's own finishing worker and the finishing worker of every bridged node"),
    f"{N_}.shared_results": ({((), TRUE, "*self.results"), (("self.bridged_nodes",), TRUE, "*_v0.results")},
                             "the node's own results and the results of every bridged node, unfiltered"),
}

PREDICATES = {
    # accepted idioms are enumerated (truthiness of a list is emptiness only because objects is a list)
    f"{N_}.is_flat": (("len(self.objects) == 0", "not self.objects"), "a node is flat exactly when it has no objects"),
    f"{N_}.is_object_root": (("'object_root' in self.params",), "object root = the parameter object_root is present"),
}
EXPRS = {
    f"{N_}.is_shared_root": ("self.params.get_boolean('shared_root', False)", "shared root = boolean parameter shared_root, default False"),
    f"{N_}.bridged_nodes": ("tuple(self._bridged_nodes)", "read-only copy of the bridged nodes"),
    f"{N_}.cloned_nodes": ("tuple(self._cloned_nodes)", "read-only copy of the clones"),
    f"{N_}.id": ("self.prefix + '-' + self.params['name']", "node id = prefix-name"),
}


def _single_return(fn: ast.FunctionDef):
    body = [s for s in fn.body if not (isinstance(s, ast.Expr) and isinstance(s.value, ast.Constant))]
    if len(body) == 1 and isinstance(body[0], ast.Return):
        return body[0].value
    return None


def definitions(ctx: Ctx, rule: str, only: tuple[str, ...] | None = None) -> None:
    n = 0
    for fref, (want, what) in VIEWS.items():
        if only and fref.split(".")[-1] not in only:
            continue
        f = ctx.repo.func(fref)
        ctx.touch(fref)
        got, odd = contributions(f.node)
        ok = got == want and not odd
        n += 1
        ctx.record(rule + "v", "TABLE", fref, f"{fref.split('.')[-1]} = {what}", ok, {"contributions": sorted(map(str, got)), "not_understood": odd},
                   "" if ok else f"{fref.split('.')[-1]} is no longer {what}: missing {sorted(map(str, want - got))}, extra {sorted(map(str, got - want))}, other {odd}")
    for fref, (want, what) in PREDICATES.items():
        if only and fref.split(".")[-1] not in only:
            continue
        f = ctx.repo.func(fref)
        ctx.touch(fref)
        rv = _single_return(f.node)
        ok = rv is not None and any(norm.equivalent(norm.formula(rv), norm.formula(ast.parse(w, mode="eval").body)) for w in want)
        n += 1
        ctx.record(rule + "p", "TABLE", fref, what, ok, {"returns": ast.unparse(rv) if rv is not None else None}, "" if ok else f"{fref.split('.')[-1]}() changed its meaning (expected {want[0]})")
    for fref, (want, what) in EXPRS.items():
        if only and fref.split(".")[-1] not in only:
            continue
        f = ctx.repo.func(fref)
        ctx.touch(fref)
        rv = _single_return(f.node)
        ok = rv is not None and ast.unparse(rv) == want
        n += 1
        ctx.record(rule + "e", "PROV", fref, what, ok, {"returns": ast.unparse(rv) if rv is not None else None}, "" if ok else f"{fref.split('.')[-1]} changed (expected {want})")
    if n == 0:
        raise AnalysisError("no atom definition selected")


def involved_workers(ctx: Ctx, rule: str) -> None:
    """shared_involved_workers = the run swarms' workers whose id was registered as picking the node from either side."""
    fref = f"{N_}.shared_involved_workers"
    f = ctx.repo.func(fref)
    ctx.touch(fref)
    ids = [s for s in ast.walk(f.node) if isinstance(s, ast.Assign) and ast.unparse(s.targets[0]) == "worker_ids"]
    ok_ids = False
    if len(ids) == 1 and isinstance(ids[0].value, ast.BinOp) and isinstance(ids[0].value.op, ast.BitOr):
        ops = {ast.unparse(ids[0].value.left), ast.unparse(ids[0].value.right)}
        ok_ids = ops == {"self._picked_by_setup_nodes.get_workers()", "self._picked_by_cleanup_nodes.get_workers()"}
    got, odd = contributions(f.node)
    want = {(("TestSwarm.run_swarms", "TestSwarm.run_swarms[_v0].workers"), _f("_v1.id in worker_ids"), "_v1")}
    alt = {(("TestSwarm.run_swarms.values()", "_v0.workers"), _f("_v1.id in worker_ids"), "_v1")}
    odd = [o for o in odd if o != "helper local worker_ids"]
    ok = ok_ids and (got == want or got == alt) and not odd
    ctx.record(rule, "TABLE", fref, "involved workers = workers of the run swarms whose id picked the node towards its setup or towards its cleanup", ok,
               {"contributions": sorted(map(str, got)), "worker_ids": ast.unparse(ids[0].value) if ids else None, "not_understood": odd},
               "" if ok else "the set of workers involved with a node changed (both pick registers, all run swarms)")


def drop_registrations(ctx: Ctx, rule: str) -> None:
    """pick/drop register the visit of (the other node, the worker) in the right register, drop_* only for real neighbours."""
    rows = {
        "drop_parent": ("self._dropped_setup_nodes", ["test_node", "worker"], "test_node not in self.setup_nodes"),
        "drop_child": ("self._dropped_cleanup_nodes", ["test_node", "worker"], "test_node not in self.cleanup_nodes"),
        "pick_parent": ("test_node._picked_by_cleanup_nodes", ["self", "worker"], None),
        "pick_child": ("test_node._picked_by_setup_nodes", ["self", "worker"], None),
    }
    for name, (reg, args, guard) in rows.items():
        fref = f"{N_}.{name}"
        f = ctx.repo.func(fref)
        ctx.touch(fref)
        params = f.params()
        ren = {params[1]: args[0]} if name.startswith("drop") else {}
        ren[params[-1] if name.startswith("drop") else params[1]] = "worker"
        regs = [c for c in ast.walk(f.node) if isinstance(c, ast.Call) and call_name(c) == "register"]
        ok = len(regs) == 1 and ast.unparse(_ren(regs[0].func.value, ren)) == reg and [ast.unparse(_ren(a, ren)) for a in regs[0].args] == args and not regs[0].keywords
        if ok and guard:
            # as a table: not a direct neighbour -> ValueError and nothing registered; else exactly the registration
            from .. import semtab

            got = semtab.function_table(f.node, rename=ren)
            want = semtab.reference_table(f"""
                if {guard}:
                    raise ValueError("x")
                {reg}.register({', '.join(args)})
            """)
            ok = semtab.mismatch(got, want) is None
        if ok and not guard:
            # the registration is the last effect before returning the picked node
            body = f.node.body
            ok = isinstance(body[-1], ast.Return) and ast.unparse(body[-1].value) == "test_node" and isinstance(body[-2], ast.Expr) and body[-2].value is regs[0]
        ctx.record(rule, "PAIR", fref, f"{name}: {reg}.register({', '.join(args)})" + (f", refused unless a direct neighbour" if guard else " immediately before returning the picked node"),
                   ok, {"register_calls": [ast.unparse(c) for c in regs]}, "" if ok else f"{name} no longer registers the visit of ({', '.join(args)}) in {reg}")


def fresh_state(ctx: Ctx, rule: str) -> None:
    """Every node starts with its own empty bookkeeping (no class-level or shared mutable state)."""
    fref = f"{N_}.__init__"
    f = ctx.repo.func(fref)
    ctx.touch(fref)
    want = {
        "self.finished_worker": "None", "self.started_worker": "None", "self._bridged_nodes": "[]", "self._cloned_nodes": "[]",
        "self.incompatible_workers": "set()", "self.objects": "[]", "self.results": "[]", "self._setup_nodes": "{}", "self._cleanup_nodes": "{}",
        "self._picked_by_setup_nodes": "EdgeRegister()", "self._picked_by_cleanup_nodes": "EdgeRegister()",
        "self._dropped_setup_nodes": "EdgeRegister()", "self._dropped_cleanup_nodes": "EdgeRegister()",
        "self.should_run": "self.default_run_decision", "self.should_clean": "self.default_clean_decision", "self._params_cache": "None", "self.restrs": "{}",
    }
    got = {}
    for s in f.node.body:
        if isinstance(s, ast.Assign) and len(s.targets) == 1:
            got.setdefault(ast.unparse(s.targets[0]), []).append(ast.unparse(s.value))
    bad = {k: got.get(k) for k, v in want.items() if got.get(k) != [v]}
    c = ctx.repo.cls(N_)
    klass = [ast.unparse(t) for s in c.node.body if isinstance(s, (ast.Assign, ast.AnnAssign)) for t in (s.targets if isinstance(s, ast.Assign) else [s.target])]
    shared = [k for k in klass if ("self." + k) in want]
    ok = not bad and not shared
    ctx.record(rule, "CONST", fref, "a new node has no workers, results, edges, bridges or visits, each container its own fresh instance; decisions default to the default_* methods", ok,
               {"deviating": bad, "class_level": shared}, "" if ok else f"initial node state changed: {bad or shared}")
    er = ctx.repo.func(f"{NODE}:EdgeRegister.__init__")
    ctx.touch(er.ref)
    body = [ast.unparse(s) for s in er.node.body if not (isinstance(s, ast.Expr) and isinstance(s.value, ast.Constant))]
    ok2 = body == ["self._registry = {}"]
    ctx.record(rule + "r", "CONST", er.ref, "a new edge register is empty and owns its registry", ok2, {"body": body}, "" if ok2 else "edge registers no longer start empty / with their own dict")
