"""C04 — a test is never executed by two workers of one scope at the same time."""

from __future__ import annotations

import ast

from .. import norm
from ..ctx import Ctx
from ..facts import is_call_named
from ..kinds import function_views, names_interesting
from ..paths import first_line
from ..repo import AnalysisError, call_name, calls_in
from . import traversal as T
from .c02 import occupied_bounce

NODE = "cartgraph/node.py"

EXPLANATION = (
    "On a single cooperative event loop, code between suspension points is atomic. The check decides that the "
    "occupation test and the marker store form such an atomic test-and-set, that the marker has a closed set of "
    "writers, is released only after the awaited run, that the occupation threshold is derived from "
    "max_concurrent_tries/max_tries with a floor of one, that re-entrancy is granted only after the waiting budget "
    "is exhausted, and that an occupied node is bounced from. Real-time overlap under timeout overrun is not decided."
)
DECIDED = [
    "C04.1 occupation test-and-set atomic in traverse_node and reverse_node (T.A1)",
    "C04.2 writers of started_worker / finished_worker (closed owner table)",
    "C04.3 marker released only after the awaited run, on every normal exit (T.P1)",
    "C04.4 single event loop, no threads (T.E1)",
    "C04.5 scope discrimination agreement (T.S1)",
    "C04.6 is_occupied = is_started(worker, max(max_concurrent_tries|max_tries, 1)); is_started reads all bridged copies",
    "C04.7 re-entrancy (max_concurrent_tries store) only after waiting longer than the test duration on the same node",
    "C04.8 occupied bounce (reset, bounded sleep, continue, no traversal in the same iteration)",
    "C04.10 premise of the exclusion argument: equivalent nodes are bridged symmetrically at every creation site (all pairs in the update tool)",
    "C04.11 shared_started_workers covers the node and every bridged copy; a fresh node is not started",
    "C04.6t re-entrancy bounded by the tries not yet spent (a worker is not admitted to a node whose last try is in flight); C04.12/12r wait budget floor and object-root factor",
]
NOT_DECIDED = ["overlap when a test overruns its timeout", "completeness of bridging (C09)"]
MIN_INSTANCES = 25


def is_occupied_rule(ctx: Ctx, rule: str) -> None:
    fref = f"{NODE}:TestNode.is_occupied"
    fn = ctx.repo.func(fref)
    ctx.touch(fref)
    from .. import semtab

    wname = fn.params()[1]
    rows = semtab.function_table(fn.node, rename={wname: "worker"})
    def reads(expr, key):
        return {ast.unparse(c) for c in ast.walk(expr) if isinstance(c, ast.Call) and call_name(c) == "get_numeric" and c.args and isinstance(c.args[0], ast.Constant) and c.args[0].value == key}

    shape_bad, left_bad, texts = "", "", []
    default_bad = ""
    for prem, (kind, val, _f, _e, _i) in rows:
        texts.append(f"{norm.show(prem)[:80]} -> {val}")
        e = ast.parse(val, mode="eval").body if kind == "return" and val else None
        thr = None
        # is_started(worker, <threshold>) with the threshold passed positionally or by its name
        eargs = list(e.args) + [k.value for k in e.keywords if k.arg == "threshold"] if isinstance(e, ast.Call) else []
        if isinstance(e, ast.Call) and ast.unparse(e.func) == "self.is_started" and len(eargs) == 2 and len(e.keywords) <= 1 and ast.unparse(eargs[0]) == "worker":
            t = eargs[1]
            if isinstance(t, ast.Call) and ast.unparse(t.func) == "max" and len(t.args) == 2 and any(isinstance(a, ast.Constant) and a.value == 1 for a in t.args):
                thr = next(a for a in t.args if not (isinstance(a, ast.Constant) and a.value == 1))
        # the two parameter reads as they appear after substitution of locals (any default; the agreement of the defaults is rule C04.13)
        mcts = reads(thr, "max_concurrent_tries") if thr is not None else set()
        if thr is None or len(mcts) != 1:
            shape_bad = shape_bad or f"the occupation threshold changed: {val}"
            continue
        MCT = next(iter(mcts))
        # "one worker by default; the limit defaults to max_tries when retries are enabled": with nothing configured the limit is 1, i.e.
        # the default of the limit is the CONFIGURED max_tries falling back to the constant 1 (not a mode dependent number of tries)
        mc = ast.parse(MCT, mode="eval").body
        dflt = mc.args[1] if len(mc.args) > 1 else None
        one_by_default = (isinstance(dflt, ast.Call) and call_name(dflt) == "get_numeric" and dflt.args and isinstance(dflt.args[0], ast.Constant) and dflt.args[0].value == "max_tries"
                          and len(dflt.args) == 2 and isinstance(dflt.args[1], ast.Constant) and dflt.args[1].value == 1)
        if not one_by_default:
            default_bad = f"the default of max_concurrent_tries is `{ast.unparse(dflt) if dflt is not None else None}`: without any retry setting more than one worker may execute a test at once"
        mts = reads(thr, "max_tries") | {x for p_ in [prem] for a_ in norm.atoms_of(p_) for x in reads(ast.parse(a_, mode="eval").body, "max_tries")}
        MTS = sorted(mts, key=len, reverse=True)
        # tries left: min(<re-entrancy>, max_tries - <number of finished results>) unless the re-entrancy was raised above max_tries on purpose
        bounded = False
        for m in ast.walk(thr):
            if isinstance(m, ast.Call) and ast.unparse(m.func) == "min":
                for a in m.args:
                    if isinstance(a, ast.BinOp) and isinstance(a.op, ast.Sub) and ast.unparse(a.left) in mts and "len(" in ast.unparse(a.right) and "results" in ast.unparse(a.right):
                        bounded = True
        raised = any(norm.implies(prem, norm.neg(norm.formula(ast.parse(f"{MCT} <= {m_}", mode="eval").body))) for m_ in MTS)
        if not bounded and not raised:
            left_bad = left_bad or ("a worker is admitted to a node while fewer than max_concurrent_tries (default max_tries) workers execute it, whether or not a try is left for it: "
                                    "with the last try in flight elsewhere the newcomer is let in, has nothing to run (the in-flight result counts as a spent try), "
                                    "treats the node as done and runs its dependants before the setup ever passed")
    if not rows:
        shape_bad = "no path through is_occupied"
    ctx.record(rule, "PROV", fref, "is_occupied(worker) = is_started(worker, max(E, 1)), E built from max_concurrent_tries (default max_tries, default 1)",
               not shape_bad, {"rows": texts}, shape_bad)
    ctx.record(rule + "o", "CONST", fref, "one worker by default: the limit defaults to the configured max_tries, else 1", not default_bad and not shape_bad, {}, default_bad or shape_bad)
    ctx.record(rule + "t", "GUARD", fref, "the re-entrancy is bounded by the tries not yet spent (min(re-entrancy, max_tries - finished results)) unless it was raised above max_tries",
               not left_bad and not shape_bad, {"rows": texts}, left_bad or shape_bad)
    # is_started reads the markers of the node and of every bridged copy (set of contributions, any loop shape)
    from . import atoms as A

    fref2 = f"{NODE}:TestNode.shared_started_workers"
    fn2 = ctx.repo.func(fref2)
    ctx.touch(fref2)
    got, odd = A.contributions(fn2.node)
    want = A.VIEWS[fref2][0]
    ok2 = got == want and not odd
    ctx.record(rule + "b", "PROV", fref2, "shared_started_workers = markers of this node and of every bridged node", ok2,
               {"contributions": sorted(map(str, got))}, "" if ok2 else "the set of starting workers no longer covers the node and all its bridged copies")
    fs = ctx.repo.func(f"{NODE}:TestNode.is_started")
    reads = {n.attr for n in ast.walk(fs.node) if isinstance(n, ast.Attribute) and isinstance(n.value, ast.Name) and n.value.id == "self"}
    ok3 = "shared_started_workers" in reads and "started_worker" not in reads
    ctx.record(rule + "c", "PROV", fs.ref, "is_started reads shared_started_workers (never the node's own marker alone)", ok3, {"reads": sorted(reads)},
               "" if ok3 else "is_started looks at this node's own marker only: bridged copies would not exclude each other")
    # threshold comparisons: at least N started workers
    cmps = [ast.unparse(n) for n in ast.walk(fs.node) if isinstance(n, ast.Compare) and "threshold" in ast.unparse(n) and "len(" in ast.unparse(n)]
    ok4 = len(cmps) == 2 and all(c.endswith(">= threshold") for c in cmps)
    ctx.record(rule + "d", "TABLE", fs.ref, "started iff at least `threshold` workers in scope hold the marker (>=)", ok4, {"comparisons": cmps},
               "" if ok4 else f"the threshold comparison of is_started changed: {cmps}")


def reentrancy_rule(ctx: Ctx, rule: str) -> None:
    # every store to params["max_concurrent_tries"] in the package
    stores = []
    for rel, tree in ctx.repo.trees.items():
        for n in ast.walk(tree):
            tgts = n.targets if isinstance(n, ast.Assign) else ([n.target] if isinstance(n, ast.AugAssign) else [])
            for t in tgts:
                if isinstance(t, ast.Subscript) and isinstance(t.slice, ast.Constant) and t.slice.value == "max_concurrent_tries":
                    stores.append((rel, n))
            if isinstance(n, ast.Call) and call_name(n) in ("update", "setdefault") and "max_concurrent_tries" in ast.unparse(n):
                stores.append((rel, n))
    in_loop = [n for rel, n in stores if rel == T.GRAPH]
    ok_owner = len(stores) == len(in_loop) and len(stores) >= 1
    ctx.record(rule, "OWNER", "avocado_i2n", "max_concurrent_tries is only ever raised in the traversal loop's occupied branch", ok_owner,
               {"stores": [f"{rel}: {first_line(n)}" for rel, n in stores]},
               "" if ok_owner else "max_concurrent_tries is written somewhere else than in the occupied branch")
    views = T.loop_views(ctx)
    n, bad = 0, None
    for v in views:
        for i, s in v.stmts(lambda s: isinstance(s, (ast.Assign, ast.AugAssign)) and "max_concurrent_tries" in ast.unparse(
                s.targets[0] if isinstance(s, ast.Assign) else s.target)):
            n += 1
            prem = v.premise(i, 0)
            recv = ast.unparse((s.targets[0] if isinstance(s, ast.Assign) else s.target).value.value)
            rf = v.canon_text(ast.parse(recv, mode="eval").body, i)
            req = norm.conj([
                v.formula_of(ast.parse(f"{recv}.is_occupied(worker)", mode="eval").body, i),
                v.formula_of(ast.parse(f"{recv} in occupied_at", mode="eval").body, i),
                v.formula_of(ast.parse("occupied_wait > test_duration", mode="eval").body, i),
            ])
            if not norm.implies(prem, req):
                bad = (v, norm.show(req), norm.show(prem))
            # increment by one
            val = s.value
            if isinstance(s, ast.Assign):
                ok_inc = isinstance(val, ast.BinOp) and isinstance(val.op, ast.Add) and isinstance(val.right, ast.Constant) and val.right.value == 1
                # the base is the current value of the very limit being raised (it must grow on every exhausted wait)
                base = val.left if ok_inc else None
                ok_inc = ok_inc and isinstance(base, ast.Call) and call_name(base) in ("get_numeric", "get") and base.args \
                    and isinstance(base.args[0], ast.Constant) and base.args[0].value == "max_concurrent_tries" \
                    and ast.unparse(base.func.value) == ast.unparse(s.targets[0].value)
            else:
                ok_inc = isinstance(s.op, ast.Add) and isinstance(val, ast.Constant) and val.value == 1
            if not ok_inc:
                bad = (v, "max_concurrent_tries = current max_concurrent_tries + 1", ast.unparse(s))
    ctx.expect_sites(rule + "b", n, 1, T.TOT, False, "store to params['max_concurrent_tries']")
    ctx.record(rule + "b", "GUARD", T.TOT, "re-entrancy granted (+1) only when the same occupied node was waited for longer than its test duration",
               bad is None, {"paths": n, **({"required": bad[1], "known": bad[2]} if bad else {})},
               "" if bad is None else f"re-entrancy into an occupied node is not granted exactly as 'limit + 1 after the waiting budget on that node is exhausted' (expected {bad[1]})")
    # the wait counter restarts for a different node
    n2, bad2 = 0, None
    for v in views:
        occ = [i for i, s in enumerate(v.steps) if s.kind == "cond" and s.pol and isinstance(s.node, ast.Call) and call_name(s.node) == "is_occupied"]
        if not occ:
            continue
        n2 += 1
        other = [i for i, s in enumerate(v.steps) if s.kind == "cond" and not s.pol and "occupied_at" in ast.unparse(s.node)]
        if other:
            resets = [i for i, s in v.stmts(lambda s: isinstance(s, ast.Assign) and ast.unparse(s.targets[0]) == "occupied_wait"
                                            and isinstance(s.value, ast.Constant) and s.value.value == 0) if i > other[0]]
            if not resets:
                bad2 = v
        else:
            incs = [i for i, s in v.stmts(lambda s: isinstance(s, ast.AugAssign) and ast.unparse(s.target) == "occupied_wait" and isinstance(s.op, ast.Add))]
            if not incs:
                bad2 = v
    ctx.record(rule + "c", "TABLE", T.TOT, "occupied_wait accumulates while bouncing from known nodes and restarts at 0.0 for a new node", bad2 is None and n2 >= 2,
               {"paths": n2}, "" if bad2 is None else "the waiting budget of the occupied branch is no longer tracked per node")


def tries_default_agreement(ctx: Ctx, rule: str) -> None:
    """How many tries a test has is read in three places: the rerun decision, the tries-left bound of is_occupied and the wait budget of a
    waiting worker.  They must use the same default, or the holder legitimately runs more tries than the waiter budgets for (under replay the
    rerun decision defaults to 2 tries).  The default of the re-entrancy limit (max_concurrent_tries) is a different quantity and excluded."""
    import re as _re

    sites = {}
    for fref in (f"{NODE}:TestNode.should_rerun", f"{NODE}:TestNode.is_occupied", T.TOT):
        fn = ctx.repo.func(fref)
        ctx.touch(fref)
        inner = {id(a) for c in calls_in(fn.node) if call_name(c) == "get_numeric" and c.args and isinstance(c.args[0], ast.Constant) and c.args[0].value == "max_concurrent_tries"
                 for a in c.args[1:] for a in ast.walk(a)}
        for c in calls_in(fn.node):
            if call_name(c) == "get_numeric" and c.args and isinstance(c.args[0], ast.Constant) and c.args[0].value == "max_tries" and id(c) not in inner:
                d = ast.unparse(c.args[1]) if len(c.args) > 1 else "<none>"
                d = _re.sub(r"\b(self|next|test_node)\.params\b", "P", d)
                sites.setdefault(fref.split(":")[-1], set()).add(d)
    defaults = set().union(*sites.values()) if sites else set()
    ok = len(sites) == 3 and len(defaults) == 1
    ctx.record(rule, "SIBLING", f"{NODE}:TestNode.is_occupied", "the rerun decision, the tries-left bound of is_occupied and the wait budget read max_tries with one and the same default", ok,
               {k: sorted(v) for k, v in sites.items()},
               "" if ok else f"the number of tries defaults differently: { {k: sorted(v) for k, v in sites.items()} } - under replay the rerun decision grants 2 tries while the waiter budgets "
               "for 1: it gives up after one timeout, is let in, finds no try left and runs the dependants while the second try is still running")


def run(ctx: Ctx) -> None:
    from .c02 import wait_budget

    ctx.call(wait_budget, "12")
    ctx.call(T.t_a1, "1/T.A1")
    ctx.call(T.t_a1_owner, "2")
    ctx.call(T.t_p1, "3/T.P1")
    ctx.call(T.t_e1, "4/T.E1")
    ctx.call(T.t_s1, "5/T.S1")
    ctx.call(T.t_s1c, "5c/T.S1c")
    ctx.call(is_occupied_rule, "6")
    ctx.call(tries_default_agreement, "13")
    ctx.call(reentrancy_rule, "7")
    ctx.call(occupied_bounce, "8")
    from ..kinds import signature_defaults

    ctx.call(signature_defaults, "11", {
        "cartgraph/node.py:TestNode.is_started": {"worker": "None", "threshold": "1"},
        "cartgraph/node.py:TestNode.is_finished": {"worker": "None", "threshold": "1"},
        "cartgraph/node.py:TestNode.is_occupied": {"worker": "None"},
    }, "occupation and finished tests are eager (one worker suffices) unless a caller asks otherwise")
    ctx.call(T.t_o1, "9/T.O1")
    from . import graphrules as GR

    ctx.call(GR.bridge_table, "10b")
    ctx.call(GR.bridging_sites, "10")
    from . import atoms as A

    ctx.call(A.definitions, "11", only=('shared_started_workers','shared_finished_workers','bridged_nodes'))
    ctx.call(A.involved_workers, "11i")
    ctx.call(A.fresh_state, "11f")


G = "cartgraph/graph.py"
MUTANTS = [
    ("occupation-ignores-replay-default", NODE, "        # the default number of tries is the one the rerun decision uses\n        max_tries = self.params.get_numeric(\n            \"max_tries\", 2 if self.params.get(\"replay\") else 1\n        )", "        max_tries = self.params.get_numeric(\"max_tries\", 1)", "13"),
    ("two-workers-by-default-under-replay", NODE, "            \"max_concurrent_tries\", self.params.get_numeric(\"max_tries\", 1)\n", "            \"max_concurrent_tries\", max_tries\n", "6o"),
    ("reentrancy-ignores-spent-tries", NODE, "            max_concurrent_tries = min(\n                max_concurrent_tries, max_tries - len(spent_tries)\n            )", "            pass", "6t"),
    ("reentrancy-counts-inflight-as-left", NODE, "spent_tries = [r for r in self.shared_results if r[\"status\"] != \"UNKNOWN\"]", "spent_tries = []", "6t"),
    ("await-in-test-and-set", G, "        if test_node.is_occupied(worker):\n            return\n        test_node.started_worker = worker\n\n        # add previous",
     "        if test_node.is_occupied(worker):\n            return\n        await asyncio.sleep(0)\n        test_node.started_worker = worker\n\n        # add previous", "1/T.A1"),
    ("no-occupied-test-in-reverse", G, "        if test_node.is_occupied(worker):\n            return\n        test_node.started_worker = worker\n        if test_node.should_clean(worker):",
     "        test_node.started_worker = worker\n        if test_node.should_clean(worker):", "1/T.A1"),
    ("early-release", G, "        if test_node.should_run(worker):\n\n            if test_node.is_object_root():",
     "        if test_node.should_run(worker):\n            test_node.started_worker = None\n\n            if test_node.is_object_root():", "3/T.P1"),
    ("marker-written-in-node", NODE, "        self.prefix = \"0\" + self.prefix\n", "        self.prefix = \"0\" + self.prefix\n        self.started_worker = None\n", "2"),
    ("threshold-floor-zero", NODE, "return self.is_started(worker, max(max_concurrent_tries, 1))", "return self.is_started(worker, max(max_concurrent_tries, 0))", "6"),
    ("threshold-gt", NODE, "            return len(self.shared_started_workers) >= threshold", "            return len(self.shared_started_workers) > threshold", "6d"),
    ("reentrancy-not-accumulating", G, "next.params.get_numeric(\"max_concurrent_tries\", 0) + 1", "next.params.get_numeric(\"max_tries\", 1) + 1", "7b"),
    ("reentrancy-without-budget", G, "                    if occupied_wait > test_duration:", "                    if occupied_wait > 0:", "7b"),
    ("own-marker-only", NODE, "        for bridged_node in self.bridged_nodes:\n            if bridged_node.started_worker is not None:\n                workers.add(bridged_node.started_worker)\n        return workers",
     "        return workers", "6b"),
    ("P-return-none", G, "        if test_node.is_occupied(worker):\n            return\n        test_node.started_worker = worker\n\n        # add previous",
     "        occupied = test_node.is_occupied(worker)\n        if occupied:\n            return None\n        test_node.started_worker = worker\n\n        # add previous", None),
]
