"""C04 — a test is never executed by two workers of one scope at the same time."""
from . import traversal as T

EXPLANATION = "structural necessary conditions of mutual exclusion on a single asyncio loop"
DECIDED = []
NOT_DECIDED = []
MIN_INSTANCES = 5


def run(ctx):
    T.t_a1(ctx, "1/T.A1")
    T.t_a1_owner(ctx, "2/owner")
    T.t_p1(ctx, "3/T.P1")
    T.t_e1(ctx, "4/T.E1")
    T.t_s1(ctx, "5/T.S1")
    T.t_g1(ctx, "x/T.G1")
    T.t_g2(ctx, "x/T.G2")
    T.t_g3(ctx, "x/T.G3")
    T.t_g4(ctx, "x/T.G4")
    T.t_g5(ctx, "x/T.G5")
    T.t_w1(ctx, "x/T.W1")
    T.t_a2(ctx, "x/T.A2")
    T.t_a2b(ctx, "x/T.A2b")
    T.t_r1(ctx, "x/T.R1")
    T.t_o1(ctx, "x/T.O1")
