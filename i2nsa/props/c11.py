"""C11 — command line selections and overrides mean what the documentation says."""

from __future__ import annotations

import ast

from .. import norm
from ..ctx import Ctx
from ..facts import PathView, is_call_named
from ..kinds import TableSpec, expr_formula, function_views, guard_rule, loop_iteration_views, names_interesting, table_rule, the_loop
from ..paths import PathEnum, first_line
from ..repo import AnalysisError, call_name, calls_in
from . import nodetables as N

CMD = "cmd_parser.py"
PFC = f"{CMD}:params_from_cmd"
B = N.B

EXPLANATION = (
    "Equality with the Cartesian parser's own selection is a statement about the parser's semantics and is not decided. "
    "Decided is the tokenizer: the classification table of every key=value argument (what it accumulates, replaces or "
    "rejects), that every rejection raises before anything is used, that repeated only/no and per-vm restrictions "
    "accumulate, that defaults are appended only when nothing primary was given, that unselected vms are removed, that "
    "the conflict check between explicit nets and a nets restriction is symmetric, and that the user's parameter "
    "dictionary is the last parsing step of every test (override reaches every parsed test)."
)
DECIDED = [
    "C11.1 classification table of the tokenizing loop (effects and rejections per kind of key)",
    "C11.2 defaults: 'only <default>' iff no primary restriction was given (invalid default raises); per-vm default iff none given; unselected vms deleted",
    "C11.3 step order of Reparsable.parse_next_batch and of get_parser; the user dictionary is the last step for flat nodes and composite nodes",
    "C11.4 explicit nets vs nets restriction: rejected in both orders",
    "C11.5 the plugins do not swallow parser errors",
    "C11.6 restrictions accumulate by whole lines on nodes and objects alike",
    "C11.7 a restriction that selects nothing raises EmptyCartesianProduct (detection on by default, switched off only for the internal peek)",
]
NOT_DECIDED = ["equality of the selected set with the Cartesian parser's for equivalent restrictions", "the 'only a only b' == 'a..b' equivalence (parser semantics)"]
MIN_INSTANCES = 14


def _one_iteration_paths(views, outer):
    """Drop paths on which an inner loop runs zero times (collections are assumed non-empty)."""
    out = []
    for v in views:
        seen = {}
        ok = True
        for st in v.steps:
            if st.kind == "iter" and st.node is not outer and id(st.node) not in seen:
                seen[id(st.node)] = st.extra
                if st.extra == "exhausted":
                    ok = False
        if ok:
            out.append(v)
    return out


EFFECTS = {
    "tests_str": "tests_str", "nets_str": "nets_str", "use_tests_default": "use_tests_default",
    "with_nontrivial_restrictions": "with_nontrivial", "with_explicit_nets": "with_explicit_nets",
}


def _effects(v: PathView) -> frozenset:
    out = set()
    for i, s in v.stmts():
        if isinstance(s, ast.AugAssign):
            t = ast.unparse(s.target)
            out.add(f"{t.split('[')[0]}+=")
        elif isinstance(s, ast.Assign):
            t = ast.unparse(s.targets[0])
            if t in ("re_param", "(key, value)", "key, value", "vm_str", "value"):
                continue
            if t.startswith("param_dict["):
                key = ast.unparse(s.targets[0].slice)
                out.add("param_dict['nets']=" if key == "'nets'" else "param_dict[key]=")
            elif t.startswith("use_vms_default["):
                out.add("use_vms_default[vm]=" + ast.unparse(s.value))
            elif t.startswith("with_selected_vms"):
                out.add("with_selected_vms[:]=")
            elif t == "nets_str":
                out.add("nets_str=")
            else:
                out.add(f"{t}=" + (ast.unparse(s.value) if isinstance(s.value, ast.Constant) else ""))
    return frozenset(out)


def tokenizer_table(ctx: Ctx, rule: str) -> None:
    fn = ctx.repo.func(PFC)
    ctx.require_locals(PFC, ["tests_str", "nets_str", "vm_strs", "param_dict", "use_tests_default", "use_vms_default", "with_selected_vms",
                             "with_explicit_nets", "with_nontrivial_restrictions", "key", "value", "re_param", "available_vms", "available_restrictions"])
    loop = the_loop(ctx, PFC, ast.For, lambda l: ast.unparse(l.iter) == "config['params']", "tokenizing loop over config['params']")
    views = _one_iteration_paths(loop_iteration_views(ctx, PFC, loop, None), loop)
    matchers = [
        N.M("BAD", "re_param is None", "re.match('(\\\\w+)=(.*)', cmd_param) is None"),
        N.M("ONLY", "key == 'only'"), N.M("NO", "key == 'no'"),
        N.M("PONLY", "key.startswith('only_')"), N.M("PNO", "key.startswith('no_')"),
        N.M("NETSRE", pred=lambda t: t in ("re.match('(only|no)_nets', key)", "re.fullmatch('(only|no)_nets', key)")),
        N.M("VMRE", pred=lambda t: t.startswith("re.match(f'(only|no)_{vm_name}'") or t.startswith("re.fullmatch(f'(only|no)_{")),
        N.M("VMS", "key == 'vms'"), N.M("NETS", "key == 'nets'"),
        N.M("VARIN", "variant in available_restrictions"),
        N.M("UNKNOWNVM", "vm_name not in available_vms"),
        N.M("HASRESTR", "nets_str != ''"),
        N.M("HASRESTR", "with_restricted_nets"),  # either spelling of "a nets restriction was given"; which one is right is rule C11.1o
        N.M("EXPL", "with_explicit_nets"),
    ]

    def reference(v):
        if v["BAD"]:
            return ("raise:ValueError", frozenset())
        if v["ONLY"] or v["NO"]:
            eff = {"tests_str+="}
            eff.add("use_tests_default=False" if v["VARIN"] else "with_nontrivial_restrictions=True")
            return ("next", frozenset(eff))
        if v["PONLY"] or v["PNO"]:
            if v["NETSRE"]:
                if v["EXPL"]:
                    return ("raise:ValueError", frozenset())
                return ("next", frozenset({"nets_str=", "param_dict['nets']="}))
            if v["VMRE"]:
                return ("next", frozenset({"use_vms_default[vm]=False", "vm_strs+="}))
            return ("raise:ValueError", frozenset())
        if v["VMS"]:
            if v["UNKNOWNVM"]:
                return ("raise:ValueError", frozenset({"with_selected_vms[:]="}))
            return ("next", frozenset({"with_selected_vms[:]="}))
        if v["NETS"]:
            if v["HASRESTR"]:
                return ("raise:ValueError", frozenset())
            return ("next", frozenset({"param_dict[key]=", "with_explicit_nets=True"}))
        return ("next", frozenset({"param_dict[key]="}))

    spec = TableSpec({k: B for k in ("BAD", "ONLY", "NO", "PONLY", "PNO", "NETSRE", "VMRE", "VMS", "NETS", "VARIN", "UNKNOWNVM", "HASRESTR", "EXPL")},
                     matchers, reference)

    def outcome(view: PathView, val, free):
        p = view.path
        term = "raise:" + (PathEnum._raised_name(p.exit_node) or "?") if p.exit == "raise" else "next"
        # the bookkeeping flag of the conflict test is the subject of C11.1o, not an effect of the argument
        return (term, frozenset(e for e in _effects(view) if not e.startswith("with_restricted_nets")))

    table_rule(ctx, rule, PFC, views, spec, outcome,
               construct="per argument: malformed -> ValueError; only/no -> tests_str accumulates; (only|no)_nets -> nets restriction (rejected after explicit nets); "
               "(only|no)_<vm> -> that vm's restriction accumulates, default dropped; other only_/no_ -> ValueError; vms -> validated selection; "
               "nets -> explicit (rejected after a restriction); else parameter override")
    # the values written
    stores = {}
    for s in ast.walk(loop):
        if isinstance(s, ast.AugAssign):
            stores.setdefault(ast.unparse(s.target) + "+=", []).append(ast.unparse(s.value))
        elif isinstance(s, ast.Assign):
            stores.setdefault(ast.unparse(s.targets[0]), []).append(ast.unparse(s.value))
    ok = (stores.get("tests_str+=") == ["'%s %s\\n' % (key, value)"]
          and stores.get("vm_strs[vm_name]+=") == ["vm_str"]
          and stores.get("vm_str") == ["'%s %s\\n' % (key.replace(f'_{vm_name}', ''), value) if value else ''"]
          and stores.get("nets_str") == ["'%s %s\\n' % (key.replace('_nets', ''), value) if value else ''"]
          and stores.get("param_dict['nets']") == ["' '.join(param.all_suffixes_by_restriction(nets_str))"]
          and stores.get("param_dict[key]") == ["value", "value"]
          and stores.get("value") == ["value.replace(',', ' ')", "value.replace(',', ' ')"]
          and stores.get("with_selected_vms[:]") == ["value.split(',')"])
    ctx.record(rule + "v", "PROV", PFC, "values written: '<only|no> <value>\\n' lines (key without object suffix), nets from the restriction, K=V with ',' -> ' '", ok,
               {k: v for k, v in stores.items() if k in ("tests_str+=", "vm_strs[vm_name]+=", "nets_str", "param_dict[key]")},
               "" if ok else "what the tokenizer writes for an argument changed")
    splits = [c for c in calls_in(loop) if ast.unparse(c.func) == "re.split"]
    oks = len(splits) == 1 and isinstance(splits[0].args[0], ast.Constant) and set(splits[0].args[0].value.split("|")) == {",", "\\.", "\\.\\."} \
        and ast.unparse(splits[0].args[1]) == "value"
    ctx.record(rule + "s", "CONST", PFC, "primary-restriction detection splits the value on ',', '.' and '..'", oks,
               {"pattern": splits[0].args[0].value if splits and isinstance(splits[0].args[0], ast.Constant) else None},
               "" if oks else "a primary test set joined by '.' or ',' is no longer recognised (the default set would be added on top)")
    rx_ = [s for s in ast.walk(loop) if isinstance(s, ast.Assign) and ast.unparse(s.targets[0]) == "re_param"]
    okr = len(rx_) == 1 and ast.unparse(rx_[0].value) == "re.match('(\\\\w+)=(.*)', cmd_param)"
    ctx.record(rule + "r", "CONST", PFC, "argument syntax is (\\w+)=(.*) matched from the start", okr, {}, "" if okr else "the accepted argument syntax changed")
    post = [s for s in fn.node.body if isinstance(s, ast.Assign) and ast.unparse(s.targets[0]) == "config['param_dict']"]
    okp = len(post) == 1 and ast.unparse(post[0].value) == "param_dict"
    ctx.record(rule + "p", "PROV", PFC, "config['param_dict'] is the dictionary filled by the loop", okp, {}, "" if okp else "the parsed overrides are not what is published in config['param_dict']")


def defaults(ctx: Ctx, rule: str) -> None:
    fref = f"{CMD}:full_tests_params_and_str"
    views = function_views(ctx, fref, None)
    n, problems = 0, []
    for v in views:
        adds = [(i, s) for i, s in v.stmts(lambda s: isinstance(s, ast.AugAssign) and ast.unparse(s.target) == "tests_str")]
        prem = norm.conj([v.cond_formula(i) for i, s in enumerate(v.steps) if s.kind == "cond"])
        utd = ("atom", "use_tests_default")
        if v.path.exit == "raise":
            if not norm.implies(prem, norm.conj([utd, ("not", ("atom", "default in available_restrictions"))])) and \
               not norm.implies(norm.conj([v.cond_formula(i) for i, s in enumerate(v.steps) if s.kind == "cond"]), utd):
                problems.append("raise outside the default handling")
            continue
        n += 1
        if norm.implies(prem, utd):
            if len(adds) != 1 or ast.unparse(adds[0][1].value) != "'only %s\\n' % default":
                problems.append("with no primary restriction given the default is not appended once")
            raw = [ast.unparse(s.node) for s in v.steps if s.kind == "cond" and not s.pol]
            if "default not in available_restrictions" not in raw:
                problems.append("the default restriction is not validated against the available ones")
        elif adds:
            problems.append("a default is appended although a primary restriction was given")
        if not (norm.implies(prem, utd) or norm.implies(prem, norm.neg(utd))):
            problems.append("the default handling does not depend on whether a primary restriction was given")
    ctx.record(rule, "TABLE", fref, "tests: 'only <default>' appended iff use_tests_default; default not among available -> ValueError", not problems and n == 2,
               {"paths": n}, "" if not problems and n == 2 else (problems[0] if problems else "unexpected shape"))
    fn = ctx.repo.func(fref)
    d = [s for s in ast.walk(fn.node) if isinstance(s, ast.Assign) and ast.unparse(s.targets[0]) == "default"]
    okd = len(d) == 1 and ast.unparse(d[0].value) == "tests_params.get('default_only', 'all')"
    ctx.record(rule + "d", "CONST", fref, "default primary set = default_only parameter (fallback 'all')", okd, {}, "" if okd else "the default primary restriction changed")
    fref2 = f"{CMD}:full_vm_params_and_strs"
    loop = the_loop(ctx, fref2, ast.For, lambda l: True, "loop over vms")
    vm = loop.target.id
    views2 = loop_iteration_views(ctx, fref2, loop, None)
    bad = None
    n2 = 0
    for v in views2:
        adds = [s for i, s in v.stmts(lambda s: isinstance(s, ast.AugAssign) and ast.unparse(s.target) == f"vm_strs[{vm}]")]
        prem = v.premise(len(v.steps), 0)
        use = ("atom", f"use_vms_default[{vm}]")
        if adds:
            n2 += 1
            conds_ = norm.conj([v.cond_formula(i) for i, s in enumerate(v.steps) if s.kind == "cond"])
            # `+= 'only <default>\n' if default else ''` (the conditional is a branch of the path)
            val = ast.unparse(adds[0].value)
            has_default = norm.implies(conds_, v.formula_of(ast.parse("default", mode="eval").body, len(v.steps)))
            good_val = (val == "'only %s\\n' % default" and has_default) or (val == "''" and not has_default)
            if not norm.implies(conds_, use) or not good_val:
                bad = v
    ctx.record(rule + "v", "GUARD", fref2, "per vm: its default restriction is appended only if no restriction for that vm was given", bad is None and n2 >= 1, {},
               "" if bad is None and n2 >= 1 else "vm defaults are appended although the command line restricts that vm")
    # unselected vms removed
    fn3 = ctx.repo.func(PFC)
    dels = [l for l in fn3.node.body if isinstance(l, ast.For) and any(isinstance(x, ast.Delete) for x in ast.walk(l))]
    okx = len(dels) == 1 and ast.unparse(dels[0].iter) == "available_vms"
    if okx:
        l = dels[0]
        ifs = [i for i in l.body if isinstance(i, ast.If)]
        okx = len(ifs) == 1 and ast.unparse(ifs[0].test) == f"{l.target.id} not in with_selected_vms" and \
            [ast.unparse(x) for x in ifs[0].body] == [f"del config['vm_strs'][{l.target.id}]"]
    ctx.record(rule + "x", "GUARD", PFC, "vms not selected by vms= are removed from config['vm_strs']", okx, {}, "" if okx else "unselected vms are no longer removed from the vm restrictions")
    sel = [s for s in fn3.node.body if isinstance(s, ast.Assign) and ast.unparse(s.targets[0]) == "config['vms_params']['vms']"]
    oks = len(sel) == 1 and ast.unparse(sel[0].value) == "' '.join(with_selected_vms)"
    ctx.record(rule + "y", "PROV", PFC, "the selected vms are published as vms_params['vms']", oks, {}, "" if oks else "the vm selection is not published")


def step_order(ctx: Ctx, rule: str) -> None:
    fref = "params_parser.py:Reparsable.parse_next_batch"
    fn = ctx.repo.func(fref)
    ctx.touch(fref)
    body = [s for s in fn.node.body if not (isinstance(s, ast.Expr) and isinstance(s.value, ast.Constant))]
    got = []
    for s in body:
        if isinstance(s, ast.If) and len(s.body) == 1 and isinstance(s.body[0], ast.Expr) and isinstance(s.body[0].value, ast.Call) and not s.orelse:
            c = s.body[0].value
            got.append((ast.unparse(s.test), call_name(c), ast.unparse(c.args[0]) if c.args else None))
        else:
            got.append(("?", first_line(s), None))
    want = [("base_file", "parse_next_file", "base_file"), ("base_str", "parse_next_str", "base_str"), ("base_dict", "parse_next_dict", "base_dict"),
            ("ovrwrt_file", "parse_next_file", "ovrwrt_file"), ("ovrwrt_str", "parse_next_str", "ovrwrt_str"), ("ovrwrt_dict", "parse_next_dict", "ovrwrt_dict")]
    ctx.record(rule, "ORDER", fref, "steps in the fixed order: base file, str, dict, overwrite file, str, dict", got == want, {"found": got},
               "" if got == want else f"the order in which configuration steps are applied changed: {got}")
    fref2 = "params_parser.py:Reparsable.get_parser"
    fn2 = ctx.repo.func(fref2)
    ctx.touch(fref2)
    loops = [l for l in ast.walk(fn2.node) if isinstance(l, ast.For) and ast.unparse(l.iter) == "self.steps"]
    ok = len(loops) == 1 and not any(isinstance(x, (ast.Break, ast.Continue)) for x in ast.walk(loops[0])) and len(loops[0].body) == 3
    ctx.record(rule + "g", "ORDER", fref2, "the parser is fed every recorded step, in recording order", ok, {}, "" if ok else "not every recorded configuration step reaches the parser in order")
    for name in ("parse_next_file", "parse_next_str", "parse_next_dict"):
        f = ctx.repo.func(f"params_parser.py:Reparsable.{name}")
        apps = [c for c in calls_in(f.node) if call_name(c) == "append" and ast.unparse(c.func.value) == "self.steps"]
        ins = [c for c in calls_in(f.node) if call_name(c) in ("insert",) and "steps" in ast.unparse(c.func.value)]
        ctx.record(rule + "a", "ORDER", f.ref, "a step is appended at the end of self.steps", len(apps) == 1 and not ins, {}, "" if len(apps) == 1 and not ins else "a step is not appended last")
    # the user dictionary is the last step of every parsed test
    f = ctx.repo.func("cartgraph/graph.py:TestGraph.parse_flat_nodes")
    c = [x for x in calls_in(f.node) if call_name(x) == "parse_next_batch"]
    kws = {k.arg: ast.unparse(k.value) for k in c[0].keywords} if len(c) == 1 else {}
    ok1 = kws == {"base_file": "f'sets.cfg'", "base_str": "restriction", "base_dict": "params"} or kws == {"base_file": "'sets.cfg'", "base_str": "restriction", "base_dict": "params"}
    ctx.record(rule + "f", "ORDER", f.ref, "flat nodes: sets.cfg, the restriction, then the runtime parameter dictionary (last)", ok1, {"found": kws},
               "" if ok1 else "command line overrides are no longer the last parsing step of flat test nodes")
    f = ctx.repo.func("cartgraph/graph.py:TestGraph.parse_node_from_object")
    c = [x for x in calls_in(f.node) if call_name(x) == "parse_next_batch"]
    kws = {k.arg: ast.unparse(k.value) for k in c[0].keywords} if len(c) == 1 else {}
    sd = [s for s in ast.walk(f.node) if isinstance(s, ast.Assign) and ast.unparse(s.targets[0]) == "setup_dict"]
    ok2 = kws == {"base_file": "'sets.cfg'", "ovrwrt_file": "param.tests_ovrwrt_file()", "ovrwrt_str": "restriction", "ovrwrt_dict": "setup_dict"} \
        and len(sd) == 1 and ast.unparse(sd[0].value) == "params.copy() if params else {}"
    ctx.record(rule + "c", "ORDER", f.ref, "composite nodes: sets.cfg, overwrite file, restriction, then a copy of the runtime parameters (+ the net) as the last step", ok2,
               {"found": kws}, "" if ok2 else "command line overrides are no longer the last parsing step of composite test nodes")
    f = ctx.repo.func("plugins/loader.py:TestLoader.resolve")
    src = ast.unparse(f.node)
    ok3 = "params, restriction = (self.config['param_dict'], self.config['tests_str'])" in src and "TestGraph.parse_flat_nodes(restriction, params)" in src
    ctx.record(rule + "l", "PROV", f.ref, "the loader parses tests from config['tests_str'] with config['param_dict'] as parameters", ok3, {},
               "" if ok3 else "the loader no longer passes the command line selection and overrides to the parser")


def conflict_symmetry(ctx: Ctx, rule: str) -> None:
    fn = ctx.repo.func(PFC)
    loop = the_loop(ctx, PFC, ast.For, lambda l: ast.unparse(l.iter) == "config['params']", "tokenizing loop")
    views = _one_iteration_paths(loop_iteration_views(ctx, PFC, loop, None), loop)
    stores = {"restriction": [], "explicit": []}
    for v in views:
        if v.path.exit == "raise":
            continue
        prem = norm.conj([v.cond_formula(i) for i, s in enumerate(v.steps) if s.kind == "cond"])
        for i, s in v.stmts(lambda s: isinstance(s, ast.Assign) and ast.unparse(s.targets[0]).startswith("param_dict[")):
            key = ast.unparse(s.targets[0].slice)
            if key == "'nets'":
                stores["restriction"].append((v, i))
            elif norm.implies(prem, ("atom", "key == 'nets'")):
                stores["explicit"].append((v, i))
    if not stores["restriction"] or not stores["explicit"]:
        raise AnalysisError(f"{PFC}: the two places storing the net selection were not found")

    def facts(kind):
        assigned, guards = set(), set()
        for v, i in stores[kind]:
            for k, s in v.stmts(lambda s: isinstance(s, ast.Assign) and isinstance(s.targets[0], ast.Name)):
                assigned.add(s.targets[0].id)
            for k, st in enumerate(v.steps):
                if st.kind == "cond" and k < i:
                    guards |= {n.id for n in ast.walk(st.node) if isinstance(n, ast.Name)}
        return assigned, guards

    a_r, g_r = facts("restriction")
    a_e, g_e = facts("explicit")
    raises = {"restriction": False, "explicit": False}
    for v in views:
        if v.path.exit == "raise":
            prem = norm.conj([v.cond_formula(i) for i, s in enumerate(v.steps) if s.kind == "cond"])
            names = {n for a in norm.atoms_of(prem) for n in norm.names_in(a)}
            if any(norm.implies(prem, ("atom", f"re.{m}('(only|no)_nets', key)")) for m in ("match", "fullmatch")) and (names & a_e):
                raises["restriction"] = True
            if norm.implies(prem, ("atom", "key == 'nets'")) and (names & a_r):
                raises["explicit"] = True
    ok = raises["restriction"] and raises["explicit"]
    ctx.record(rule, "SIBLING", PFC, "both branches that set the net selection raise when the other kind of selection was seen before", ok,
               {"state_set_by_restriction_branch": sorted(a_r), "state_set_by_explicit_branch": sorted(a_e), "raises": raises},
               "" if ok else f"conflicting net selections are rejected in one order only: {raises}")


def empty_product_detection(ctx: Ctx, rule: str) -> None:
    """A restriction that selects nothing is rejected (EmptyCartesianProduct), never read as 'no restriction'."""
    from ..kinds import call_sites, signature_defaults

    signature_defaults(ctx, rule, {"params_parser.py:Reparsable.get_parser": {"show_empty_cartesian_product": "True"}}, "empty Cartesian products are detected by default")
    off = []
    for f, c in call_sites(ctx.repo, "get_parser"):
        for k in c.keywords:
            if k.arg == "show_empty_cartesian_product" and ast.unparse(k.value) != "True":
                if not (f is not None and f.ref == "params_parser.py:Reparsable.get_parser"):
                    off.append((f.ref if f else None, ast.unparse(c)))
    ctx.record(rule + "c", "OWNER", "avocado_i2n", "empty-product detection is switched off only for get_parser's own internal peek", not off, {"sites": off},
               "" if not off else f"a restriction matching nothing is silently accepted: {off[0]}")
    f = ctx.repo.func("params_parser.py:Reparsable.get_parser")
    ctx.touch(f.ref)
    raises = [r for r in ast.walk(f.node) if isinstance(r, ast.Raise) and PathEnum._raised_name(r) == "EmptyCartesianProduct"]
    hs = [h for t in ast.walk(f.node) if isinstance(t, ast.Try) for h in t.handlers if ast.unparse(h.type) == "StopIteration"]
    ok = len(raises) == 1 and len(hs) == 1 and any(r is x for r in raises for x in ast.walk(hs[0]))
    # the detection is reached exactly when requested: the enclosing tests of the peek's try are `show_dictionaries or
    # show_empty_cartesian_product` and `show_empty_cartesian_product`; every step kind feeds the parser (file / string / dict)
    def enclosing_tests(node):
        out = []
        def walk(cur, acc):
            for fld in ("body", "orelse"):
                for ch in getattr(cur, fld, []) or []:
                    a2 = acc + ([(cur.test, fld == "body")] if isinstance(cur, ast.If) else [])
                    if ch is node:
                        out.extend(a2)
                    walk(ch, a2)
        walk(f.node, [])
        return out
    tr = [t for t in ast.walk(f.node) if isinstance(t, ast.Try) and hs and hs[0] in t.handlers]
    enc = enclosing_tests(tr[0]) if tr else []
    want = [norm.formula(ast.parse("show_dictionaries or show_empty_cartesian_product", mode="eval").body), norm.formula(ast.parse("show_empty_cartesian_product", mode="eval").body)]
    got = [norm.formula(t) if pos else norm.neg(norm.formula(t)) for t, pos in enc]
    reach_ok = len(got) == 2 and all(any(norm.equivalent(g, w) for g in got) for w in want)
    feeds = {}
    for i_ in ast.walk(f.node):
        if isinstance(i_, ast.If) and isinstance(i_.test, ast.Call) and call_name(i_.test) == "isinstance" and len(i_.body) == 1:
            feeds[ast.unparse(i_.test.args[1])] = ast.unparse(i_.body[0])
    feeds_ok = feeds == {"ParsedFile": "parser.parse_file(step.filename)", "ParsedStr": "parser.parse_string(step.content)", "ParsedDict": "parser.parse_string(step.parsable_form())"}
    ok = ok and reach_ok and feeds_ok
    ctx.record(rule + "r", "TABLE", f.ref, "no first variant (StopIteration on the peek) -> EmptyCartesianProduct; the peek runs exactly when detection is requested; file / string / dict steps all reach the parser",
               ok, {"reach": reach_ok, "feeds": feeds}, "" if ok else "an empty Cartesian product no longer raises (or a kind of parsing step is not fed to the parser)")
    g = ctx.repo.func("params_parser.py:all_suffixes_by_restriction")
    ctx.touch(g.ref)
    # structural, not textual: one Reparsable; on it, in order, parse_next_file(f"{key}.cfg"), parse_next_str(restriction), get_parser();
    # the result is an unfiltered comprehension of d["shortname"] over that parser's get_dicts()
    seq = [(ast.unparse(c.func), [ast.unparse(a_) for a_ in c.args], [k.arg for k in c.keywords]) for c in sorted(
        (c for c in ast.walk(g.node) if isinstance(c, ast.Call) and isinstance(c.func, ast.Attribute) and c.func.attr in ("parse_next_file", "parse_next_str", "parse_next_dict", "parse_next_batch_file", "get_parser")),
        key=lambda c: (c.lineno, c.col_offset))]
    rets = [r for r in ast.walk(g.node) if isinstance(r, ast.Return)]
    comp = rets[0].value if len(rets) == 1 else None
    parser_names = {t.id for a_ in ast.walk(g.node) if isinstance(a_, ast.Assign) and isinstance(a_.value, ast.Call) and ast.unparse(a_.value.func).endswith(".get_parser") for t in a_.targets if isinstance(t, ast.Name)}
    ok_ret = (isinstance(comp, ast.ListComp) and len(comp.generators) == 1 and not comp.generators[0].ifs
              and isinstance(comp.generators[0].iter, ast.Call) and isinstance(comp.generators[0].iter.func, ast.Attribute) and comp.generators[0].iter.func.attr == "get_dicts"
              and ast.unparse(comp.generators[0].iter.func.value) in parser_names
              and isinstance(comp.elt, ast.Subscript) and ast.unparse(comp.elt.slice) == "'shortname'" and ast.unparse(comp.elt.value) == ast.unparse(comp.generators[0].target))
    recv = {x[0].rsplit(".", 1)[0] for x in seq}
    ok_seq = ([x[0].rsplit(".", 1)[1] for x in seq] == ["parse_next_file", "parse_next_str", "get_parser"] and len(recv) == 1
              and seq[0][1] == ["f'{key}.cfg'"] and seq[1][1] == ["restriction"] and seq[2][1] == [] and seq[2][2] == [])
    ok2 = bool(ok_ret and ok_seq)
    body = {"calls": seq, "return": ast.unparse(comp) if comp is not None else None}
    ctx.record(rule + "n", "PROV", g.ref, "nets restriction -> suffixes: <key>.cfg, then the restriction, parser with empty-product detection, every variant's shortname", ok2, {"body": body},
               "" if ok2 else "the resolution of a nets restriction into suffixes changed")


def object_key_exact(ctx: Ctx, rule: str) -> None:
    """A restriction key names its object exactly: `only_vm11=` is not a restriction of vm1, `only_netsx=` not one of nets."""
    fn = ctx.repo.func(PFC)
    sites = [c for c in calls_in(fn.node) if isinstance(c.func, ast.Attribute) and ast.unparse(c.func.value) == "re" and c.func.attr in ("match", "fullmatch", "search")
             and c.args and "(only|no)_" in ast.unparse(c.args[0])]
    bad = []
    for c in sites:
        pat = c.args[0]
        anchored = c.func.attr == "fullmatch" or ast.unparse(pat).rstrip("'\"").endswith("$")
        # an interpolated object name must not be read as a regular expression
        interpolated = [v.value for v in ast.walk(pat) if isinstance(v, ast.FormattedValue)]
        escaped = all(isinstance(v, ast.Call) and ast.unparse(v.func) == "re.escape" for v in interpolated)
        if not anchored:
            bad.append(f"{ast.unparse(c)[:60]}: prefix match (a key that merely starts with the object's name is attributed to it)")
        elif not escaped:
            bad.append(f"{ast.unparse(c)[:60]}: object name interpolated unescaped")
    ok = not bad and len(sites) >= 2
    ctx.record(rule, "TABLE", PFC, "object restriction keys are matched as a whole: (only|no)_nets and (only|no)_<vm> with nothing following, the vm name taken literally", ok,
               {"sites": [ast.unparse(c)[:80] for c in sites]}, "" if ok else (bad[0] if bad else "the classification of object restriction keys vanished"))


def error_handling(ctx: Ctx, rule: str) -> None:
    for fref in ("plugins/manu.py:Manu.run", "plugins/auto.py:Auto.run"):
        fn = ctx.repo.func(fref)
        ctx.touch(fref)
        calls = [c for c in calls_in(fn.node) if call_name(c) == "params_from_cmd"]
        ok = len(calls) == 1
        for t in [t for t in ast.walk(fn.node) if isinstance(t, ast.Try) and any(c is x for c in calls for s in t.body for x in ast.walk(s))]:
            for h in t.handlers:
                rets = [r for r in ast.walk(h) if isinstance(r, ast.Return)]
                reraise = [r for r in ast.walk(h) if isinstance(r, ast.Raise)]
                good = (len(rets) == 1 and isinstance(rets[0].value, ast.Constant) and rets[0].value.value == 1) or bool(reraise)
                ok = ok and good
        ctx.record(rule, "GUARD", fref, "an error of params_from_cmd propagates or ends the plugin with a non-zero code (never swallowed)", ok, {},
                   "" if ok else "a rejected command line is swallowed by the plugin")


def nets_conflict_symmetric(ctx: Ctx, rule: str) -> None:
    """`nets=` and an (only|no)_nets restriction exclude each other "in any order" (the code's own comment); an empty restriction value is a
    restriction too (it is explicitly supported), so the test in the `nets` branch must be on the fact that a restriction was given, not on the
    accumulated restriction text being non-empty."""
    fref = "cmd_parser.py:params_from_cmd"
    fn = ctx.repo.func(fref)
    ctx.touch(fref)
    # the raise guarded in the `nets` branch
    nets_ifs = [i for i in ast.walk(fn.node) if isinstance(i, ast.If) and ast.unparse(i.test) in ("key == 'nets'",)]
    why = ""
    if len(nets_ifs) != 1:
        why = "the nets= branch was not found"
    else:
        guards = [g for g in nets_ifs[0].body if isinstance(g, ast.If) and any(isinstance(x, ast.Raise) for x in g.body)]
        if len(guards) != 1:
            why = "the nets= branch no longer rejects a combination with a nets restriction"
        else:
            t = guards[0].test
            flag = t.id if isinstance(t, ast.Name) else None
            if flag is None:
                why = (f"`nets=` is rejected after a nets restriction only if `{ast.unparse(t)}`: `only_nets= nets=net1` (empty restriction first) is accepted and the restriction "
                       "silently overridden, while `nets=net1 only_nets=` is rejected - the same arguments, another order")
            else:
                # the flag is set wherever the restriction branch records a restriction
                sets = [s_ for s_ in ast.walk(fn.node) if isinstance(s_, ast.Assign) and any(isinstance(x, ast.Name) and x.id == flag for t_ in s_.targets for x in ast.walk(t_))
                        and isinstance(s_.value, ast.Constant) and s_.value.value is True]
                restr_branch = [i for i in ast.walk(fn.node) if isinstance(i, ast.If) and "_nets" in ast.unparse(i.test) and "fullmatch" in ast.unparse(i.test)]
                ok = len(restr_branch) == 1 and any(any(s_ is x for x in ast.walk(restr_branch[0])) and s_ in restr_branch[0].body for s_ in sets)
                if not ok:
                    why = f"the flag `{flag}` tested in the nets= branch is not set unconditionally where a nets restriction is recorded"
    ctx.record(rule, "SIBLING", fref, "both orders of `nets=` and an (only|no)_nets restriction are rejected alike: each branch tests a flag the other sets unconditionally "
               "(an empty restriction value counts)", not why, {}, why)


def run(ctx: Ctx) -> None:
    ctx.call(tokenizer_table, "1")
    ctx.call(nets_conflict_symmetric, "1o")
    ctx.call(defaults, "2")
    ctx.call(step_order, "3")
    from ..kinds import signature_defaults

    ctx.call(signature_defaults, "3d", {
        "params_parser.py:Reparsable.parse_next_batch": {"base_file": "None", "base_str": "''", "base_dict": "None", "ovrwrt_file": "None", "ovrwrt_str": "''", "ovrwrt_dict": "None"},
        "cartgraph/graph.py:TestGraph.parse_flat_nodes": {"restriction": "''", "params": "None", "unique": "False"},
    }, "omitted configuration steps are skipped, not replaced")
    ctx.call(conflict_symmetry, "4")
    ctx.call(error_handling, "5")
    ctx.call(empty_product_detection, "7")
    ctx.call(object_key_exact, "1x")
    from . import graphrules as GR

    ctx.call(GR.restriction_updates, "6")


MUTANTS = [
    ("nets-conflict-by-text", "cmd_parser.py", "            if with_restricted_nets:\n                raise ValueError(", "            if nets_str != \"\":\n                raise ValueError(", "1o"),
    ("empty-product-detected-only-when-off", "params_parser.py", "            if show_empty_cartesian_product:\n                try:", "            if not show_empty_cartesian_product:\n                try:", "7r"),
    ("dict-steps-not-parsed", "params_parser.py", "            if isinstance(step, ParsedDict):\n                parser.parse_string(step.parsable_form())", "            if not isinstance(step, ParsedDict):\n                parser.parse_string(step.parsable_form())", "7r"),
    ("object-key-prefix-match", "cmd_parser.py", "if re.fullmatch(f\"(only|no)_{re.escape(vm_name)}\", key):", "if re.match(f\"(only|no)_{vm_name}\", key):", "1x"),
    ("dot-not-split", CMD, "re.split(r\",|\\.|\\.\\.\", value)", "re.split(r\",|\\.\\.\", value)", "1s"),
    ("vm-restriction-replaced", CMD, "                        vm_strs[vm_name] += vm_str", "                        vm_strs[vm_name] = vm_str", "1"),
    ("tests-restriction-replaced", CMD, "            tests_str += \"%s %s\\n\" % (key, value)", "            tests_str = \"%s %s\\n\" % (key, value)", "1"),
    ("unknown-vm-accepted", CMD, "                if vm_name not in available_vms:\n                    raise ValueError(\n                        \"The vm '%s' is not among the supported vms: \"\n                        \"%s\" % (vm_name, \", \".join(available_vms))\n                    )", "                pass", "1"),
    ("unknown-object-restriction-ignored", CMD, "                    raise ValueError(\n                        f\"Invalid object restriction {key} (no such object)\"\n                    )", "                    pass", "1"),
    ("conflict-one-sided", CMD, "                if with_explicit_nets:\n                    raise ValueError(\n                        f\"Cannot specify a nets restriction {key}={value} together with \"\n                        f\"explicit net suffixes, currently also specified '{param_dict['nets']}'\"\n                    )\n", "", "4"),
    ("default-always-added", CMD, "    if use_tests_default:\n        default = tests_params.get(\"default_only\", \"all\")", "    if True:\n        default = tests_params.get(\"default_only\", \"all\")", "2"),
    ("dict-before-str", "params_parser.py", "        if ovrwrt_str:\n            self.parse_next_str(ovrwrt_str)\n        if ovrwrt_dict:\n            self.parse_next_dict(ovrwrt_dict)", "        if ovrwrt_dict:\n            self.parse_next_dict(ovrwrt_dict)\n        if ovrwrt_str:\n            self.parse_next_str(ovrwrt_str)", "3"),
    ("unselected-vms-kept", CMD, "        if vm_name not in with_selected_vms:\n            del config[\"vm_strs\"][vm_name]", "        if vm_name not in with_selected_vms:\n            pass", "2x"),
    ("comma-kept", CMD, "            # NOTE: comma on the command line is space in a config file\n            value = value.replace(\",\", \" \")", "            # NOTE: comma on the command line is space in a config file", "1"),
    ("manu-swallows-errors", "plugins/manu.py", "            LOG_UI.error(error)\n            return 1\n        intertest.load_addons_tools()", "            LOG_UI.error(error)\n        intertest.load_addons_tools()", "5"),
    ("empty-nets-accepted", "params_parser.py", "    rep.parse_next_str(restriction)\n    parser = rep.get_parser()", "    rep.parse_next_str(restriction)\n    parser = rep.get_parser(show_empty_cartesian_product=False)", "7"),
    ("P-key-order", CMD, "        if key == \"only\" or key == \"no\":", "        if key == \"no\" or key == \"only\":", None),
]
