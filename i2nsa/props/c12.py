"""C12 — state operations follow the documented policy table."""

from __future__ import annotations

import ast
import copy
import os
import re

from .. import norm
from ..ctx import Ctx
from ..facts import PathView
from ..kinds import TableSpec, loop_iteration_views, names_interesting, table_rule, the_loop
from ..paths import PathEnum, first_line
from ..repo import AnalysisError, call_name, calls_in
from . import nodetables as N

SETUP = "states/setup.py"
B = N.B
LETTERS = ["a", "r", "i", "f", "o"]  # "o" stands for any other letter
MUTATORS = ("get", "set", "unset", "get_root", "set_root", "unset_root", "destroy")

EXPLANATION = (
    "For each of check/get/set/unset_states the per-object decision table (presence x both mode letters x root "
    "keyword x backend kind) is extracted from the code by path enumeration over a finite abstract domain and "
    "compared, for every valuation, with the reference table written from the README and docstrings: the ordered "
    "backend effects and the terminal (next object / abort / invalid policy / return False). Skip and unaddressed "
    "rows come first; no backend mutator precedes an abort or invalid-policy raise. The store model over operation "
    "sequences is not decided (it needs a backend semantics)."
)
DECIDED = [
    "C12.1 get_states table", "C12.2 set_states table", "C12.3 unset_states table", "C12.4 check_states table",
    "C12.5 push/pop rows and delegation (defaults af / ra / fa, restriction to the single object)",
    "C12.6 no backend mutator before an abort/invalid raise (rows of the tables carry the ordered effects)",
    "C12.7 README policy table agrees with the code's accepted letters",
    "C12.8 default modes: get ra, set ff, unset fi, check rf",
    "C12.9 _state_check_chain restricts the inner check to the one object and maps <op>_state/<op>_location",
    "C12.10 every registered backend resolves the eight operations",
    "C12.11 the object hierarchy is walked components-first (an image-level abort precedes any vm-level effect of the same call)",
    "C12.12 the per-object loops read only the drilled-down per-object parameters",
    "C12.11w the object iteration never writes its input parameters; C12.4g a root that is about to be set/removed is not fetched by the prerequisite check (known finding F40)",
    'C12.4v object type tests inside operations that are reached with the chain restricted to its last type accept the restricted spelling',
    'C12.5v push/pop remove the suffixed state/mode variants of the delegated operation before it resolves the parameters again',
    'C12.13 every per-object loop starts with the skipped-type and read-only-image guards',
]
NOT_DECIDED = ["set-of-names store model over operation sequences", "non-interference between objects at run time"]
EXHAUSTIVE = True
MIN_INSTANCES = 14


def _letter_matcher(op: str):
    rx = re.compile(r"^state_params\['%s_mode'\]\[(0|1)\] == '(.)'$" % op)

    def m(t: str):
        mm = rx.match(t)
        if not mm:
            return None
        var = "X" if mm.group(1) == "0" else "Y"
        letter = mm.group(2)
        return lambda v: v[var] == letter

    return m


def _common_matchers(op: str):
    def m_sk(t):
        return (lambda v: v["SK"]) if t.endswith(" in state_params.objects('skip_types')") else None

    def m_img(t):
        return (lambda v: v["IMG"]) if t.endswith(" == 'nets/vms/images'") else None

    def m_ro(t):
        return (lambda v: v["RO"]) if t == "state_params.get_boolean('image_readonly', False)" else None

    def m_has(t):
        return (lambda v: v["HAS"]) if t == f"state_params.get('{op}_state')" else None

    def m_root(t):
        if t in (f"state_params['{op}_state'] in ROOTS", "state in ROOTS"):
            return lambda v: v["ROOT"]
        return None

    def m_src(t):
        return (lambda v: v["SRC"]) if t.startswith("issubclass(") and t.endswith("SourcedStateBackend)") else None

    return [m_sk, m_img, m_ro, m_has, m_root, m_src, _letter_matcher(op)]


def _effects(view: PathView) -> tuple:
    out = []
    for i, c in view.calls(lambda c: call_name(c) in MUTATORS and isinstance(c.func, ast.Attribute)):
        recv = view.canon_text(c.func.value, min(i, len(view.steps)))
        if recv.startswith("BACKENDS[") or recv == "state_backend":
            name = call_name(c)
            # which parameter dict is handed to a root operation during check
            out.append(name)
        elif call_name(c) == "destroy":
            out.append("vm.destroy")
    return tuple(out)


def _cached_outcome():
    cache: dict[int, tuple] = {}

    def outcome(view, val, free):
        k = id(view)
        if k not in cache:
            cache[k] = (_terminal(view), _effects(view))
        return cache[k]

    return outcome


def _terminal(view: PathView) -> str:
    p = view.path
    if p.exit in ("continue", "fall"):
        return "next"
    if p.exit == "raise":
        return "raise:" + (PathEnum._raised_name(p.exit_node) or "?")
    if p.exit == "return":
        return "return " + ast.unparse(p.exit_node.value) if p.exit_node.value is not None else "return"
    return p.exit


def _object_loop(ctx: Ctx, fname: str):
    fref = f"{SETUP}:{fname}"
    loop = the_loop(ctx, fref, ast.For,
                    lambda l: isinstance(l.iter, ast.Call) and call_name(l.iter) == "_parametric_object_iteration",
                    "loop over _parametric_object_iteration")
    if not (isinstance(loop.target, ast.Name)):
        raise AnalysisError(f"{fref}: loop target is not a name")
    return fref, loop


def op_table(ctx: Ctx, rule: str, op: str) -> None:
    fref, loop = _object_loop(ctx, f"{op}_states")
    ctx.require_locals(fref, ["state_backend", "state_exists", "state_object", "action_if_exists", "action_if_doesnt_exist"])
    interesting = names_interesting(set(MUTATORS) | {"_state_check_chain", "check_root", "show"}, extra=lambda n: isinstance(n, ast.Raise))
    views = loop_iteration_views(ctx, fref, loop, interesting)
    for v in views:
        v.rename[loop.target.id] = "state_params"

    def m_exists(t):
        return (lambda v: v["E"]) if t.startswith(f"_state_check_chain('{op}', ") else None

    def m_rt(t):
        return (lambda v: v["RT"]) if ".check_root(state_params" in t else None

    matchers = _common_matchers(op) + [m_exists, m_rt]

    def reference(v):
        if v["SK"] or (v["IMG"] and v["RO"]) or not v["HAS"]:
            return ("next", ())
        e, x, y, root = v["E"], v["X"], v["Y"], v["ROOT"]
        if op == "get":
            if not e:
                return {"a": ("raise:TestAbortError", ()), "i": ("next", ())}.get(y, ("raise:TestError", ()))
            if x == "a":
                return ("raise:TestAbortError", ())
            if x == "r":
                return ("next", ("get_root",) if root else ("get",))
            if x == "i":
                return ("next", ())
            return ("raise:TestError", ())
        if op == "set":
            final = ("set_root",) if root else ("set",)
            if e:
                if x == "a":
                    return ("raise:TestAbortError", ())
                if x == "r":
                    return ("next", ())
                if x == "f":
                    if root:
                        return ("next", ("unset_root",) + final)
                    if v["SRC"]:
                        return ("next", final)
                    return ("next", ("unset",) + final)
                return ("raise:TestError", ())
            if y == "a":
                return ("raise:TestAbortError", ())
            if y == "f":
                if not root and not v["RT"]:
                    return ("raise:TestError", ())
                return ("next", final)
            return ("raise:TestError", ())
        if op == "unset":
            if not e:
                return {"a": ("raise:TestAbortError", ()), "i": ("next", ())}.get(y, ("raise:TestError", ()))
            if x == "r":
                return ("next", ())
            if x == "f":
                return ("next", ("unset_root",) if root else ("unset",))
            return ("raise:TestError", ())
        raise AnalysisError(op)

    spec = TableSpec({"SK": B, "IMG": B, "RO": B, "HAS": B, "E": B, "X": LETTERS, "Y": LETTERS, "ROOT": B, "SRC": B, "RT": B},
                     matchers, reference)
    table_rule(ctx, rule, fref, views, spec, _cached_outcome(),
               construct=f"{op}_states per object: skipped/readonly/unaddressed -> untouched; presence x mode letters -> documented action with ordered backend effects")
    # default mode
    default = {"get": "ra", "set": "ff", "unset": "fi"}[op]
    fn = ctx.repo.func(fref)
    d = [c for c in calls_in(fn.node) if call_name(c) in ("get", "setdefault") and c.args and isinstance(c.args[0], ast.Constant) and c.args[0].value == f"{op}_mode"]
    ok = len(d) == 1 and len(d[0].args) == 2 and isinstance(d[0].args[1], ast.Constant) and d[0].args[1].value == default
    ctx.record(rule + "d", "CONST", fref, f"default {op}_mode is '{default}'", ok, {"found": [ast.unparse(c) for c in d]},
               "" if ok else f"the default {op}_mode changed")
    # the backend operations receive the object's own parameters and object
    bad = [c for c in calls_in(loop) if call_name(c) in MUTATORS and ast.unparse(c.func.value) == "state_backend"
           and [ast.unparse(a) for a in c.args] != [loop.target.id, "state_object"]]
    ctx.record(rule + "p", "PROV", fref, "backend operations are called with (state_params, state_object) of the iterated object", not bad, {},
               "" if not bad else f"backend call with foreign arguments: {first_line(bad[0])}")


def check_table(ctx: Ctx, rule: str) -> None:
    fref, loop = _object_loop(ctx, "check_states")
    ctx.require_locals(fref, ["root_exists", "root_params", "state_backend", "state_exists", "state"])
    interesting = names_interesting(set(MUTATORS) | {"check_root", "show", "root_exists", "state_exists"},
                                    extra=lambda n: isinstance(n, (ast.Raise, ast.Return)))
    views = loop_iteration_views(ctx, fref, loop, interesting)
    for v in views:
        v.rename[loop.target.id] = "state_params"

    def m_re(t):
        return (lambda v: v["RE"]) if ".check_root(state_params" in t else None

    def m_shown(t):
        return (lambda v: v["SHOWN"]) if ".show(state_params" in t and " in " in t else None

    def m_vm(t):
        # "the object is a vm": whichever spelling of the type the code tests (rule 4v decides which spellings it must accept)
        return (lambda v: v["VM"]) if t.endswith((" == 'nets/vms'", " in ['vms', 'nets/vms']", " in ['nets/vms', 'vms']", " in ('vms', 'nets/vms')", " in ('nets/vms', 'vms')")) else None

    matchers = _common_matchers("check") + [m_re, m_shown, m_vm]

    def reference(v):
        if v["SK"] or (v["IMG"] and v["RO"]) or not v["HAS"]:
            return ("next", ())
        if not v["RE"]:
            if v["Y"] == "f":
                eff = ("set_root",)
            elif v["Y"] == "r":
                return ("return False", ())
            else:
                return ("raise:TestError", ())
        elif v["X"] == "f":
            eff = (("vm.destroy",) if v["VM"] else ("unset_root",)) + ("set_root",)
        elif v["X"] == "r":
            eff = ("get_root",)
        else:
            # "an invalid policy raises without altering any state": like the root-missing letter, any other root-exists letter is rejected
            return ("raise:TestError", ())
        if v["ROOT"]:
            return ("next", eff)
        return ("next", eff) if v["SHOWN"] else ("return False", eff)

    spec = TableSpec({"SK": B, "IMG": B, "RO": B, "HAS": B, "RE": B, "X": LETTERS, "Y": LETTERS, "ROOT": B, "SHOWN": B, "VM": B},
                     matchers, reference)
    table_rule(ctx, rule, fref, views, spec, _cached_outcome(),
               construct="check_states per object: root missing: f -> set_root, r -> False, else TestError; root present: f -> destroy/unset_root + set_root, r -> get_root, else TestError; "
               "then root keyword -> root exists, else state in show(); first missing -> False")
    fn = ctx.repo.func(fref)
    tail = [s for s in fn.node.body if isinstance(s, ast.Return)]
    ok = len(tail) == 1 and isinstance(tail[0].value, ast.Constant) and tail[0].value.value is True and fn.node.body[-1] is tail[0]
    ctx.record(rule + "t", "TABLE", fref, "all addressed objects have the state -> return True", ok, {},
               "" if ok else "check_states no longer returns True exactly when no object was missing the state")
    d = [c for c in calls_in(fn.node) if call_name(c) in ("get", "setdefault") and c.args and isinstance(c.args[0], ast.Constant) and c.args[0].value == "check_mode"]
    okd = len(d) == 1 and len(d[0].args) == 2 and isinstance(d[0].args[1], ast.Constant) and d[0].args[1].value == "rf"
    ctx.record(rule + "d", "CONST", fref, "default check_mode is 'rf'", okd, {}, "" if okd else "the default check_mode changed")
    # forced root handling is confined to the worker's own scope
    roots = [c for c in calls_in(loop) if call_name(c) in ("set_root", "unset_root") and ast.unparse(c.func.value) == "state_backend"]
    scoped = [s for s in ast.walk(loop) if isinstance(s, ast.Assign) and ast.unparse(s.targets[0]) == "root_params['pool_scope']"
              and isinstance(s.value, ast.Constant) and s.value.value == "own"]
    okp = bool(roots) and all(ast.unparse(c.args[0]) == "root_params" for c in roots) and len(scoped) == 2
    copies = [s for s in ast.walk(loop) if isinstance(s, ast.Assign) and ast.unparse(s.targets[0]) == "root_params"]
    okp = okp and len(copies) == 1 and ast.unparse(copies[0].value) == f"{loop.target.id}.copy()"
    ctx.record(rule + "s", "PROV", fref, "forced root creation/removal during a check uses a copy of the parameters with pool_scope 'own'", okp, {},
               "" if okp else "the root handling of check_states may now reach beyond the worker's own scope or alter the checked parameters")


def push_pop(ctx: Ctx, rule: str) -> None:
    for op, plan in (("push", [("set", "set_states", "af")]), ("pop", [("get", "get_states", "ra"), ("unset", "unset_states", "fa")])):
        fref, loop = _object_loop(ctx, f"{op}_states")
        sp = loop.target.id
        interesting = names_interesting({"set_states", "get_states", "unset_states", "states_chain", "set_state", "get_state", "unset_state"})
        views = loop_iteration_views(ctx, fref, loop, interesting)
        for v in views:
            v.rename[sp] = "state_params"

        def reference(v, plan=plan):
            # skipped types and read-only images are not touched by any of the seven operations (the delegated set/get/unset
            # cannot enforce this: they run on the pinned single object whose type is no longer the full 'nets/vms/images' path)
            if v["SK"] or (v["IMG"] and v["RO"]):
                return ("next", ())
            if not v["HAS"] or v["ROOT"]:
                return ("next", ())
            return ("next", tuple(p[1] for p in plan))

        def m_has(t, op=op):
            return (lambda v: v["HAS"]) if t == f"state_params.get('{op}_state')" else None

        def m_root(t, op=op):
            return (lambda v: v["ROOT"]) if t in ("state in ROOTS", f"state_params['{op}_state'] in ROOTS") else None

        cm = _common_matchers(op)
        spec = TableSpec({"HAS": B, "ROOT": B, "SK": B, "IMG": B, "RO": B}, [m_has, m_root, cm[0], cm[1], cm[2]], reference)

        def outcome(view, val, free):
            calls = tuple(call_name(c) for i, c in view.calls(lambda c: call_name(c) in ("set_states", "get_states", "unset_states")))
            return (_terminal(view), calls)

        table_rule(ctx, rule + op[1], fref, views, spec, outcome,
                   construct=f"{op}_states: skipped type or read-only image -> untouched; no {op}_state -> skip; root keyword -> skip; else delegate to {', '.join(p[1] for p in plan)}")
        # parameters prepared for the delegation
        stores = {}
        order = []
        state_locals = {ast.unparse(a_.targets[0]) for a_ in ast.walk(loop) if isinstance(a_, ast.Assign) and ast.unparse(a_.value) == f"{sp}['{op}_state']"}
        for s in (x for st_ in _expand_helper_calls(ctx, loop.body) for x in ast.walk(st_)):
            if isinstance(s, ast.Assign) and len(s.targets) == 1 and isinstance(s.targets[0], ast.Subscript) \
                    and ast.unparse(s.targets[0].value) == sp and isinstance(s.targets[0].slice, ast.Constant):
                val = ast.unparse(s.value)
                stores.setdefault(s.targets[0].slice.value, []).append(f"{sp}['{op}_state']" if val in state_locals else val)
        want = {"states_chain": ["composite_types[-1]"]}
        for o, callee, default in plan:
            want[f"{o}_state"] = [f"{sp}['{op}_state']"]
            want[f"{o}_mode"] = [f"{sp}.get('{op}_mode', '{default}')"]
        ok = all(stores.get(k) == v for k, v in want.items())
        ct = [s for s in ast.walk(loop) if isinstance(s, ast.Assign) and ast.unparse(s.targets[0]) == "composite_types"]
        ok = ok and len(ct) == 1 and ast.unparse(ct[0].value) == "params_obj_type.split('/')"
        pin = [l for l in ast.walk(loop) if isinstance(l, ast.For) and l is not loop and "zip(composite_types, composite_names)" in ast.unparse(l.iter)]
        # the pinning loop: for <t>, <n> in zip(types, names): <params>[<t>] = <n>   (whatever the two loop variables are called)
        if len(pin) == 1 and isinstance(pin[0].target, ast.Tuple) and len(pin[0].target.elts) == 2 and all(isinstance(e, ast.Name) for e in pin[0].target.elts):
            tk, nv = (e.id for e in pin[0].target.elts)
            ok = ok and any(isinstance(s, ast.Assign) and ast.unparse(s.targets[0]) == f"{sp}[{tk}]" and ast.unparse(s.value) == nv for s in pin[0].body)
        else:
            ok = False
        dels = [c for c in calls_in(loop) if call_name(c) in ("set_states", "get_states", "unset_states")]
        ok = ok and all([ast.unparse(a) for a in c.args] == [sp, "env"] for c in dels)
        ctx.record(rule + op[1] + "p", "PROV", fref,
                   f"{op}: single object pinned (states_chain = last composite type, each composite name), "
                   + ", ".join(f"{o}_state = {op}_state, {o}_mode default '{d}'" for o, _, d in plan), ok, {"stores": stores},
                   "" if ok else f"the parameters {op}_states prepares for its delegated operation changed: {stores}")


def _expand_helper_calls(ctx: Ctx, stmts: list[ast.stmt]) -> list[ast.stmt]:
    """Statements with calls of module-level private procedures `_f(a, "const", ...)` (statement position) replaced by the procedure's body,
    parameters substituted by the arguments and f-strings over constants folded - so that a rule sees the stores where they take effect."""
    mod = ctx.repo.module(SETUP)
    procs = {f.name: f for f in mod.body if isinstance(f, ast.FunctionDef) and f.name.startswith("_")}

    class Sub(ast.NodeTransformer):
        def __init__(self, m):
            self.m = m

        def visit_Name(self, n):
            return copy.deepcopy(self.m[n.id]) if n.id in self.m and isinstance(n.ctx, ast.Load) else n

        def visit_JoinedStr(self, n):
            self.generic_visit(n)
            if all(isinstance(v, ast.Constant) or (isinstance(v, ast.FormattedValue) and isinstance(v.value, ast.Constant) and v.format_spec is None and v.conversion == -1) for v in n.values):
                return ast.Constant(value="".join(str(v.value if isinstance(v, ast.Constant) else v.value.value) for v in n.values))
            return n

    out = []
    for st in stmts:
        c = st.value if isinstance(st, ast.Expr) else None
        if isinstance(c, ast.Call) and isinstance(c.func, ast.Name) and c.func.id in procs and not c.keywords:
            f = procs[c.func.id]
            names = [a.arg for a in f.args.args]
            if len(names) == len(c.args) and not any(isinstance(x, (ast.Return, ast.Yield)) for x in ast.walk(f)):
                m = dict(zip(names, c.args))
                body = [b for b in f.body if not (isinstance(b, ast.Expr) and isinstance(b.value, ast.Constant))]
                out += [ast.fix_missing_locations(Sub(m).visit(copy.deepcopy(b))) for b in body]
                continue
        out.append(st)
    return out


def vm_type_spelling(ctx: Ctx, rule: str) -> None:
    """get/set/unset (and push/pop through them) call check_states with `states_chain` restricted to the LAST composite type, so inside
    that call a vm has the object type 'vms', not 'nets/vms' (the backends accept both: `in ["vms", "nets/vms"]`).  A test that knows only
    the full spelling is dead on every call but the direct one; the leading skip guards are exempt (the outer call has applied them)."""
    restrict = [f"{SETUP}:_state_check_chain", f"{SETUP}:push_states", f"{SETUP}:pop_states"]
    restricted_callees = set()
    for fr in restrict:
        f = ctx.repo.func(fr)
        ctx.touch(fr)
        if any(isinstance(s_, ast.Assign) and ast.unparse(s_.targets[0]).endswith("['states_chain']") and ast.unparse(s_.value).endswith("[-1]") for s_ in ast.walk(f.node)):
            restricted_callees |= {call_name(c) for c in calls_in(f.node) if call_name(c) in ("check_states", "get_states", "set_states", "unset_states")}
    if "check_states" not in restricted_callees:
        raise AnalysisError("the restriction of states_chain to the last composite type before the nested check was not found")
    bad, n = [], 0
    for name in sorted(restricted_callees):
        fref, loop = _object_loop(ctx, name)
        guards = {id(x) for i_ in [s_ for s_ in loop.body if isinstance(s_, ast.If)][:2] for x in ast.walk(i_.test)}
        for cmp_ in ast.walk(loop):
            if isinstance(cmp_, ast.Compare) and len(cmp_.ops) == 1 and ast.unparse(cmp_.left) == "params_obj_type" and id(cmp_) not in guards:
                comp = cmp_.comparators[0]
                vals = [comp.value] if isinstance(comp, ast.Constant) else [e.value for e in comp.elts if isinstance(e, ast.Constant)] if isinstance(comp, (ast.List, ast.Tuple, ast.Set)) else None
                if vals is None:
                    continue
                n += 1
                for val in vals:
                    if isinstance(val, str) and "/" in val and val.split("/")[-1] not in vals:
                        bad.append(f"{name}: `{ast.unparse(cmp_)}` (line {cmp_.lineno})")
    ctx.record(rule, "SIBLING", f"{SETUP}:check_states", "inside operations that are also called with the object chain restricted to its last type, an object type test accepts the restricted spelling too", not bad and n >= 1,
               {"type_tests": n, "full_spelling_only": bad},
               "" if not bad else f"a type test knows only the full spelling of a type, but get/set/unset/push/pop reach it with the last composite type only ('vms'): the branch is dead there - {bad[0]} "
               "(the forced root check of a vm goes to unset_root, a hard destroy, instead of the soft-boot aware vm.destroy)")


def push_pop_override(ctx: Ctx, rule: str) -> None:
    """push/pop hand the already resolved per-object parameters to set/get/unset_states, whose object iteration resolves suffixed keys AGAIN
    (`object_params(<name>)`, `object_params(<type>)`): a `set_state_images` / `get_mode_images_vm1` of the node itself then overrides the plain
    `set_state` / `get_mode` push/pop have just written.  The plain keys take effect only if the suffixed variants of the delegated
    operation are removed from the parameters first (sync_states does exactly that for its own requests)."""
    for op, plan in (("push", ["set"]), ("pop", ["get", "unset"])):
        fref, loop = _object_loop(ctx, f"{op}_states")
        sp = loop.target.id
        stmts = _expand_helper_calls(ctx, loop.body)
        missing = []
        for o in plan:
            want = norm.formula(ast.parse(f"K.startswith('{o}_state_') or K.startswith('{o}_mode_')", mode="eval").body)
            found = False
            for l in (x for st in stmts for x in ast.walk(st)):
                if isinstance(l, ast.For) and isinstance(l.target, ast.Name) and sp in ast.unparse(l.iter):
                    for i_ in ast.walk(l):
                        if isinstance(i_, ast.If) and any(isinstance(d, ast.Delete) and ast.unparse(d.targets[0]) == f"{sp}[{l.target.id}]" for d in i_.body):
                            if norm.implies(want, norm.formula(i_.test, rename={l.target.id: "K"})):
                                found = True
            if not found:
                missing.append(o)
        ctx.record(rule, "ORDER", fref, f"{op}: the suffixed variants ({', '.join(o + '_state_*/' + o + '_mode_*' for o in plan)}) are removed from the resolved parameters before the delegated operation resolves them again",
                   not missing, {"operations_without_removal": missing},
                   "" if not missing else f"{op}_states writes plain {missing[0]}_state / {missing[0]}_mode but leaves the node's own {missing[0]}_state_<type> / {missing[0]}_mode_<type> in the parameters: "
                   f"the delegated {missing[0]}_states resolves them again and operates on that state / with that policy instead of the {op}ed one")


def overwrite_target(ctx: Ctx, rule: str) -> None:
    """set_states with a forcing first letter removes the existing state before setting it again: the state that is removed is the state
    that is set - `unset_state` is overwritten with `set_state` on the way to the backend's unset, whatever the object's parameters
    carried as unset_state before (that one belongs to a later unset_states call)."""
    from ..facts import dict_writes

    fref, loop = _object_loop(ctx, "set_states")
    sp = loop.target.id
    unsets = [c for c in calls_in(loop) if call_name(c) in ("unset", "unset_root") and ast.unparse(c.func.value) == "state_backend"]
    if not unsets:
        raise AnalysisError(f"{fref}: the overwrite branch (backend unset before set) was not found")
    state_locals = {ast.unparse(a_.targets[0]) for a_ in ast.walk(loop) if isinstance(a_, ast.Assign) and ast.unparse(a_.value) == f"{sp}['set_state']"} | {f"{sp}['set_state']"}
    writes = [(k, v, site) for k, v, site in dict_writes(loop, sp) if isinstance(k, ast.Constant) and k.value == "unset_state"]
    soft = [c for c in calls_in(loop) if call_name(c) == "setdefault" and ast.unparse(c.func.value) == sp and c.args and isinstance(c.args[0], ast.Constant) and c.args[0].value == "unset_state"]
    ok = len(writes) == 1 and ast.unparse(writes[0][1]) in state_locals and not soft
    if ok:
        # the store dominates every backend unset of the branch: same innermost if-body, earlier position
        site = writes[0][2]
        for u in unsets:
            holder = next((i_ for i_ in ast.walk(loop) if isinstance(i_, ast.If) and any(x is site for x in i_.body) and any(y is u for b in i_.body for y in ast.walk(b))), None)
            ok = ok and holder is not None
    ctx.record(rule, "PROV", fref, "the state removed by a forced set is the state being set: unset_state = set_state is stored unconditionally before the backend's unset", ok,
               {"writes": [ast.unparse(w[2])[:80] for w in writes], "conditional_defaults": [ast.unparse(c) for c in soft]},
               "" if ok else "set_states (first letter f, state present) no longer removes exactly the state it is about to set: an unset_state already carried by the object's parameters is removed instead "
               "(a state nobody addressed disappears; push with push_mode f? inherits it)")


def check_chain(ctx: Ctx, rule: str) -> None:
    fref = f"{SETUP}:_state_check_chain"
    fn = ctx.repo.func(fref)
    ctx.touch(fref)
    stores = {}
    for s in ast.walk(fn.node):
        if isinstance(s, ast.Assign) and len(s.targets) == 1 and isinstance(s.targets[0], ast.Subscript) and ast.unparse(s.targets[0].value) == "state_params":
            stores.setdefault(ast.unparse(s.targets[0].slice), []).append(ast.unparse(s.value))
    ok = (stores.get("'check_state'") == ["state_params[f'{do}_state']"]
          and stores.get("'show_location'") == ["state_params[f'{do}_location']"]
          and stores.get("'states_chain'") == ["composite_types[-1]"]
          and stores.get("composite_type") == ["composite_name"])
    calls = [c for c in calls_in(fn.node) if call_name(c) == "check_states"]
    ok = ok and len(calls) == 1 and [ast.unparse(a) for a in calls[0].args] == ["state_params", "env"]
    rets = [r for r in ast.walk(fn.node) if isinstance(r, ast.Return)]
    ok = ok and len(rets) == 1
    ctx.record(rule, "PROV", fref, "inner check: check_state = <op>_state, show_location = <op>_location, one object pinned, result of check_states returned",
               ok, {"stores": stores}, "" if ok else f"_state_check_chain no longer checks exactly the addressed state of the one object: {stores}")


def readme_table(ctx: Ctx, rule: str) -> None:
    path = os.path.join(ctx.repo.root, "README.md")
    if not os.path.exists(path):
        ctx.note("README.md not found: doc/code agreement skipped")
        return
    text = open(path, encoding="utf-8").read()
    rows = {a: (b, c) for a, b, c in re.findall(r"-\s+(get_mode|set_mode|unset_mode)\s+-\s+(\w+)\s+-\s+(\w+)\s+-", text)}
    if len(rows) != 3:
        ctx.note("policy table not found in README.md: doc/code agreement skipped")
        return
    # letters accepted (not ending in TestError) by the reference = what the code was shown to implement
    accepted = {"get_mode": ("ari", "ai"), "set_mode": ("arf", "af"), "unset_mode": ("rf", "ai")}
    ok = all(tuple(sorted(rows[k][i]) for i in (0, 1)) == tuple(sorted(x) for x in accepted[k]) for k in accepted)
    ctx.record(rule, "TABLE", "README.md", "documented letters per mode and presence equal the letters the code accepts", ok,
               {"readme": rows, "code": accepted}, "" if ok else f"README policy table {rows} disagrees with the implemented table {accepted}")


def registry(ctx: Ctx, rule: str) -> None:
    fref = "cmd_parser.py:params_from_cmd"
    fn = ctx.repo.func(fref)
    ctx.touch(fref)
    regs = [s for s in ast.walk(fn.node) if isinstance(s, ast.Assign) and ast.unparse(s.targets[0]) == "ss.BACKENDS" and isinstance(s.value, ast.Dict)]
    if len(regs) != 1:
        raise AnalysisError(f"{fref}: backend registry not found")
    ops = ["show", "get", "set", "unset", "check_root", "get_root", "set_root", "unset_root"]
    n = 0
    for k, v in zip(regs[0].value.keys, regs[0].value.values):
        cname = ast.unparse(v).split(".")[-1]
        cands = ctx.repo.find_class(cname)
        if len(cands) != 1:
            raise AnalysisError(f"registered backend class {cname} not found uniquely")
        cref = f"{cands[0].module}:{cands[0].qualname}"
        missing = []
        for o in ops:
            m = ctx.repo.resolve_method(cref, o)
            if m is None:
                missing.append(o)
                continue
            # abstract = resolved to the StateBackend placeholder raising NotImplementedError
            if m.qualname.startswith("StateBackend.") and any(isinstance(x, ast.Raise) for x in ast.walk(m.node)):
                missing.append(o + " (abstract)")
        n += 1
        ctx.record(rule, "SIBLING", cref, f"backend '{k.value}' resolves {', '.join(ops)}", not missing, {"missing": missing},
                   "" if not missing else f"backend {cname} lacks an implementation of {missing}")
    if n < 8:
        raise AnalysisError(f"only {n} registered backends found, expected 8")


def skip_guards_first(ctx: Ctx, rule: str) -> None:
    """All seven per-object loops start with the same two guards: skipped object types and read-only images are left alone
    before anything else is looked at (the listing operation included)."""
    for op in ("show", "check", "get", "set", "unset", "push", "pop"):
        fref, loop = _object_loop(ctx, f"{op}_states")
        sp = loop.target.id
        body = [s_ for s_ in loop.body if not isinstance(s_, ast.Assign)]
        first_two = body[:2]
        ren = {sp: "state_params"}
        # a parameter read named before the guards (skip_types = state_params.objects("skip_types")) is that read
        env = {}
        for s_ in loop.body:
            if isinstance(s_, ast.If):
                break
            if isinstance(s_, ast.Assign) and len(s_.targets) == 1 and isinstance(s_.targets[0], ast.Name) and isinstance(s_.value, ast.Call) \
                    and isinstance(s_.value.func, ast.Attribute) and ast.unparse(s_.value.func.value) == sp and s_.value.func.attr in ("objects", "get", "get_boolean"):
                env[s_.targets[0].id] = s_.value
        want = [norm.formula(ast.parse("params_obj_type in state_params.objects('skip_types')", mode="eval").body),
                norm.formula(ast.parse("params_obj_type == 'nets/vms/images' and state_params.get_boolean('image_readonly', False)", mode="eval").body)]
        ok = len(first_two) == 2 and all(isinstance(i, ast.If) and not i.orelse and isinstance(i.body[-1], ast.Continue) and not any(isinstance(x, (ast.Raise, ast.Return, ast.Break)) for x in ast.walk(i)) for i in first_two)
        if ok:
            ok = all(norm.equivalent(norm.formula(i.test, env, ren), w) for i, w in zip(first_two, want))
        lead = [ast.unparse(s_.targets[0]) for s_ in loop.body[:2] if isinstance(s_, ast.Assign)]
        ok = ok and sorted(lead) == ["params_obj_name", "params_obj_type"]
        # nothing but parameter reads happens before the guards
        first_if = next((k_ for k_, s_ in enumerate(loop.body) if isinstance(s_, ast.If)), 0)
        ok = ok and all(isinstance(s_, ast.Assign) and (ast.unparse(s_.targets[0]) in ("params_obj_name", "params_obj_type") or (isinstance(s_.targets[0], ast.Name) and s_.targets[0].id in env)) for s_ in loop.body[:first_if]
                        if not (isinstance(s_, ast.Expr) and isinstance(s_.value, ast.Constant)))
        ctx.record(rule, "GUARD", fref, f"{op}_states: per object, first `type in skip_types -> next object`, then `read-only image -> next object`", ok, {},
                   "" if ok else f"{op}_states no longer leaves skipped object types / read-only images alone before anything else")


def iteration_order(ctx: Ctx, rule: str) -> None:
    """_parametric_object_iteration is a post-order walk: an object's components are yielded before the object itself.

    An abort raised for a component (image) must precede any backend effect on the composite (vm) of the same call; the
    reverse order lets an aborting call alter the store.  Decided per path through the loop body: every `yield` of the
    object's own parameters is preceded by the recursive `yield from` whenever the object type is not the last of the chain.
    """
    fref = f"{SETUP}:_parametric_object_iteration"
    loop = the_loop(ctx, fref, ast.For, lambda l: isinstance(l.iter, ast.Call) and ast.unparse(l.iter.func) == "params.objects", "loop over the objects of the current type")
    ys = [y for y in ast.walk(loop) if isinstance(y, (ast.Yield, ast.YieldFrom))]
    rec = [y for y in ys if isinstance(y, ast.YieldFrom) and isinstance(y.value, ast.Call) and call_name(y.value) == "_parametric_object_iteration"]
    own = [y for y in ys if isinstance(y, ast.Yield)]
    if len(rec) != 1 or len(own) != 1:
        raise AnalysisError(f"{fref}: expected one recursive `yield from` and one own `yield` in the loop, found {len(rec)}/{len(own)}")
    ok_args = [ast.unparse(a) for a in rec[0].value.args] == ["obj_params", "composites"] and not rec[0].value.keywords
    # order along every path of one iteration
    bad = None
    n = 0
    for view in loop_iteration_views(ctx, fref, loop, lambda n_: isinstance(n_, (ast.Yield, ast.YieldFrom))):
        n += 1
        seq = []
        for _i, st in view.stmts():
            for y in ast.walk(st):
                if y is rec[0]:
                    seq.append("components")
                elif y is own[0]:
                    seq.append("own")
        if seq == ["components", "own"] or seq == ["own"]:
            continue
        bad = seq
    # the guard of the recursion: exactly "not the last type of the chain"
    guard = None
    for node in ast.walk(loop):
        if isinstance(node, ast.If) and any(y is rec[0] for y in ast.walk(node)):
            guard = node
    # the guard with helper locals substituted (a hoisted `object_composition[-1]` is that expression)
    gtest = guard.test if guard is not None else None
    if gtest is not None:
        fnode = ctx.repo.func(fref).node
        env = {}
        for s_ in ast.walk(fnode):
            if isinstance(s_, ast.Assign) and len(s_.targets) == 1 and isinstance(s_.targets[0], ast.Name):
                env.setdefault(s_.targets[0].id, []).append(s_.value)
        env1 = {k: v[0] for k, v in env.items() if len(v) == 1 and k not in ("params_obj_type", "object_composition", "composites")}
        gtest = norm.substitute(gtest, env1, None, 2)
    ok_guard = guard is not None and norm.equivalent(norm.formula(gtest), norm.formula(ast.parse("params_obj_type != object_composition[-1]", mode="eval").body)) and not any(y is own[0] for y in ast.walk(guard))
    ok = bad is None and ok_args and ok_guard and n >= 2
    ctx.record(rule, "ORDER", fref, "post-order: components (guard: not the last type of states_chain) are yielded before the composite's own parameters, which are yielded unconditionally",
               ok, {"iteration_paths": n, "bad_sequence": bad, "recursion_args_ok": ok_args, "guard": ast.unparse(guard.test) if guard is not None else None},
               "" if ok else f"the walk over the object hierarchy is no longer components-first (sequence {bad}, guard ok={ok_guard}, args ok={ok_args}): an abort for an image can come after the vm-level state was already changed")


def iteration_isolation(ctx: Ctx, rule: str) -> None:
    """The object iteration writes only into the per-object copy it yields: the parameters it was called with (the caller's, and on the
    recursive level the composite's own copy) keep naming all objects of the type -- a restriction written into them outlives the loop
    (the vm-level view handed to the backends would name only the last image)."""
    fref = f"{SETUP}:_parametric_object_iteration"
    fn = ctx.repo.func(fref)
    ctx.touch(fref)
    p0 = fn.params()[0]
    writes = []
    for n_ in ast.walk(fn.node):
        if isinstance(n_, (ast.Assign, ast.AugAssign, ast.Delete)):
            tg = n_.targets if not isinstance(n_, ast.AugAssign) else [n_.target]
            for t_ in tg:
                if isinstance(t_, ast.Subscript) and ast.unparse(t_.value) == p0:
                    writes.append(f"line {n_.lineno}: {ast.unparse(n_)[:80]}")
                if isinstance(t_, ast.Name) and t_.id == p0:
                    writes.append(f"line {n_.lineno}: re-binds {p0}")
        elif isinstance(n_, ast.Call) and isinstance(n_.func, ast.Attribute) and n_.func.attr in norm.MUTATORS and ast.unparse(n_.func.value) == p0:
            writes.append(f"line {n_.lineno}: {ast.unparse(n_)[:80]}")
    copies = [s_ for s_ in ast.walk(fn.node) if isinstance(s_, ast.Assign) and ast.unparse(s_.targets[0]) == "obj_params"]
    ok_copy = len(copies) == 1 and ast.unparse(copies[0].value) == f"{p0}.object_params(params_obj_name)"
    restr = [s_ for s_ in ast.walk(fn.node) if isinstance(s_, ast.Assign) and ast.unparse(s_.targets[0]) == "obj_params[params_obj_type]"]
    ok_restr = len(restr) == 1 and ast.unparse(restr[0].value) == "params_obj_name"
    ok = not writes and ok_copy and ok_restr
    ctx.record(rule, "OWNER", fref, f"the iteration never writes its input `{p0}`; the restriction to the current object (<type> = <name>) goes into the per-object copy {p0}.object_params(<name>) only",
               ok, {"writes_to_input": writes}, "" if ok else (f"the object iteration writes into the parameters it was given ({writes[0]}): after the loop over a vm's images the vm-level "
                                                            "parameters name only the last image" if writes else "the per-object copy / its restriction to the current object changed"))


def root_fetch_purpose(ctx: Ctx, rule: str) -> None:
    """check_states is also the prerequisite check of set/unset: when the state being set or removed is the root itself, fetching the
    existing root first (possibly from the pool, over the local image that is about to be uploaded) defeats the operation."""
    fref = f"{SETUP}:check_states"
    loop = the_loop(ctx, fref, ast.For, lambda l: isinstance(l.iter, ast.Call) and call_name(l.iter) == "_parametric_object_iteration", "object loop of check_states")
    views = loop_iteration_views(ctx, fref, loop, names_interesting({"get_root", "check_opts", "root_params"}))
    n, bad = 0, None
    for v in views:
        for i, c in v.calls(lambda c: call_name(c) == "get_root"):
            n += 1
            prem = v.premise(i, 0)
            if not any("check_opts" in a and "soft_boot" not in a for a in norm.atoms_of(prem)):
                bad = bad or v
    fc = ctx.repo.func(f"{SETUP}:_state_check_chain")
    ctx.touch(fc.ref)
    tells = any(isinstance(n_, ast.Name) and n_.id == "ROOTS" for n_ in ast.walk(fc.node))
    ok = n >= 1 and bad is None and tells
    ctx.record(rule, "GUARD", fref, "the root is fetched by a check only if the check is not the prerequisite of setting / removing that very root (an option passed down by _state_check_chain)",
               ok, {"get_root_sites": n, "chain_knows_roots": tells},
               "" if ok else "check_states fetches an existing root on every path, also as the prerequisite check of set/unset of the root itself: with pool_scope=shared the pool copy "
               "is downloaded over the local image just before it is uploaded (or the upload fails because the pool is empty)")


def object_param_provenance(ctx: Ctx, rule: str) -> None:
    """Inside the per-object loop every parameter is read from the drilled-down per-object view, never from the call's run_params."""
    ops = ("show", "check", "get", "set", "unset", "push", "pop")
    for op in ops:
        fref = f"{SETUP}:{op}_states"
        fn = ctx.repo.func(fref)
        ctx.touch(fref)
        uses = [n_ for n_ in ast.walk(fn.node) if isinstance(n_, ast.Name) and n_.id == "run_params"]
        loops = [l for l in ast.walk(fn.node) if isinstance(l, ast.For) and isinstance(l.iter, ast.Call) and call_name(l.iter) == "_parametric_object_iteration"]
        if len(loops) != 1:
            raise AnalysisError(f"{fref}: expected one loop over _parametric_object_iteration")
        loop = loops[0]
        ok_iter = [ast.unparse(a) for a in loop.iter.args] == ["run_params"] and not loop.iter.keywords and isinstance(loop.target, ast.Name)
        inside = [u for st in loop.body + loop.orelse for u in ast.walk(st) if isinstance(u, ast.Name) and u.id == "run_params"]
        ok = ok_iter and not inside
        ctx.record(rule, "PROV", fref, "the loop iterates _parametric_object_iteration(run_params) and its body reads only the per-object parameters", ok,
                   {"run_params_uses": len(uses), "inside_loop": [u.lineno for u in inside]},
                   "" if ok else f"{op}_states reads the undrilled run_params inside the per-object loop (line(s) {[u.lineno for u in inside]}): suffixed per-type/per-object settings are ignored")


def run(ctx: Ctx) -> None:
    ctx.call(iteration_order, "11")
    ctx.call(iteration_isolation, "11w")
    ctx.call(skip_guards_first, "13")
    ctx.call(object_param_provenance, "12")
    ctx.call(op_table, "1", "get")
    ctx.call(op_table, "2", "set")
    ctx.call(op_table, "3", "unset")
    ctx.call(overwrite_target, "2u")
    ctx.call(check_table, "4")
    ctx.call(root_fetch_purpose, "4g")
    ctx.call(vm_type_spelling, "4v")
    ctx.call(push_pop, "5")
    ctx.call(push_pop_override, "5v")
    ctx.call(readme_table, "7")
    ctx.call(check_chain, "9")
    from ..kinds import signature_defaults

    ctx.call(signature_defaults, "9d", {f"{SETUP}:{op}_states": {"env": "None"} for op in ("check", "get", "set", "unset", "push", "pop")}, "state operations work without an environment")
    ctx.call(registry, "10")


MUTANTS = [
    ('forced-set-removes-configured-unset-state', 'states/setup.py', '            state_params["unset_state"] = state_params["set_state"]\n', '            state_params.setdefault("unset_state", state_params["set_state"])\n', '2u'),
    ('push-keeps-suffixed-set-state', 'states/setup.py', '        _state_operation_override(\n            state_params, "set", state, state_params.get("push_mode", "af")\n        )\n', '        state_params["set_state"] = state_params["push_state"]\n        state_params["set_mode"] = state_params.get("push_mode", "af")\n', '5v'),
    ('override-deletes-nothing', 'states/setup.py', '        if key.startswith(f"{do}_state_") or key.startswith(f"{do}_mode_"):\n            del state_params[key]\n', '        if key.startswith(f"{do}_state_") and key.startswith(f"{do}_mode_"):\n            del state_params[key]\n', '5v'),
    ('forced-vm-check-full-spelling-only', 'states/setup.py', '            if params_obj_type in ["vms", "nets/vms"]:\n                vm.destroy(', '            if params_obj_type == "nets/vms":\n                vm.destroy(', '4v'),
    ('invalid-root-exists-letter-reuses', 'states/setup.py', '        elif action_if_root_exists == "r":\n            state_backend.get_root(root_params, state_object)\n        else:\n            raise exceptions.TestError(\n                f"Invalid policy {action_if_root_exists}: The root "\n                "existence action can be either of \'reuse\' or \'force\'."\n            )\n', '        else:\n            state_backend.get_root(root_params, state_object)\n', '4'),
    ("iteration-writes-input", SETUP, "        obj_params[params_obj_type] = params_obj_name\n", "        params[params_obj_type] = params_obj_name\n        obj_params[params_obj_type] = params_obj_name\n", "11w"),
    ("show-lists-skipped-types", SETUP, "    states = []\n    for state_params in _parametric_object_iteration(run_params):\n        params_obj_name = state_params[\"object_name\"]\n        params_obj_type = state_params[\"object_type\"]\n        if params_obj_type in state_params.objects(\"skip_types\"):", "    states = []\n    for state_params in _parametric_object_iteration(run_params):\n        params_obj_name = state_params[\"object_name\"]\n        params_obj_type = state_params[\"object_type\"]\n        if params_obj_type not in state_params.objects(\"skip_types\"):", "13"),
    ("push-touches-readonly-image", SETUP, "        if params_obj_type == \"nets/vms/images\" and state_params.get_boolean(\n            \"image_readonly\", False\n        ):\n            logging.warning(\n                f\"Incorrect configuration: cannot use any state \"\n                f\"from readonly image {params_obj_name} - skipping\"\n            )\n            continue\n\n        if not state_params.get(\"push_state\"):",
     "        if not state_params.get(\"push_state\"):", "5u"),
    ("get-abort-ignored", SETUP, "        if not state_exists and \"a\" == action_if_doesnt_exist:\n            logging.info(\"Aborting because of missing snapshot for setup\")",
     "        if not state_exists and \"i\" == action_if_doesnt_exist:\n            logging.info(\"Aborting because of missing snapshot for setup\")", "1"),
    ("set-reuse-overwrites", SETUP, "            logging.info(\"Keeping the already existing snapshot untouched\")\n            continue", "            logging.info(\"Keeping the already existing snapshot untouched\")", "2"),
    ("set-force-without-root-check", SETUP, "            if not state_params[\"set_state\"] in ROOTS and not state_backend.check_root(", "            if state_params[\"set_state\"] in ROOTS and not state_backend.check_root(", "2"),
    ("unset-before-abort", SETUP, "        if not state_exists and \"a\" == action_if_doesnt_exist:\n            logging.info(\"Aborting because of missing snapshot for final cleanup\")",
     "        if not state_exists and \"a\" == action_if_doesnt_exist:\n            state_backend.unset(state_params, state_object)\n            logging.info(\"Aborting because of missing snapshot for final cleanup\")", "3"),
    ("unset-reuse-removes", SETUP, "                params_obj_name,\n            )\n            continue\n        elif state_exists and \"f\" == action_if_exists:\n            pass", "                params_obj_name,\n            )\n        elif state_exists and \"f\" == action_if_exists:\n            pass", "3"),
    ("push-default-ff", SETUP, "state_params.get(\"push_mode\", \"af\")", "state_params.get(\"push_mode\", \"ff\")", "5up"),
    ("push-whole-chain", SETUP, "        state_params[\"states_chain\"] = composite_types[-1]\n\n        _state_operation_override(\n            state_params, \"set\",",
     "        state_params[\"states_chain\"] = \" \".join(composite_types)\n\n        _state_operation_override(\n            state_params, \"set\",", "5up"),
    ("check-root-created-but-missing", SETUP, "                state_backend.set_root(root_params, state_object)\n                root_exists = True\n            elif action_if_root_doesnt_exist == \"r\":",
     "                state_backend.set_root(root_params, state_object)\n            elif action_if_root_doesnt_exist == \"r\":", "4"),
    ("check-skip-after-root", SETUP, "        # if the snapshot is not defined skip (leaf tests that are no setup)\n        if not state_params.get(\"check_state\"):",
     "        # if the snapshot is not defined skip (leaf tests that are no setup)\n        if state_params.get(\"check_state\") is None:", "4"),
    ("iteration-preorder", SETUP, "        if params_obj_type != object_composition[-1]:\n            yield from _parametric_object_iteration(obj_params, composites)\n        # object type parameters don't propagate downwards in the hierarchy\n        obj_type_params = obj_params.object_params(params_obj_type)\n        yield obj_type_params",
     "        # object type parameters don't propagate downwards in the hierarchy\n        obj_type_params = obj_params.object_params(params_obj_type)\n        yield obj_type_params\n        if params_obj_type != object_composition[-1]:\n            yield from _parametric_object_iteration(obj_params, composites)", "11"),
    ("check-mode-from-run-params", SETUP, "state_params[\"check_mode\"] = state_params.get(\"check_mode\", \"rf\")", "state_params[\"check_mode\"] = run_params.get(\"check_mode\", \"rf\")", "12"),
    ("get-default-ri", SETUP, "state_params.get(\"get_mode\", \"ra\")", "state_params.get(\"get_mode\", \"ri\")", "1d"),
    ("readonly-images-touched", SETUP, "def get_states(run_params: Params, env: Env = None) -> None:", "def get_states(run_params: Params, env: Env = None) -> None:\n    \"\"\"x\"\"\"", None),
    ("P-letter-order", SETUP, "        elif state_exists and \"r\" == action_if_exists:\n            pass\n        elif state_exists and \"i\" == action_if_exists:\n            logging.warning(\"Ignoring present snapshot for setup\")\n            continue",
     "        elif state_exists and action_if_exists == \"i\":\n            logging.warning(\"Ignoring present snapshot for setup\")\n            continue\n        elif state_exists and \"r\" == action_if_exists:\n            pass", None),
]
