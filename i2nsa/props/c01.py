"""C01 — every test starts only with its required object states available."""

from __future__ import annotations

import ast

from .. import norm
from ..ctx import Ctx
from ..facts import PathView, is_call_named, recv_text
from ..kinds import function_views, guard_rule, names_interesting
from ..paths import first_line
from ..repo import AnalysisError, call_name, calls_in
from . import nodetables as N
from . import traversal as T

NODE = "cartgraph/node.py"

EXPLANATION = (
    "Decides the structural necessary conditions of C01 on every path of the traversal code: a node is traversed "
    "only when setup-ready, parents are dropped only after their traversal decided they need no more running, the "
    "readiness and run-decision tables equal the reference, a scan error never counts as 'state present', setup "
    "locations come only from the shared pool and from workers with PASS results. The behaviour over schedules, "
    "pool histories and crash residue is not decided."
)
DECIDED = [
    "C01.1 traverse_node only under is_setup_ready (T.G1)",
    "C01.2 drop_parent only after traverse_node and not should_run; single call site and registrar (T.G4)",
    "C01.3 pick_child guards (T.G3)",
    "C01.4 order inside traverse_node: marker, previous results, pull_locations, decision, run (T.O1)",
    "C01.5 readiness predicate tables of is_setup_ready / is_cleanup_ready",
    "C01.6 decision table of default_run_decision",
    "C01.7 scan_states result mapping (normal completion -> present; AssertionError -> missing; other error -> RuntimeError)",
    "C01.8 shared_result_worker_ids adds a worker only for PASS results",
    "C01.9 provenance of get_location* values in pull_locations",
    "C01.10 reversal guards (T.G5)",
    "C01.11 premise: an attached setup node is taken as an object's producer only for that very object (else the other object's producer chain is never parsed)",
    "C01.12 premise: state scans and syncs of a worker go through that worker's own session (cache keyed by host and port)",
    "C01.13 the atoms the readiness rules use are what they say: is_flat, shared_results (own + every bridged node), pick/drop register the right (node, worker) pair",
]
NOT_DECIDED = [
    "truthfulness of the state scan and of the pools' contents",
    "all quantification over schedules, initial pool populations, fault placements and crash points",
]
ASSUMPTIONS = ["bridging of equivalent nodes is complete (C09)", "states are removed only through sync_states (C05.2)"]
MIN_INSTANCES = 40


def scan_states_rule(ctx: Ctx, rule: str) -> None:
    fref = f"{NODE}:TestNode.scan_states"
    fn = ctx.repo.func(fref)
    ctx.require_locals(fref, ["should_run", "node_params", "object_state", "object_params"])
    views = function_views(ctx, fref, names_interesting({"should_run", "run_subcontrol", "is_permanent", "set_subcontrol_parameter"}))
    n, problems = 0, []
    for view in views:
        if view.path.exit != "return":
            continue
        n += 1
        final = view.canon(view.path.exit_node.value, len(view.steps))
        through_handler = any(s.kind == "except" for s in view.steps)
        if not (isinstance(final, ast.Constant) and isinstance(final.value, bool)):
            if through_handler:
                problems.append((f"after a scan error the result is computed ({ast.unparse(final)}) instead of: failed state assertion -> run, any other error -> RuntimeError", view))
                continue
            raise AnalysisError(f"{fref}: result of a path is not a tracked constant: {ast.unparse(final)}")
        runs = [i for i, c in view.calls(is_call_named("run_subcontrol"))]
        if final.value is False:
            prem = view.premise(len(view.steps), 0)
            perm = norm.conj([
                norm.formula(ast.parse("object_state == 'install'", mode="eval").body),
                norm.formula(ast.parse("test_object.is_permanent()", mode="eval").body),
            ])
            # the shortcut must be taken under exactly "installation state of a permanent object" (semantic, not textual)
            perm_conds = [i for i, s in enumerate(view.steps) if s.kind == "cond" and norm.equivalent(norm.formula(s.node) if s.pol else norm.neg(norm.formula(s.node)), perm)]
            if through_handler:
                problems.append(("a scan that ended in an error reports the states as present", view))
            elif runs:
                ok = any(s.kind == "stmt" and i > runs[-1] for i, s in enumerate(view.steps)
                         if isinstance(s.node, ast.Assign) and ast.unparse(s.node) == "should_run = False") and \
                    not any(s.kind == "excin" for s in view.steps[runs[-1]:])
                if not ok:
                    problems.append(("'states present' is not the result of a normally completed check run", view))
            elif not perm_conds:
                problems.append(("'states present' without a check run and without the permanent-object install rule", view))
        else:
            if runs and not through_handler and not any(s.kind == "excin" for s in view.steps):
                problems.append(("a normally completed check run does not report the states as present", view))
            if through_handler:
                conds = [view.cond_formula(i) for i, s in enumerate(view.steps) if s.kind == "cond"]
                if not any("'AssertionError' in " in norm.show(c) and c[0] != "not" for c in conds):
                    problems.append(("an error other than a failed state assertion makes the node run instead of raising", view))
    # handler paths that neither see AssertionError nor raise
    for view in views:
        if any(s.kind == "except" for s in view.steps) and view.path.exit == "raise":
            if T.PathEnum_raised(view) != "RuntimeError":
                problems.append(("unexpected exception type on the scan error path", view))
    ctx.expect_sites(rule, n, 3, fref, False, "returning path of scan_states")
    ctx.record(rule, "TABLE", fref, "scan result: completed check run -> present (False); AssertionError in output -> missing (True); other error -> RuntimeError; "
               "permanent object with install state -> present without a scan",
               not problems, {"paths": n, **({"path": problems[0][1].path.describe()} if problems else {})},
               "" if not problems else problems[0][0])
    # the door request of the scan is a pure check
    acts = [c for c in calls_in(fn.node) if call_name(c) == "set_subcontrol_parameter" and len(c.args) >= 3
            and isinstance(c.args[1], ast.Constant) and c.args[1].value == "action"]
    ok = len(acts) == 1 and isinstance(acts[0].args[2], ast.Constant) and acts[0].args[2].value == "check"
    ctx.record(rule + "b", "CONST", fref, "door action of scan_states is the constant 'check'", ok, {},
               "" if ok else "scan_states requests something other than a read-only check")
    # what is checked: the node's own set_state of each object, in the shared pool
    keys = {}
    for node in ast.walk(fn.node):
        if isinstance(node, ast.Assign) and len(node.targets) == 1 and isinstance(node.targets[0], ast.Subscript):
            t = node.targets[0]
            if ast.unparse(t.value) == "node_params" and isinstance(t.slice, ast.JoinedStr):
                lead = t.slice.values[0].value if isinstance(t.slice.values[0], ast.Constant) else ""
                keys[lead] = ast.unparse(node.value)
    ok2 = keys.get("check_state") == "object_state" and "shared_pool" in keys.get("show_location", "")
    state_defs = [n for n in ast.walk(fn.node) if isinstance(n, ast.Assign) and ast.unparse(n.targets[0]) == "object_state"]
    ok2 = ok2 and len(state_defs) == 1 and ast.unparse(state_defs[0].value) == "object_params.get('set_state')"
    ctx.record(rule + "c", "PROV", fref, "check_state<obj> = the node's set_state of that object; show_location<obj> = the shared pool", ok2,
               {"keys": keys}, "" if ok2 else "the scan no longer checks the node's own produced state in the shared pool")


def pull_guards_rule(ctx: Ctx, rule: str) -> None:
    """Every non-net object of a setup edge gets every location of that setup exactly once (a location is skipped only if it is
    already listed; it is appended when others are listed, stored alone otherwise); flat nodes have nothing to pull."""
    fref = f"{NODE}:TestNode.pull_locations"
    fn = ctx.repo.func(fref)
    ctx.touch(fref)
    from ..canon import inline_locals

    node_i = inline_locals(fn.node)
    body = [s_ for s_ in node_i.body if not (isinstance(s_, ast.Expr) and isinstance(s_.value, ast.Constant))]
    first = body[0] if body else None
    ok_flat = isinstance(first, ast.If) and norm.equivalent(norm.formula(first.test), ("atom", "self.is_flat()")) and len(first.body) == 1 and isinstance(first.body[0], ast.Return) and not first.orelse
    comp = [l for l in ast.walk(node_i) if isinstance(l, ast.For) and "cleanup_nodes[self]" in ast.unparse(l.iter)]
    ok = ok_flat and len(comp) == 1 and isinstance(comp[0].target, ast.Name)
    why = "the guards of pull_locations changed"
    if ok:
        l = comp[0]
        c = l.target.id
        ifs = [i for i in l.body if isinstance(i, ast.If)]
        key = f"f'get_location_{{{c}.long_suffix}}'"
        want_net = norm.formula(ast.parse(f"{c}.key == 'nets'", mode="eval").body)
        want_dup = norm.formula(ast.parse(f"setup_location in self.params.get({key}, '')", mode="eval").body)
        want_has = norm.formula(ast.parse(f"self.params.get({key})", mode="eval").body)
        sk = [i for i in ifs if len(i.body) == 1 and isinstance(i.body[0], ast.Continue) and not i.orelse]
        net_ok = any(norm.equivalent(norm.formula(i.test), want_net) for i in sk)
        dup_ok = any(norm.equivalent(norm.formula(i.test), want_dup) for i in sk)
        st = [i for i in ifs if i not in sk]
        app_ok = False
        if len(st) == 1:
            f = norm.formula(st[0].test)
            a, b = [ast.unparse(x) for x in st[0].body], [ast.unparse(x) for x in st[0].orelse]
            if norm.equivalent(f, norm.neg(want_has)):
                a, b, f = b, a, want_has
            app_ok = norm.equivalent(f, want_has) and a == [f"self.params[{key}] += ' ' + setup_location"] and b == [f"self.params[{key}] = setup_location"]
        ok = net_ok and dup_ok and app_ok and len(sk) == 2
        if not ok:
            why = f"a setup location is not handed to exactly the non-net objects of the edge once (nets skipped: {net_ok}, duplicate skipped: {dup_ok}, append/store: {app_ok})"
    ctx.record(rule, "TABLE", fref, "flat -> nothing; per location and per object of the edge: nets skipped, already listed -> skipped, else appended to (or stored as) get_location_<object>",
               ok, {}, "" if ok else why)


def scan_coverage_rule(ctx: Ctx, rule: str) -> None:
    """Every object whose state the test provides takes part in the state scan (its check_state, location and mode are handed
    to the check), except objects without a set_state and the installation of a permanent object."""
    from ..kinds import loop_iteration_views, the_loop

    fref = f"{NODE}:TestNode.scan_states"
    loop = the_loop(ctx, fref, ast.For, lambda l: ast.unparse(l.iter) == "self.objects", "loop over the node's objects")
    views = loop_iteration_views(ctx, fref, loop, lambda n_: isinstance(n_, ast.Subscript) and isinstance(n_.ctx, ast.Store) or isinstance(n_, (ast.Break, ast.Continue)))
    from ..kinds import expr_formula

    rows = {"empty": 0, "permanent": 0, "scanned": 0}
    problems = []
    for v in views:
        empty = expr_formula(v, len(v.steps), "object_state is None or object_state == ''")
        perm = expr_formula(v, len(v.steps), "object_state == 'install' and test_object.is_permanent()")
        conds = norm.conj([v.cond_formula(i) for i, st in enumerate(v.steps) if st.kind == "cond"])
        stores = {ast.unparse(st.targets[0].slice).split("{")[0].strip("f'\"") for i, st in v.stmts(lambda s_: isinstance(s_, ast.Assign) and ast.unparse(s_.targets[0]).startswith("node_params["))}
        if norm.implies(conds, empty):
            rows["empty"] += 1
            if stores or v.path.exit != "continue":
                problems.append(("an object without a set_state takes part in the scan or ends it", v))
        elif norm.implies(conds, perm):
            rows["permanent"] += 1
            if stores:
                problems.append(("the installation of a permanent object is scanned", v))
        elif norm.implies(conds, norm.conj([norm.neg(empty), norm.neg(perm)])):
            rows["scanned"] += 1
            need = {"check_state", "show_location", "check_mode"}
            extra = stores - need - {"use_env", "soft_boot"}
            if extra:
                problems.append((f"the scan request carries parameters beyond state, location, mode and the two boot switches: {sorted(extra)} (e.g. a narrowed pool scope hides states that exist in the shared pool: setup is executed again)", v))
            if not need <= stores or v.path.exit not in ("fall", "loopback", "next"):
                problems.append((f"an object with a state to check is left out of the scan (parameters set: {sorted(stores)}, exit {v.path.exit}): its missing state goes unnoticed and the setup is skipped", v))
        else:
            problems.append(("a path through the object loop is decided by something other than 'no set_state' / 'permanent install'", v))
    ok = not problems and all(rows.values())
    ctx.record(rule, "TABLE", fref, "per object: no set_state -> not scanned; install of a permanent object -> scan preparation ends; otherwise check_state / show_location / check_mode of the object are handed to the scan",
               ok, {"rows": rows, **({"path": problems[0][1].path.describe()[-12:]} if problems else {})}, "" if ok else (problems[0][0] if problems else f"a row of the scan preparation vanished: {rows}"))


STATUS_UNIVERSE_UP = ["PASS", "WARN", "FAIL", "ERROR", "SKIP", "CANCEL", "INTERRUPTED", "UNKNOWN"]


def _truth_over_statuses(test: ast.AST, subject: str):
    """For a boolean expression over comparisons of `subject` with constants: the statuses for which it is true (None if not interpretable)."""
    def ev(n, s):
        if isinstance(n, ast.BoolOp):
            vals = [ev(v, s) for v in n.values]
            if any(v is None for v in vals):
                return None
            return all(vals) if isinstance(n.op, ast.And) else any(vals)
        if isinstance(n, ast.UnaryOp) and isinstance(n.op, ast.Not):
            v = ev(n.operand, s)
            return None if v is None else not v
        if isinstance(n, ast.Compare) and len(n.ops) == 1 and ast.unparse(n.left) == subject:
            c = n.comparators[0]
            if isinstance(c, ast.Constant):
                vals = c.value
            elif isinstance(c, (ast.List, ast.Tuple, ast.Set)) and all(isinstance(e, ast.Constant) for e in c.elts):
                vals = [e.value for e in c.elts]
            else:
                return None
            op = n.ops[0]
            if isinstance(op, ast.Eq):
                return s == vals
            if isinstance(op, ast.NotEq):
                return s != vals
            if isinstance(op, ast.In):
                return s in vals
            if isinstance(op, ast.NotIn):
                return s not in vals
        return None
    out = set()
    for s in STATUS_UNIVERSE_UP:
        v = ev(test, s)
        if v is None:
            return None
        if v:
            out.add(s)
    return out


def pass_only_rule(ctx: Ctx, rule: str) -> None:
    fref = f"{NODE}:TestNode.shared_result_worker_ids"
    fn = ctx.repo.func(fref)
    outer = [l for l in ast.walk(fn.node) if isinstance(l, ast.For) and ast.unparse(l.iter) == "self.shared_results"]
    if len(outer) != 1 or not isinstance(outer[0].target, ast.Name):
        raise AnalysisError(f"{fref}: loop over self.shared_results not found")
    res = outer[0].target.id
    views = function_views(ctx, fref, None)
    ret = [n for n in ast.walk(fn.node) if isinstance(n, ast.Return)]
    if len(ret) != 1 or not isinstance(ret[0].value, ast.Name):
        raise AnalysisError(f"{fref}: expected a single `return <name>`")
    acc = ret[0].value.id

    def is_add(c: ast.Call) -> bool:
        return call_name(c) in ("add", "update", "append", "extend") and recv_text(c) == acc

    # which results credit their worker: exactly those of executions that provided the state (PASS, and WARN = passed with
    # warnings; the runner itself turns an unusually slow PASS into WARN) — never a failed, skipped or pending one
    # path based: the statuses under which the crediting add is reachable in one iteration (guard-continue, nested if, ... alike)
    from ..kinds import loop_iteration_views

    credited = set()
    understood = True
    from ..paths import Step
    import copy as _copy

    # literals named before the loop (setup_statuses = ["PASS", "WARN"]) are part of the test
    pre = [Step("stmt", s_) for s_ in fn.node.body if isinstance(s_, ast.Assign) and fn.node.body.index(s_) < fn.node.body.index(outer[0])] if outer[0] in fn.node.body else []
    for v in loop_iteration_views(ctx, fref, outer[0], None, pre_steps=pre):
        if not any(True for _ in v.calls(is_add)):
            continue
        first_add = next(i for i, c in v.calls(is_add))
        allowed = set(STATUS_UNIVERSE_UP)
        for idx, st in enumerate(v.steps[:first_add]):
            if st.kind == "cond" and f"{res}['status']" in ast.unparse(st.node):
                t = _truth_over_statuses(v.canon(_copy.deepcopy(st.node), idx), f"{res}['status']")
                if t is None:
                    understood = False
                    break
                allowed &= t if st.pol else (set(STATUS_UNIVERSE_UP) - t)
        credited |= allowed
    if not understood:
        credited = None
    okc = credited == {"PASS", "WARN"}
    ctx.record(rule, "TABLE", fref, "a result credits its worker as a producer exactly when its status is PASS or WARN", okc, {"credited": sorted(credited) if credited is not None else None},
               "" if okc else (f"the statuses that credit a producing worker are {sorted(credited) if credited is not None else 'not a plain status test'}: "
                               + ("a setup that ended WARN (e.g. a slow PASS, turned into WARN by the runner) produced its state but its worker's pool is not named to the dependants"
                                  if credited is not None and "WARN" not in credited else "a worker is credited with a state it did not produce")))
    # no other way to fill the accumulator
    other = [n for n in ast.walk(fn.node) if isinstance(n, (ast.Assign, ast.AugAssign))
             and acc in {t.id for t in ast.walk(n.targets[0] if isinstance(n, ast.Assign) else n.target) if isinstance(t, ast.Name)}]
    ok = len(other) == 1 and isinstance(other[0], ast.Assign) and ast.unparse(other[0].value) == "set()"
    ctx.record(rule + "b", "PROV", fref, f"{acc} starts empty and is only filled by the guarded add", ok, {},
               "" if ok else "the set of producing workers can be filled by another statement")
    # the id added is one whose text occurs in the result's name
    adds = [c for c in calls_in(fn.node) if is_add(c)]
    ok2 = False
    if len(adds) == 1 and adds[0].args and isinstance(adds[0].args[0], ast.Name):
        wid = adds[0].args[0].id
        views2 = [v for v in views if any(c is adds[0] for _, c in v.calls(is_add))]
        ok2 = bool(views2) and all(
            norm.implies(v.premise(next(i for i, c in v.calls(is_add) if c is adds[0]), 0),
                         norm.formula(ast.parse(f"{wid} in {res}['name']", mode="eval").body))
            for v in views2)
    ctx.record(rule + "c", "GUARD", fref, "a worker id is added only if it occurs in the crediting result's test name", ok2, {},
               "" if ok2 else "a worker id is credited with a result whose name does not contain it")


def pull_locations_rule(ctx: Ctx, rule: str) -> None:
    fref = f"{NODE}:TestNode.pull_locations"
    fn = ctx.repo.func(fref)
    ctx.require_locals(fref, ["setup_path"])
    ctx.touch(fref)
    # hoisting a key into a local or inlining one is the same code: analyse with single-definition pure locals substituted
    from ..canon import inline_locals

    class _F:
        pass
    fn_i = _F()
    fn_i.node = inline_locals(fn.node, keep={"setup_path"})
    fn = fn_i
    loops = {ast.unparse(l.iter): l for l in ast.walk(fn.node) if isinstance(l, ast.For)}
    node_loop = loops.get("self.setup_nodes")
    if node_loop is None or not isinstance(node_loop.target, ast.Name):
        raise AnalysisError(f"{fref}: loop over self.setup_nodes not found")
    nd = node_loop.target.id
    wid_loop = loops.get(f"{nd}.shared_result_worker_ids")
    if wid_loop is None or not isinstance(wid_loop.target, ast.Name):
        ctx.record(rule, "PROV", fref, "worker locations are drawn from <setup node>.shared_result_worker_ids", False,
                   {"loops": sorted(loops)},
                   "the producing workers of a setup location are no longer taken from the setup node's passing results "
                   "(no loop over <setup node>.shared_result_worker_ids)")
        return
    wid = wid_loop.target.id
    # definitions of the location list
    loc_loop = next((l for l in ast.walk(fn.node) if isinstance(l, ast.For) and isinstance(l.iter, ast.Name)
                     and isinstance(l.target, ast.Name) and any(
                         isinstance(s, ast.Assign) and ast.unparse(s.targets[0]).startswith("self.params[") for s in ast.walk(l))), None)
    if loc_loop is None:
        raise AnalysisError(f"{fref}: loop over the setup locations not found")
    locs, loc = loc_loop.iter.id, loc_loop.target.id
    defs = []
    for n in ast.walk(fn.node):
        if isinstance(n, ast.Assign) and any(isinstance(t, ast.Name) and t.id == locs for t in n.targets):
            defs.append(("init", n))
        elif isinstance(n, ast.AugAssign) and isinstance(n.target, ast.Name) and n.target.id == locs:
            defs.append(("aug", n))
        elif isinstance(n, ast.Call) and call_name(n) in ("append", "extend", "insert") and recv_text(n) == locs:
            defs.append(("call", n))
    setup_path_defs = [n for n in ast.walk(fn.node) if isinstance(n, ast.Assign) and ast.unparse(n.targets[0]) == "setup_path"]
    ok_path = len(setup_path_defs) == 1 and ast.unparse(setup_path_defs[0].value) == "self.params.get('swarm_pool', self.params['vms_base_dir'])"
    problems = []
    n_init = n_aug = 0
    for kind, n in defs:
        if kind == "init":
            n_init += 1
            v = n.value
            ok = isinstance(v, ast.List) and len(v.elts) == 1 and ast.unparse(v.elts[0]) in ("':' + self.params.get('shared_pool', '.')", "':' + self.params.get('shared_pool')", "':' + self.params['shared_pool']")
            if not ok or not _inside(n, node_loop):
                problems.append(f"location list initialised with something other than the shared pool: {first_line(n)}")
        elif kind == "aug" or (kind == "call" and call_name(n) == "append" and len(n.args) == 1):
            n_aug += 1
            elt = n.args[0] if kind == "call" else (n.value.elts[0] if isinstance(n.value, ast.List) and len(n.value.elts) == 1 else None)
            ok = elt is not None and ast.unparse(elt) == f"{wid} + ':' + setup_path" and _inside(n, wid_loop)
            if not ok:
                problems.append(f"location added that is not '<producing worker>:<its pool path>': {first_line(n)}")
            # every producing worker is named: nothing in the loop over the producers filters them
            filt = [x for x in ast.walk(wid_loop) if isinstance(x, (ast.If, ast.Continue, ast.Break, ast.IfExp))]
            if filt:
                problems.append(f"the pool of a producing worker is named only under a condition (line {filt[0].lineno}): a test whose state only that worker holds is not told where to fetch it")
        else:
            problems.append(f"location list modified by an unmodelled call: {first_line(n)}")
    ok = not problems and n_init == 1 and n_aug == 1 and ok_path and _inside(wid_loop, node_loop) and _inside(loc_loop, node_loop)
    ctx.record(rule, "PROV", fref,
               "setup locations per setup node = [':' + shared_pool] + [wid + ':' + swarm pool path for wid in node.shared_result_worker_ids]",
               ok, {"definitions": [first_line(n) for _, n in defs], "setup_path": [first_line(d) for d in setup_path_defs]},
               "" if ok else (problems[0] if problems else "the construction of the setup locations changed"))
    # every get_location store takes its value from the iterated location
    stores = []
    for n in ast.walk(fn.node):
        tgt = None
        if isinstance(n, ast.Assign) and len(n.targets) == 1:
            tgt, val = n.targets[0], n.value
        elif isinstance(n, ast.AugAssign):
            tgt, val = n.target, n.value
        if tgt is not None and isinstance(tgt, ast.Subscript) and ast.unparse(tgt.value) == "self.params":
            key = tgt.slice
            lead = key.values[0].value if isinstance(key, ast.JoinedStr) and isinstance(key.values[0], ast.Constant) else (
                key.value if isinstance(key, ast.Constant) else None)
            if isinstance(lead, str) and lead.startswith("get_location"):
                names = {x.id for x in ast.walk(val) if isinstance(x, ast.Name)}
                stores.append((n, names <= {loc} and loc in names and _inside(n, loc_loop)))
    ctx.expect_sites(rule + "b", len(stores), 2, fref, True, "store to self.params[get_location<obj>]")
    for n, ok in stores:
        ctx.record(rule + "b", "PROV", fref, first_line(n), ok, {"source": loc},
                   "" if ok else "a get_location value is not one of the computed setup locations")
    # the object suffix of the key comes from the components linking this node to that setup node
    comp_loops = [l for l in ast.walk(loc_loop) if isinstance(l, ast.For) and ast.unparse(l.iter) == f"{nd}.cleanup_nodes[self]"]
    ok_c = len(comp_loops) == 1 and all(_inside(n, comp_loops[0]) for n, _ in stores)
    ctx.record(rule + "c", "PROV", fref, "get_location keys are written per object through which this node depends on that setup node", ok_c, {},
               "" if ok_c else "get_location is written for objects other than those linking the node to the producing setup node")
    # nobody else writes a node's own get_location parameters
    others = []
    for rel, tree in ctx.repo.trees.items():
        if not rel.startswith(("cartgraph/", "plugins/")):
            continue
        for n in ast.walk(tree):
            tgt = None
            if isinstance(n, ast.Assign) and len(n.targets) == 1:
                tgt = n.targets[0]
            elif isinstance(n, ast.AugAssign):
                tgt = n.target
            if isinstance(tgt, ast.Subscript) and isinstance(tgt.value, ast.Attribute) and tgt.value.attr == "params":
                key = ast.unparse(tgt.slice)
                if "get_location" in key:
                    if not (rel == NODE and fn.node.lineno <= n.lineno <= fn.node.end_lineno):
                        others.append((rel, n))
    ctx.record(rule + "d", "OWNER", "cartgraph/*, plugins/*", "only pull_locations writes get_location* into a node's own parameters", not others,
               {}, "" if not others else f"another writer of get_location parameters: {others[0][0]}: {first_line(others[0][1])}")


def _inside(node: ast.AST, container: ast.AST) -> bool:
    return any(x is node for x in ast.walk(container))


def run(ctx: Ctx) -> None:
    ctx.call(T.t_g1, "1/T.G1")
    ctx.call(N.scan_trust, "6s")
    ctx.call(T.t_g4, "2/T.G4")
    ctx.call(T.t_g3, "3/T.G3")
    ctx.call(T.t_o1, "4/T.O1")
    ctx.call(N.readiness_table, "5", "setup")
    ctx.call(N.readiness_table, "5c", "cleanup")
    ctx.call(N.run_decision_table, "6")
    ctx.call(scan_states_rule, "7")
    ctx.call(pass_only_rule, "8")
    ctx.call(pull_locations_rule, "9")
    ctx.call(scan_coverage_rule, "7t")
    ctx.call(pull_guards_rule, "9g")
    ctx.call(T.t_g5, "10/T.G5")
    ctx.call(T.t_g5u, "10u/T.G5u")
    # a state a dependant still needs is removed only by the clean decision: its table (incl. which nodes count as reversible at all) and
    # the run policies that the update tool substitutes for the default one (they must keep the scope-aware `is_finished`)
    ctx.call(N.clean_decision_table, "14", True)
    from .c10 import replaced_run_policies

    ctx.call(replaced_run_policies, "15")
    from . import graphrules as GR
    from .c08 import session_identity

    ctx.call(GR.dependency_lookup, "11")
    ctx.call(session_identity, "12")
    from . import atoms as A

    ctx.call(A.definitions, "13", only=('is_flat','shared_results','is_object_root'))
    ctx.call(A.drop_registrations, "13d")


G = "cartgraph/graph.py"
MUTANTS = [
    ("producer-pools-only-with-cluster-scope", NODE, "            for net_suffix in node.shared_result_worker_ids:\n                setup_locations += [net_suffix + \":\" + setup_path]", "            for net_suffix in node.shared_result_worker_ids:\n                if \"cluster\" not in self.params[\"pool_scope\"]:\n                    continue\n                setup_locations += [net_suffix + \":\" + setup_path]", "9"),
    ("location-only-if-already-listed", NODE, "                    if setup_location in self.params.get(\n                        f\"get_location{object_suffix}\", \"\"\n                    ):\n                        continue", "                    if setup_location not in self.params.get(\n                        f\"get_location{object_suffix}\", \"\"\n                    ):\n                        continue", "9g"),
    ("location-overwrites-earlier-ones", NODE, "                    if self.params.get(f\"get_location{object_suffix}\"):\n                        self.params[f\"get_location{object_suffix}\"] += (", "                    if not self.params.get(f\"get_location{object_suffix}\"):\n                        self.params[f\"get_location{object_suffix}\"] += (", "9g"),
    ("permanent-shortcut-inverted", NODE, "            if object_state == \"install\" and test_object.is_permanent():\n                should_run = False", "            if not (object_state == \"install\" and test_object.is_permanent()):\n                should_run = False", "7t"),
    ("permanent-shortcut-any-state", NODE, "            if object_state == \"install\" and test_object.is_permanent():\n                should_run = False", "            if test_object.is_permanent():\n                should_run = False", "7t"),
    ("drop-not-in-drop-guard", G, "if not next.should_run(worker):\n                        previous.drop_parent(next, worker)",
     "if next.should_run(worker):\n                        previous.drop_parent(next, worker)", "2/T.G4"),
    ("delete-setup-ready-test", G, "                if next.is_setup_ready(worker):\n                    await self.traverse_node(next, worker, params)",
     "                if True:\n                    await self.traverse_node(next, worker, params)", "1/T.G1"),
    ("pass-to-fail", NODE, 'if result["status"] not in ["PASS", "WARN"]:\n                continue', 'if result["status"] == "FAIL":\n                continue', "8"),
    ("warn-not-credited", NODE, 'if result["status"] not in ["PASS", "WARN"]:\n                continue', 'if result["status"] != "PASS":\n                continue', "8"),
    ("P-credit-filter-as-conjunction", NODE, 'if result["status"] not in ["PASS", "WARN"]:\n                continue', 'if result["status"] != "PASS" and result["status"] != "WARN":\n                continue', None),
    ("pull-after-decision", G, "        test_node.pull_locations()\n\n        if test_node.should_run(worker):",
     "        if test_node.should_run(worker):\n            test_node.pull_locations()", "4/T.O1"),
    ("flat-parents-skipped", NODE, "            if not node.is_flat() and worker.id not in node.params[\"name\"]:\n                continue\n            if worker.id not in self._dropped_setup_nodes.get_workers(node):",
     "            if node.is_flat() or worker.id not in node.params[\"name\"]:\n                continue\n            if worker.id not in self._dropped_setup_nodes.get_workers(node):", "5"),
    ("scan-error-means-present", NODE, "                else:\n                    raise RuntimeError(\n                        \"Could not complete state scan due to control file error\"\n                    )",
     "                else:\n                    should_run = False", "7"),
    ("scan-error-computed", NODE, "                if \"AssertionError\" in error.output:\n                    should_run = True\n                else:\n                    raise RuntimeError(\n                        \"Could not complete state scan due to control file error\"\n                    )",
     "                should_run = \"AssertionError\" in error.output", "7"),
    ("drop-before-traverse", G, "                    await self.traverse_node(next, worker, params)\n                    if not next.should_run(worker):\n                        previous.drop_parent(next, worker)",
     "                    if not next.should_run(worker):\n                        previous.drop_parent(next, worker)\n                    await self.traverse_node(next, worker, params)", "2/T.G4"),
    ("scan-when-finished", NODE, "should_run_from_scan = self.scan_states() if should_scan else False", "should_run_from_scan = self.scan_states()", "6"),
    ("rerun-not-disabled", NODE, "if len(self.shared_filtered_results) == 0 and not should_run_from_scan:", "if len(self.shared_filtered_results) == 0 and should_run_from_scan:", "6"),
    ("location-from-all-workers", NODE, "for net_suffix in node.shared_result_worker_ids:", "for net_suffix in [w.id for s in TestSwarm.run_swarms.values() for w in s.workers]:", "9"),
    ("reverse-without-unexplored-guard", G, "if not next.is_flat() and len(unexplored_nodes + unrolling_nodes) > 0:", "if not next.is_flat() and len(unexplored_nodes + unrolling_nodes) > 1:", "10/T.G5"),
    # preservers
    ("P-hoist-ready", G, "                if next.is_setup_ready(worker):\n                    await self.traverse_node(next, worker, params)",
     "                ready = next.is_setup_ready(worker)\n                if ready:\n                    await self.traverse_node(next, worker, params)", None),
    ("P-demorgan-ready", NODE, "            if not node.is_flat() and worker.id not in node.params[\"name\"]:\n                continue\n            if worker.id not in self._dropped_setup_nodes.get_workers(node):",
     "            if not (node.is_flat() or worker.id in node.params[\"name\"]):\n                continue\n            if worker.id not in self._dropped_setup_nodes.get_workers(node):", None),
    ("P-rename-local", G, "            next = traverse_path[-1]\n", "            next = traverse_path[-1]\n            logging.debug('at %s', next)\n", None),
    ("P-swap-branches", G, "                    if not next.should_run(worker):\n                        previous.drop_parent(next, worker)\n                    traverse_path.pop()",
     "                    if next.should_run(worker):\n                        pass\n                    else:\n                        previous.drop_parent(next, worker)\n                    traverse_path.pop()", None),
]
