"""C09 — workers get equivalent linked graph copies; lazy and eager parsing agree."""
from . import graphrules as GR
from . import nodetables as N
from . import traversal as T

EXPLANATION = (
    "Equality of per-worker subgraphs, of lazy vs. eager results and determinism are not decidable statically. Decided: "
    "bridging is symmetric, rejects non-equivalent nodes, aliases all four visit registers and has a single owner (no "
    "register copies exist); every place that creates composite nodes bridges them with all equivalents (all-pairs in the "
    "update tool); lazy and eager expansion share one parsing entry point with the same arguments followed by validate(); "
    "the shared bookkeeping is read only through the aliased registers."
)
DECIDED = [
    "C09.1 bridge_with_node decision table; writers of _bridged_nodes and of the four registers; no register copies",
    "C09.2 bridging sites: on resolution, for fresh clones, all-pairs in the update tool",
    "C09.3 readiness/pick predicates and involved workers read the aliased registers (sibling agreement)",
    "C09.4r/4p restrictions accumulate alike on nodes and objects (whole-line duplicate test); parents are looked up / parsed the same way whatever is already cached",
    "C09.9 parsing helpers never write restrictions/parameters/objects of the (shared) nodes and objects they are given",
    "C09.4 single parsing entry point for lazy and eager expansion; lazy expansion condition; validate() at both sites",
]
NOT_DECIDED = ["equivalence of per-worker subgraphs", "equality of lazy and eager results", "determinism across runs", "that workers together expand every compatible test"]
MIN_INSTANCES = 25


def run(ctx):
    ctx.call(GR.bridge_table, "1")
    ctx.call(GR.bridging_sites, "2")
    ctx.call(N.readiness_table, "3s", "setup")
    ctx.call(N.readiness_table, "3c", "cleanup")
    ctx.call(N.pick_agreement, "3ps", "setup")
    ctx.call(N.pick_agreement, "3pc", "cleanup")
    ctx.call(GR.parsing_entry, "4")
    ctx.call(GR.restriction_updates, "4r")
    ctx.call(GR.dependency_provenance, "4p")
    ctx.call(GR.lazy_predicates, "4l")
    ctx.call(GR.validate_coverage, "4v")
    ctx.call(T.t_s1, "3x/T.S1")
    ctx.call(GR.name_forms, "5n")
    ctx.call(GR.bridged_form_anchored, "5a")
    ctx.call(GR.worker_symmetry, "6")
    ctx.call(GR.flat_expansion, "7")
    ctx.call(GR.lazy_eager_details, "8")
    ctx.call(GR.dependency_table, "4t")
    ctx.call(GR.parse_inputs_readonly, "9")
    from . import c16 as C16

    # the only variant filter of the lazy path: node and object restriction filters agree and match whole variants
    ctx.call(C16.graph_lookups, "10")


NODE = "cartgraph/node.py"
G = "cartgraph/graph.py"
I = "intertest_setup.py"
MUTANTS = [
    ("node-takes-worker-restrictions", "cartgraph/graph.py", "            filtered_vms = self.get_objects_by_restr(\n                test_node.restrs.get(vm_name, \"\"), subset=filtered_vms\n            )",
     "            test_node.update_restrs({vm_name: test_object.restrs.get(vm_name, \"\")})\n            filtered_vms = self.get_objects_by_restr(\n                test_node.restrs.get(vm_name, \"\"), subset=filtered_vms\n            )", "9"),
    ("bridged-form-flat-composite-swapped", "cartgraph/node.py", "        if len(self.objects) == 0:\n            return self.setless_form\n        # TODO: the long suffix", "        if len(self.objects) != 0:\n            return self.setless_form\n        # TODO: the long suffix", "5nb"),
    ("unrolled-for-other-workers-child", "cartgraph/node.py", "                if worker and worker.id in node.id:\n                    return True", "                if worker and worker.id not in node.id:\n                    return True", "4lu"),
    ("unrolled-when-compatible", "cartgraph/node.py", "        elif worker and worker.net.long_suffix in self.incompatible_workers:\n            return True", "        elif worker and worker.net.long_suffix not in self.incompatible_workers:\n            return True", "4lu"),
    ("unrolled-no-worker-needs-incompat", "cartgraph/node.py", "                elif worker is None:\n                    return True\n        return False", "                elif worker is not None:\n                    return True\n        return False", "4lu"),
    ("one-worker-empty-aborts-all", "cartgraph/graph.py", "            except param.EmptyCartesianProduct as error:\n                # a worker incompatible with the selection has no tests of its own\n                logging.warning(f\"No tests could be parsed for {worker.id}: {error}\")\n                empty_error = error\n                continue",
     "            except param.EmptyCartesianProduct as error:\n                raise", "6e"),
    ("empty-selection-accepted", "cartgraph/graph.py", "        if empty_error is not None and len(graph.nodes) == 0:\n            raise empty_error\n", "", "6e"),
    ("required-dependency-skipped", "cartgraph/graph.py", "                if test_node.params.get(\"require_existence\", \"no\") == \"yes\":\n                    raise\n", "", "7e"),
    ("all-lookup-errors-swallowed", "cartgraph/graph.py", "            test_nets = get_nets + parse_nets\n        except ValueError:", "            test_nets = get_nets + parse_nets\n        except Exception:", "7v"),
    ("only-reused-nets-expanded", "cartgraph/graph.py", "            test_nets = get_nets + parse_nets\n", "            test_nets = get_nets or parse_nets\n", "7n"),
    ("new-nodes-always-new", "cartgraph/graph.py", "            if len(old_nodes) == 0:\n                logging.debug(\n                    f\"Found new node", "            if True:\n                logging.debug(\n                    f\"Found new node", "7p"),
    ("flat-children-include-flat", "cartgraph/graph.py", "        filtered_children = [n for n in filtered_children if not n.is_flat()]\n", "", "7c"),
    ("first-worker-objects-only", "cartgraph/graph.py", "            old_ids = {o.id for o in graph.objects}\n            graph.new_objects(\n                [s for s in stubs if s.key == \"nets\" or s.id not in old_ids]\n            )",
     "            if i == 0:\n                graph.new_objects(stubs)\n            else:\n                graph.new_objects([s for s in stubs if s.key == \"nets\"])", "6"),
    ("later-workers-nets-only", "cartgraph/graph.py", "            old_ids = {o.id for o in graph.objects}\n            graph.new_objects(\n                [s for s in stubs if s.key == \"nets\" or s.id not in old_ids]\n            )",
     "            old_ids = {o.id for o in graph.objects}\n            graph.new_objects(\n                [s for s in stubs if s.key == \"nets\" or not old_ids]\n            )", "6o"),
    ("all-stubs-duplicated", "cartgraph/graph.py", "            old_ids = {o.id for o in graph.objects}\n            graph.new_objects(\n                [s for s in stubs if s.key == \"nets\" or s.id not in old_ids]\n            )", "            graph.new_objects(stubs)", "6o"),
    ("P-known-ids-renamed", "cartgraph/graph.py", "            old_ids = {o.id for o in graph.objects}\n            graph.new_objects(\n                [s for s in stubs if s.key == \"nets\" or s.id not in old_ids]\n            )",
     "            known = {obj.id for obj in graph.objects}\n            graph.new_objects([stub for stub in stubs if stub.id not in known or stub.key == \"nets\"])", None),
    ("one-way-bridge", NODE, "            self._bridged_nodes.append(test_node)\n            test_node._bridged_nodes.append(self)", "            self._bridged_nodes.append(test_node)", "1"),
    ("counters-not-shared", NODE, "                node._dropped_cleanup_nodes = test_node._dropped_cleanup_nodes\n", "", "1g"),
    ("registers-adopted-by-self-only", NODE, "                pending.extend(node._bridged_nodes)\n", "", "1g"),
    ("registers-adopted-by-other-peers-only", NODE, "            bridged, pending = [], [self]\n            while len(pending) > 0:\n                node = pending.pop()\n                if any(node is b for b in bridged):\n                    continue\n                bridged.append(node)\n                pending.extend(node._bridged_nodes)\n", "            for node in (self, *test_node._bridged_nodes):\n", "1g"),
    ("P-worklist-from-the-other-node", NODE, "            bridged, pending = [], [self]\n", "            bridged, pending = [], [test_node]\n", None),
    ("non-equivalent-accepted", NODE, "        elif not re.search(test_node.bridged_form, self.params[\"name\"]):\n            raise ValueError(f\"Cannot bridge {self} with non-equivalent {test_node}\")\n", "", "1"),
    ("register-copied", NODE, "                node._picked_by_setup_nodes = test_node._picked_by_setup_nodes\n", "                node._picked_by_setup_nodes = EdgeRegister()\n", "1"),
    ("bridge-first-only", G, "            for bridge in old_bridges:\n                test_node.bridge_with_node(bridge)", "            for bridge in old_bridges[:1]:\n                test_node.bridge_with_node(bridge)", "2"),
    ("update-bridges-chain", I, "    for node1 in graph.nodes:\n        for node2 in graph.nodes:\n            if node1 == node2:\n                continue\n            if node1.bridged_form == node2.bridged_form:\n                if node1.id == node2.id:\n                    raise ValueError\n                node1.bridge_with_node(node2)",
     "    for i, node1 in enumerate(graph.nodes):\n        for node2 in graph.nodes[i + 1 :]:\n            if node1.bridged_form == node2.bridged_form:\n                if node1.id == node2.id:\n                    raise ValueError\n                node1.bridge_with_node(node2)\n                break", "2u"),
    ("clones-not-bridged", G, "                    for old_bridge in old_bridges:\n                        child.bridge_with_node(old_bridge)\n", "", "2c"),
    ("lazy-other-entry", G, "                for parents, siblings, current in self.parse_paths_to_object_roots(\n                    next, worker.net, params\n                ):", "                for parents, siblings, current in [self.parse_branches_for_node_and_object(next, worker.net, params) + (next,)]:", "4"),
    ("lazy-always-when-flat", G, "                and (len(unexplored_nodes) > 0 or next.should_parse(worker))\n", "", "4c"),
]
