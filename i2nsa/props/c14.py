"""C14 — pool transfers are exact, never destroy data, and exclude each other."""

from __future__ import annotations

import ast
import copy

from .. import norm
from ..ctx import Ctx
from ..facts import PathView, is_call_named
from ..kinds import expr_formula, function_views, guard_rule, names_interesting
from ..paths import first_line
from ..repo import AnalysisError, call_name, calls_in, dotted

POOL = "states/pool.py"
OPS = f"{POOL}:TransferOps"
FILE_MUTATORS = {"shutil.copy", "shutil.copy2", "shutil.copyfile", "shutil.move", "os.unlink", "os.remove", "os.symlink",
                 "os.rename", "os.replace", "os.link", "shutil.rmtree", "os.rmdir"}

EXPLANATION = (
    "Decides the lexical lock discipline of the local pool transfers (every file mutation of download/upload/delete/"
    "link sits inside `with image_lock(<pool path>)`, all four lock the pool path), compare-then-copy under the lock, "
    "the copy direction, the link-mode data protection guards, and the typestate of image_lock itself (the critical "
    "section is entered only after a successful lockf, exhaustion raises, unlock in finally, descriptor closed by "
    "`with open`, the lock file is never removed). Byte identity, POSIX lock semantics across processes and crashes "
    "are assumptions."
)
DECIDED = [
    "C14.1 every pool-side file mutation of the local/link transfers is inside image_lock(pool_path); no other writer in states/",
    "C14.2 each copy is guarded by compare(...) == False evaluated inside the lock",
    "C14.3 copy direction: download pool -> cache, upload cache -> pool (the source is only read)",
    "C14.4 link mode: symlink only if no real data at the cache path; unlink only of links; a symlink is never uploaded",
    "C14.5 image_lock typestate: yield only after lockf succeeded; bounded wait; exhaustion raises; unlock in finally; fd from `with open`",
    "C14.6 SKIP_LOCKS is False and never assigned; the lock file is never deleted",
    "C14.7 no (transitively) nested image_lock inside a locked section — the inner release would drop the outer per-process lock",
    "C14.8 lock wait = update_pool_timeout (300); delete_local = os.unlink(pool_path) under the lock; link variants delegate with arguments in place; missing file <-> ''",
    "C14.2h the compare that guards each copy covers the complete files (KNOWN FINDING F10: only the first MiB is hashed)",
    "C14.2f the compare that guards each copy hashes both files when asked (no cached or metadata-only comparison)",
    "C14.2w the copy is the only file mutation of a plain transfer; C14.5c the lock file is opened once; C14.5e every path to the locked yield holds the lock (path typestate)",
    'C14.4k a link upload skips a cache link that already points to its pool file (compare first, like every other flavour)',
    'C14.4d a cache link is removed before a copy-mode download writes the cache path',
    'C14.8m the remote comparison answers for a missing remote file without hashing it',
    "C14.8d the 'already available' skip of a download is not reachable with the pool file missing",
]
NOT_DECIDED = ["byte identity of shutil.copy", "POSIX lock semantics across processes and crashes", "remote pools (no remote lock support in the code)"]
ASSUMPTIONS = ["fcntl.lockf gives mutual exclusion between processes on the same lock file and is dropped when the descriptor is closed"]
MIN_INSTANCES = 20


def _locks(fn: ast.AST) -> list[ast.With]:
    return [w for w in ast.walk(fn) if isinstance(w, ast.With)
            and any(isinstance(i.context_expr, ast.Call) and call_name(i.context_expr) == "image_lock" for i in w.items)]


def _inside(node: ast.AST, container: ast.AST) -> bool:
    return any(x is node for x in ast.walk(container))


def lock_discipline(ctx: Ctx, rule: str) -> None:
    n_mut = 0
    for name in ("download_local", "upload_local", "delete_local", "download_link"):
        fref = f"{OPS}.{name}"
        fn = ctx.repo.func(fref)
        ctx.touch(fref)
        locks = _locks(fn.node)
        pool_param = "pool_path"
        ok_lock = len(locks) == 1 and ast.unparse(locks[0].items[0].context_expr.args[0]) == pool_param \
            and pool_param in fn.params()
        ctx.record(rule, "PAIR", fref, f"one `with image_lock({pool_param}, <timeout>)` section locking the pool path", ok_lock,
                   {"locks": [ast.unparse(l.items[0].context_expr) for l in locks]},
                   "" if ok_lock else f"{name} no longer locks the pool path (found {[ast.unparse(l.items[0].context_expr) for l in locks]})")
        muts = [c for c in calls_in(fn.node) if dotted(c.func) in FILE_MUTATORS]
        n_mut += len(muts)
        for c in muts:
            inside = bool(locks) and _inside(c, locks[0])
            ctx.record(rule + "m", "PAIR", fref, ast.unparse(c), inside, {},
                       "" if inside else f"file mutation outside the pool lock: {ast.unparse(c)}")
        # makedirs of the pool directory happens under the lock too (the cache directory is the worker's own)
        for c in calls_in(fn.node):
            if dotted(c.func) == "os.makedirs" and pool_param in ast.unparse(c.args[0]):
                inside = bool(locks) and _inside(c, locks[0])
                ctx.record(rule + "m", "PAIR", fref, ast.unparse(c), inside, {}, "" if inside else "pool directory created outside the lock")
    if n_mut < 5:
        raise AnalysisError(f"only {n_mut} file mutations found in the local transfer functions, expected at least 5")
    for name, target in (("upload_link", "upload_local"), ("delete_link", "delete_local")):
        fref = f"{OPS}.{name}"
        fn = ctx.repo.func(fref)
        ctx.touch(fref)
        muts = [c for c in calls_in(fn.node) if dotted(c.func) in FILE_MUTATORS]
        dele = [c for c in calls_in(fn.node) if call_name(c) == target]
        ok = not muts and len(dele) == 1
        ctx.record(rule + "d", "PAIR", fref, f"{name} delegates to the locked {target}", ok, {},
                   "" if ok else f"{name} mutates files itself or no longer delegates to {target}")
    # nobody else in states/ mutates files below a pool location
    allowed = {
        f"{OPS}.download_local", f"{OPS}.upload_local", f"{OPS}.delete_local", f"{OPS}.download_link",
        "states/qcow2.py:QCOW2ExtBackend._set", "states/qcow2.py:QCOW2ExtBackend._unset", "states/qcow2.py:QCOW2ExtBackend._get",
        "states/ramfile.py:RamfileBackend._set", "states/ramfile.py:RamfileBackend._unset", "states/ramfile.py:RamfileBackend._get",
        "states/qcow2.py:QCOW2ExtBackend.unset_root", "states/qcow2.py:QCOW2Backend.unset_root", "states/qcow2.py:QCOW2Backend._unset_root",
        "states/qcow2.py:QCOW2ExtBackend._unset_root", "states/qcow2.py:QCOW2VTBackend._unset_root",
    }
    others = []
    for f in ctx.repo.all_functions(("states/",)):
        for c in calls_in(f.node):
            if dotted(c.func) in FILE_MUTATORS and f.ref not in allowed:
                args = " ".join(ast.unparse(a) for a in c.args)
                if "pool" in args and "swarm_pool" not in args:
                    others.append((f.ref, c))
    ctx.record(rule + "o", "OWNER", "states/*", "no function outside the locked transfers mutates files under a shared pool path", not others, {},
               "" if not others else f"unlocked pool file mutation in {others[0][0]}: {ast.unparse(others[0][1])}")


def compare_then_copy(ctx: Ctx, rule: str) -> None:
    for name, cmp_name, src, dst in (("download_local", "compare_local", "pool_path", "cache_path"),
                                     ("upload_local", "compare_local", "cache_path", "pool_path"),
                                     ("download_link", "compare_link", "pool_path", "cache_path")):
        fref = f"{OPS}.{name}"
        fn = ctx.repo.func(fref)
        views = function_views(ctx, fref, names_interesting({"copy", "symlink", "unlink", cmp_name, "image_lock", "islink", "exists"},
                                                            extra=lambda n: isinstance(n, (ast.Raise, ast.Return))))
        site = "symlink" if name == "download_link" else "copy"

        def required(v: PathView, i: int, c: ast.Call, cmp_name=cmp_name):
            return norm.neg(expr_formula(v, i, f"TransferOps.{cmp_name}(cache_path, pool_path, params)"))

        guard_rule(ctx, rule, fref, views, lambda c, site=site: call_name(c) == site and dotted(c.func) in FILE_MUTATORS, required,
                   min_sites=1, missing_is_violation=True, what=f"{site} call of {name}",
                   describe_required=f"{cmp_name}(cache_path, pool_path) returned False (both do not already match)")
        # the comparison happens inside the lock
        locks = _locks(fn.node)
        cmps = [c for c in calls_in(fn.node) if call_name(c) == cmp_name]
        ok = len(cmps) == 1 and bool(locks) and _inside(cmps[0], locks[0])
        ctx.record(rule + "l", "ORDER", fref, f"{cmp_name} is evaluated inside the lock", ok, {},
                   "" if ok else "the compare that decides about the copy is evaluated outside the lock (check-then-act race)")
        # the copy is the only write of a plain (non-link) transfer: one that fails (missing or unreadable source, exception of the
        # copy, killed process) leaves the destination as it was
        if name != "download_link":
            others = [c for c in calls_in(fn.node) if dotted(c.func) in FILE_MUTATORS and not (call_name(c) == site)]
            # removing a symlink destroys no data: an unlink that every path reaches only under islink(<its argument>) is not a write
            def _only_links(c_):
                if dotted(c_.func) not in ("os.unlink", "os.remove") or not c_.args:
                    return False
                hits = [(v_, i_) for v_ in views for i_, c2 in v_.calls(lambda x: x is c_)]
                return bool(hits) and all(norm.implies(v_.premise(i_, 0), expr_formula(v_, i_, f"os.path.islink({ast.unparse(c_.args[0])})")) for v_, i_ in hits)
            others = [c for c in others if not _only_links(c)]
            ctx.record(rule + "w", "OWNER", fref, f"{name}: the single copy is the only file mutation (nothing is removed or moved beforehand)", not others,
                       {"other_mutations": [ast.unparse(c) for c in others]},
                       "" if not others else f"{name} also does `{ast.unparse(others[0])}`: a copy that fails after it has destroyed the {dst.split('_')[0]} data it was about to replace")
        # direction
        calls = [c for c in calls_in(fn.node) if call_name(c) == site and dotted(c.func) in FILE_MUTATORS]
        okd = len(calls) == 1 and [ast.unparse(a) for a in calls[0].args[:2]] == [src, dst]
        ctx.record(rule + "d", "PROV", fref, f"{site}({src}, {dst}): the source side is only read", okd,
                   {"found": [ast.unparse(c) for c in calls]}, "" if okd else f"the transfer direction of {name} changed")


def link_mode(ctx: Ctx, rule: str) -> None:
    fref = f"{OPS}.download_link"
    views = function_views(ctx, fref, names_interesting({"symlink", "unlink", "compare_link", "islink", "exists"},
                                                        extra=lambda n: isinstance(n, (ast.Raise, ast.Return))))
    guard_rule(ctx, rule, fref, views, lambda c: dotted(c.func) == "os.symlink",
               lambda v, i, c: norm.neg(norm.conj([norm.neg(expr_formula(v, i, "os.path.islink(cache_path)")),
                                                   expr_formula(v, i, "os.path.exists(cache_path)")])),
               min_sites=1, missing_is_violation=True, what="os.symlink call",
               describe_required="not (cache path is real data: not a link and existing) — RuntimeError otherwise")
    guard_rule(ctx, rule + "u", fref, views, lambda c: dotted(c.func) in ("os.unlink", "os.remove"),
               lambda v, i, c: expr_formula(v, i, f"os.path.islink({ast.unparse(c.args[0])})"),
               min_sites=1, what="os.unlink call", describe_required="the removed cache path is a symlink")
    fn = ctx.repo.func(fref)
    un = [c for c in calls_in(fn.node) if dotted(c.func) in ("os.unlink", "os.remove")]
    oku = all(ast.unparse(c.args[0]) == "cache_path" for c in un)
    ctx.record(rule + "p", "PROV", fref, "download_link never removes anything on the pool side", oku, {},
               "" if oku else "download_link removes a path other than the cache link")
    fref2 = f"{OPS}.upload_link"
    views2 = function_views(ctx, fref2, None)
    guard_rule(ctx, rule + "v", fref2, views2, is_call_named("upload_local"),
               lambda v, i, c: norm.neg(expr_formula(v, i, "os.path.islink(cache_path)")),
               min_sites=1, missing_is_violation=True, what="upload_local delegation",
               describe_required="the cache path is not a symlink (ValueError otherwise)")
    # "skips the copy when both already match" holds for the link flavour too: a cache link that already points at the pool file is a
    # finished upload (a chain upload walks over such ancestors), only a link to something else is refused
    n_r, bad_r = 0, None
    for v in views2:
        if v.path.exit == "raise":
            n_r += 1
            prem = v.premise(len(v.steps), 0)
            if not norm.implies(prem, norm.neg(expr_formula(v, len(v.steps), "TransferOps.compare_link(cache_path, pool_path, params)"))):
                bad_r = v
    ctx.record(rule + "k", "GUARD", fref2, "upload_link refuses a cache link only if it does not already point at the pool file (a matching link is skipped like any matching copy)",
               n_r >= 1 and bad_r is None, {"raising_paths": n_r},
               "" if n_r >= 1 and bad_r is None else "upload_link raises for every cache link, also one that already is the pool file: in link mode setting a state derived from a linked "
               "state uploads the new top file and then fails on the first linked ancestor of the chain")
    # a plain download must not write THROUGH a cache link left by an earlier link-mode use (into another pool's file, without its lock)
    fref3 = f"{OPS}.download_local"
    views3 = function_views(ctx, fref3, names_interesting({"copy", "islink", "unlink", "compare_local", "image_lock"}, extra=lambda n: isinstance(n, (ast.Raise, ast.Return))))
    n_c, bad_c = 0, None
    for v in views3:
        for i, c in v.calls(lambda c: dotted(c.func) == "shutil.copy"):
            n_c += 1
            unl = [j for j, c2 in v.calls(lambda c2: dotted(c2.func) in ("os.unlink", "os.remove") and ast.unparse(c2.args[0]) == "cache_path") if j < i]
            prem = v.premise(i, 0)
            if not unl and not norm.implies(prem, norm.neg(expr_formula(v, i, "os.path.islink(cache_path)"))):
                bad_c = v
    ctx.record(rule + "d", "GUARD", fref3, "download_local copies onto the cache path only when it is not a link (a link is removed first)", n_c >= 1 and bad_c is None, {"copy_sites": n_c},
               "" if n_c >= 1 and bad_c is None else "shutil.copy follows a cache symlink left by an earlier link-mode use: the download overwrites the file of the pool the link points to "
               "(without that pool's lock) and the cache stays a link")


def lock_typestate(ctx: Ctx, rule: str) -> None:
    fref = f"{POOL}:image_lock"
    fn = ctx.repo.func(fref)
    ctx.require_locals(fref, ["lockfile"])
    ctx.touch(fref)
    ok_cm = any("contextmanager" in d for d in fn.decorators)
    ctx.record(rule, "TYPE", fref, "image_lock is a contextlib.contextmanager generator", ok_cm, {}, "" if ok_cm else "image_lock is no longer a context manager")
    withs = [w for w in ast.walk(fn.node) if isinstance(w, ast.With) and isinstance(w.items[0].context_expr, ast.Call)
             and call_name(w.items[0].context_expr) == "open"]
    # POSIX record locks belong to the process and die with ANY close of the file: the lock file is opened once
    opens = [c for c in calls_in(fn.node) if (isinstance(c.func, ast.Name) and c.func.id == "open") or dotted(c.func) in ("os.open", "io.open")]
    ctx.record(rule + "c", "COUNT", fref, "image_lock opens a file exactly once (closing any other descriptor of the lock file would release the fcntl lock of the process)",
               len(opens) == 1, {"opens": [ast.unparse(c) for c in opens]},
               "" if len(opens) == 1 else f"the lock file is opened {len(opens)} times: closing the extra descriptor releases the POSIX lock while the critical section is still running")
    withs = [w for w in withs if any(isinstance(x, ast.For) for x in w.body)] or withs
    ok_open = len(withs) == 1 and isinstance(withs[0].items[0].optional_vars, ast.Name)
    if not ok_open:
        ctx.record(rule + "o", "PAIR", fref, "descriptor from `with open(lockfile, ...) as fd`", False, {}, "the lock file descriptor is no longer scoped by `with open`")
        return
    w = withs[0]
    fd = w.items[0].optional_vars.id
    lockfile = ast.unparse(w.items[0].context_expr.args[0])
    named = {}
    for a_ in ast.walk(fn.node):
        if isinstance(a_, ast.Assign) and len(a_.targets) == 1 and isinstance(a_.targets[0], ast.Name):
            named.setdefault(a_.targets[0].id, []).append(a_.value)

    def flag_text(arg: ast.AST) -> str:
        """The lock operation argument; a local naming a constant expression (nonblocking_exclusive = LOCK_EX | LOCK_NB) is that expression."""
        if isinstance(arg, ast.Name) and len(named.get(arg.id, [])) == 1 and not any(isinstance(x, ast.Call) for x in ast.walk(named[arg.id][0])):
            return ast.unparse(named[arg.id][0])
        return ast.unparse(arg)

    defs = [s for s in fn.node.body if isinstance(s, ast.Assign) and ast.unparse(s.targets[0]) == lockfile]
    ok_name = len(defs) == 1 and ast.unparse(defs[0].value) == f"{fn.params()[0]} + '.lock'"
    ctx.record(rule + "o", "PAIR", fref, "descriptor from `with open(<resource>.lock, 'wb') as fd` (closed on every exit, lock dies with the process)", ok_name,
               {"lockfile": [first_line(d) for d in defs]}, "" if ok_name else "the lock file is no longer derived from the locked resource path")
    loops = [l for l in w.body if isinstance(l, ast.For)]
    ok_loop = len(loops) == 1 and isinstance(loops[0].iter, ast.Call) and call_name(loops[0].iter) == "range" and \
        ast.unparse(loops[0].iter.args[0]) == fn.params()[1]
    ctx.record(rule + "b", "COUNT", fref, "acquisition loop is `for _ in range(timeout)`", ok_loop, {}, "" if ok_loop else "the lock wait is no longer bounded by the timeout")
    if not ok_loop:
        return
    loop = loops[0]
    tries = [t for t in loop.body if isinstance(t, ast.Try)]
    ok_try = len(tries) == 1
    if ok_try:
        t = tries[0]
        lock_calls = [c for c in calls_in(ast.Module(body=t.body, type_ignores=[])) if dotted(c.func) == "fcntl.lockf"]
        flags = flag_text(lock_calls[0].args[1]) if lock_calls and len(lock_calls[0].args) > 1 else ""
        ok_try = (len(lock_calls) == 1 and ast.unparse(lock_calls[0].args[0]) == fd and "fcntl.LOCK_EX" in flags and "fcntl.LOCK_NB" in flags
                  and len(t.body) == 1)
        # success leaves the loop (a flag may be set on the way; nothing is called)
        ok_else = bool(t.orelse) and isinstance(t.orelse[-1], ast.Break) and not calls_in(ast.Module(body=t.orelse, type_ignores=[]))
        handlers_ok = len(t.handlers) >= 1
        for h in t.handlers:
            hn = ast.unparse(h.type) if h.type else ""
            raises = [r for r in ast.walk(h) if isinstance(r, ast.Raise) and r.exc is None]
            guards = [i for i in h.body if isinstance(i, ast.If)]
            ok_h = hn in ("IOError", "OSError", "BlockingIOError", "(IOError, OSError)") and len(raises) == 1 and len(guards) == 1
            if ok_h:
                f = norm.formula(guards[0].test)
                want = norm.conj([("not", ("atom", f"{h.name}.errno == errno.EACCES")), ("not", ("atom", f"{h.name}.errno == errno.EAGAIN"))])
                ok_h = norm.equivalent(f, want) and any(r is x for r in raises for x in ast.walk(guards[0]))
            # the handler must not leave the loop
            if any(isinstance(x, (ast.Break, ast.Return)) for x in ast.walk(h)):
                ok_h = False
            handlers_ok = handlers_ok and ok_h
        ctx.record(rule + "t", "TYPE", fref, "try: fcntl.lockf(fd, LOCK_EX | LOCK_NB) / except IOError: re-raise unless EACCES/EAGAIN / else: break",
                   ok_try and ok_else and handlers_ok, {"flags": flags},
                   "" if ok_try and ok_else and handlers_ok else "the loop can be left (critical section entered) without a successful exclusive lockf")
    else:
        ctx.record(rule + "t", "TYPE", fref, "try: lockf / except / else: break", False, {}, "acquisition try statement not found")
    other_breaks = [b for b in ast.walk(loop) if isinstance(b, ast.Break) and not (tries and any(b is x for x in ast.walk(ast.Module(body=tries[0].orelse, type_ignores=[]))))]
    sleeps = [c for c in calls_in(loop) if dotted(c.func) == "time.sleep"]
    ok_sl = len(sleeps) == 1 and not other_breaks
    ctx.record(rule + "s", "COUNT", fref, "one time.sleep per failed attempt; the only break is the success break", ok_sl, {},
               "" if ok_sl else "the acquisition loop has another exit or no longer waits between attempts")
    # typestate over every path of the function: the locked `yield` is reached only with the lock held
    skip_if = [i_ for i_ in fn.node.body if isinstance(i_, ast.If) and ast.unparse(i_.test) == "SKIP_LOCKS"]
    bypass = {id(x) for i_ in skip_if for x in ast.walk(i_)}

    def is_lock(c, how):
        return isinstance(c, ast.Call) and dotted(c.func) == "fcntl.lockf" and len(c.args) == 2 and ast.unparse(c.args[0]) == fd and (
            ("fcntl.LOCK_EX" in flag_text(c.args[1]) and "fcntl.LOCK_NB" in flag_text(c.args[1])) if how == "ex" else flag_text(c.args[1]) == "fcntl.LOCK_UN")

    views = function_views(ctx, fref, None)
    n_locked, bad_path, no_unlock = 0, None, None
    for v in views:
        held = False
        for k, st in enumerate(v.steps):
            node = st.node
            if st.kind == "stmt" and isinstance(node, ast.Expr) and is_lock(node.value, "ex"):
                held = True
            elif st.kind == "excin" and any(is_lock(c, "ex") for c in calls_in(node)):
                held = False
            elif st.kind == "stmt" and isinstance(node, ast.Expr) and is_lock(node.value, "un"):
                held = False
            elif st.kind == "stmt" and isinstance(node, ast.Expr) and isinstance(node.value, ast.Yield) and id(node) not in bypass:
                n_locked += 1
                if not held and bad_path is None:
                    bad_path = v
                # the normal continuation releases the lock
                if not any(s2.kind == "stmt" and isinstance(s2.node, ast.Expr) and is_lock(s2.node.value, "un") for s2 in v.steps[k + 1:]) and no_unlock is None:
                    no_unlock = v
    ok_t2 = n_locked >= 1 and bad_path is None
    ctx.record(rule + "e", "TYPE", fref, "every path that reaches the locked yield has a successful exclusive lockf before it (exhausting the timeout never proceeds unlocked)", ok_t2,
               {"paths_to_yield": n_locked, **({"path": bad_path.path.describe()[-12:]} if bad_path else {})},
               "" if ok_t2 else "after the timeout the critical section is entered without the lock" if n_locked else "no path reaches the locked yield")
    ytries = [t_ for t_ in ast.walk(w) if isinstance(t_, ast.Try) and any(isinstance(x, ast.Yield) for b_ in t_.body for x in ast.walk(b_))]
    ok_y = len(ytries) == 1 and not ytries[0].handlers and bool(ytries[0].finalbody)
    ok_f = False
    if ok_y:
        fin = ytries[0].finalbody
        un = [c for c in calls_in(ast.Module(body=fin, type_ignores=[])) if is_lock(c, "un")]
        ok_f = len(un) == 1
        # the lock file must not be removed on release (a waiter holding the old inode would lock a different file)
        removed = [c for c in calls_in(ast.Module(body=fin, type_ignores=[])) if dotted(c.func) in FILE_MUTATORS]
        ok_f = ok_f and not removed and no_unlock is None
    ctx.record(rule + "y", "PAIR", fref, "the locked yield sits in try/finally: fcntl.lockf(fd, LOCK_UN) on every exit, the lock file is not touched on release", ok_y and ok_f, {},
               "" if ok_y and ok_f else "the critical section is not bracketed by acquisition and a finally-unlock (or the lock file is touched on release)")
    yields = [y for y in ast.walk(fn.node) if isinstance(y, (ast.Yield, ast.YieldFrom))]
    skip = [i for i in fn.node.body if isinstance(i, ast.If) and ast.unparse(i.test) == "SKIP_LOCKS"]
    ok_yc = len(yields) == 2 and len(skip) == 1 and any(isinstance(x, ast.Yield) for x in ast.walk(skip[0])) \
        and any(isinstance(x, ast.Return) for x in skip[0].body)
    ctx.record(rule + "k", "COUNT", fref, "exactly two yields: the locked one and the SKIP_LOCKS bypass (followed by return)", ok_yc, {"yields": len(yields)},
               "" if ok_yc else "image_lock yields somewhere else than in the locked section / the SKIP_LOCKS bypass")
    muts = [c for c in calls_in(fn.node) if dotted(c.func) in FILE_MUTATORS]
    ctx.record(rule + "r", "OWNER", fref, "image_lock never removes or renames the lock file", not muts, {},
               "" if not muts else f"image_lock mutates files: {ast.unparse(muts[0])} (removing a lock file lets a late arrival lock a fresh inode)")


def skip_locks(ctx: Ctx, rule: str) -> None:
    tree = ctx.repo.module(POOL)
    defs = [s for s in tree.body if isinstance(s, ast.Assign) and ast.unparse(s.targets[0]) == "SKIP_LOCKS"]
    ok = len(defs) == 1 and isinstance(defs[0].value, ast.Constant) and defs[0].value.value is False
    stores = []
    for rel, t in ctx.repo.trees.items():
        for n in ast.walk(t):
            if isinstance(n, (ast.Assign, ast.AugAssign)):
                tg = n.targets if isinstance(n, ast.Assign) else [n.target]
                for x in tg:
                    if (isinstance(x, ast.Name) and x.id == "SKIP_LOCKS") or (isinstance(x, ast.Attribute) and x.attr == "SKIP_LOCKS"):
                        if not (rel == POOL and n is defs[0] if defs else False):
                            stores.append((rel, n))
            if isinstance(n, ast.Global) and "SKIP_LOCKS" in n.names:
                stores.append((rel, n))
    ctx.record(rule, "CONST", POOL, "SKIP_LOCKS = False at module level, never assigned elsewhere in the package", ok and not stores, {},
               "" if ok and not stores else "locking can be switched off inside the package")


def no_nested_lock(ctx: Ctx, rule: str) -> None:
    """fcntl record locks are per process and per file: a nested image_lock on the way out closes its descriptor and thereby
    drops the OUTER lock too.  So nothing called from inside a locked section may (transitively) acquire image_lock."""
    funcs = {f.ref: f for f in ctx.repo.all_functions((POOL,))}
    by_name: dict[str, list] = {}
    for f in funcs.values():
        by_name.setdefault(f.qualname.split(".")[-1], []).append(f)
    direct = {ref for ref, f in funcs.items() if _locks(f.node) and f.qualname != "image_lock"}

    def callees(node: ast.AST):
        out = set()
        for c in calls_in(node):
            recv = ast.unparse(c.func.value) if isinstance(c.func, ast.Attribute) else ""
            if recv in ("", "cls", "self", "TransferOps", "ops") or recv.endswith("Ops"):
                for g in by_name.get(call_name(c), []):
                    out.add(g.ref)
        return out

    acquiring = set(direct)
    changed = True
    while changed:
        changed = False
        for ref, f in funcs.items():
            if ref not in acquiring and callees(f.node) & acquiring:
                acquiring.add(ref)
                changed = True
    n = 0
    for ref in sorted(direct):
        f = funcs[ref]
        ctx.touch(ref)
        for w in _locks(f.node):
            n += 1
            inner = [x for st in w.body for x in _locks(st)]
            reach = sorted(set().union(*[callees(st) for st in w.body]) & acquiring) if w.body else []
            ok = not inner and not reach
            ctx.record(rule, "TYPESTATE", ref, "nothing inside the locked section acquires image_lock again (directly or through a callee)", ok,
                       {"callees_in_section": sorted(set().union(*[callees(st) for st in w.body]))},
                       "" if ok else f"nested image_lock inside the locked section of {f.qualname} via {reach or 'a nested with'}: releasing the inner lock closes the descriptor and drops the outer lock (fcntl locks are per process)")
    if n < 4:
        raise AnalysisError(f"only {n} locked sections found in {POOL}, expected at least 4")
    ctx.note(f"{rule}: functions acquiring the lock transitively: {len(acquiring)}")


def transfer_details(ctx: Ctx, rule: str) -> None:
    """The details the lock discipline rests on: the configured timeout reaches the lock, deletion removes the pool file,
    the link variants delegate with the arguments in place, a missing file hashes to '' (and only a missing one)."""
    for name in ("download_local", "upload_local", "delete_local", "download_link"):
        fref = f"{OPS}.{name}"
        fn = ctx.repo.func(fref)
        locks = _locks(fn.node)
        tdefs = [ast.unparse(s_.value) for s_ in ast.walk(fn.node) if isinstance(s_, ast.Assign) and ast.unparse(s_.targets[0]) == "update_timeout"]
        # the timeout argument of image_lock, positional or by name, through the local or inline
        targ = None
        if len(locks) == 1:
            ce = locks[0].items[0].context_expr
            targ = ce.args[1] if len(ce.args) == 2 else next((k.value for k in ce.keywords if k.arg == "timeout"), None)
        ttext = ast.unparse(targ) if targ is not None else None
        ok = len(locks) == 1 and ((ttext == "update_timeout" and tdefs == ["params.get_numeric('update_pool_timeout', 300)"]) or ttext == "params.get_numeric('update_pool_timeout', 300)")
        ctx.record(rule + "t", "PROV", fref, "the lock wait is the configured update_pool_timeout (default 300 s)", ok, {"update_timeout": tdefs},
                   "" if ok else f"{name} waits for the lock with something else than update_pool_timeout (default 300)")
    fn = ctx.repo.func(f"{OPS}.delete_local")
    locks = _locks(fn.node)
    muts = [c for c in calls_in(fn.node) if dotted(c.func) in FILE_MUTATORS]
    ok = len(locks) == 1 and len(muts) == 1 and dotted(muts[0].func) in ("os.unlink", "os.remove") and [ast.unparse(a) for a in muts[0].args] == ["pool_path"] and _inside(muts[0], locks[0]) \
        and len(locks[0].body) == 1
    ctx.record(rule + "x", "PAIR", fn.ref, "delete_local: under the lock, exactly os.unlink(pool_path)", ok, {"mutations": [ast.unparse(c) for c in muts]},
               "" if ok else "delete_local no longer removes exactly the pool file under its lock")
    for name, target, want in (("upload_link", "upload_local", ["cache_path", "pool_path", "params"]), ("delete_link", "delete_local", ["pool_path", "params"])):
        fn = ctx.repo.func(f"{OPS}.{name}")
        cs = [c for c in calls_in(fn.node) if call_name(c) == target]
        ok = len(cs) == 1 and [ast.unparse(a) for a in cs[0].args] == want and not cs[0].keywords and ast.unparse(cs[0].func.value) in ("TransferOps", "cls")
        ctx.record(rule + "g", "PROV", fn.ref, f"{name} delegates as {target}({', '.join(want)})", ok, {"calls": [ast.unparse(c) for c in cs]},
                   "" if ok else f"{name} hands other arguments to {target} (direction or target swapped)")
    # missing-file marker: hash under `if os.path.exists(<that path>)`, '' in its else
    for name, pairs in (("compare_local", (("local_hash", "cache_path"), ("remote_hash", "pool_path"))), ("compare_remote", (("local_hash", "cache_path"),))):
        fn = ctx.repo.func(f"{OPS}.{name}")
        for var, path in pairs:
            # normal form: var = <hash_file(...)> if os.path.exists(<path>) else ''
            asg = [s_ for s_ in fn.node.body if isinstance(s_, ast.Assign) and ast.unparse(s_.targets[0]) == var]
            ok = len(asg) == 1 and isinstance(asg[0].value, ast.IfExp)
            if ok:
                ie = asg[0].value
                fml = norm.formula(ie.test)
                ex = norm.formula(ast.parse(f"os.path.exists({path})", mode="eval").body)
                a_, b_ = (ie.body, ie.orelse) if norm.equivalent(fml, ex) else ((ie.orelse, ie.body) if norm.equivalent(fml, norm.neg(ex)) else (None, None))
                ok = a_ is not None and isinstance(a_, ast.Call) and call_name(a_) == "hash_file" and isinstance(b_, ast.Constant) and b_.value == ""
            ctx.record(rule + "e", "TABLE", fn.ref, f"{var}: hash of {path} if it exists, else the missing-file marker ''", ok, {},
                       "" if ok else f"{name}: {var} is no longer 'hash if the file exists else \'\'' (a missing file can compare equal to a present one, or an existing one is not read)")


def remote_missing(ctx: Ctx, rule: str) -> None:
    """compare_local maps a missing file to the empty hash (so that 'missing' never equals 'present'); compare_remote must do the same for
    the remote side, or every upload of a state that is new on the remote side fails in the comparison that precedes it."""
    fref = f"{OPS}.compare_remote"
    fn = ctx.repo.func(fref)
    ctx.touch(fref)
    views = function_views(ctx, fref, names_interesting({"hash_file", "cmd_status_output", "cmd_status", "exists"}))
    n, bad = 0, None
    for v in views:
        for i, c in v.calls(lambda c: call_name(c) == "hash_file" and ast.unparse(c.func.value) == "ops"):
            n += 1
            prem = v.premise(i, 0)
            guarded = any(("status" in a or "test -e" in a or ("exists" in a and "cache_path" not in a)) for a in norm.atoms_of(prem))
            in_try = any(isinstance(t, ast.Try) and any(c is x for b_ in t.body for x in ast.walk(b_)) for t in ast.walk(fn.node))
            if not guarded and not in_try:
                bad = v
    ctx.record(rule, "GUARD", fref, "the remote file is hashed only if it exists; a missing remote file compares as the empty hash (as compare_local does for the local side)",
               n >= 1 and bad is None, {"hash_sites": n},
               "" if n >= 1 and bad is None else "compare_remote hashes the remote path unconditionally: for a missing file the remote pipeline prints an error, hash_file raises "
               "'unexpected characters', and upload_remote (which compares first) can never upload a state that is new on the remote side")


def missing_pool_download(ctx: Ctx, rule: str) -> None:
    """A download whose pool file is missing must not end as 'already available': compare_local maps a missing file to the same
    empty hash on both sides, so with cache and pool file both absent the comparison says 'match'; the skip of download_local is
    then a silent success that leaves no file (an incomplete backing chain is 'downloaded')."""
    fref = f"{OPS}.compare_local"
    fn = ctx.repo.func(fref)
    ctx.touch(fref)
    params = fn.params()
    # the values the two sides take when their file is missing
    missing = {}
    for v in function_views(ctx, fref, None):
        if v.path.exit != "return" or v.path.exit_node.value is None:
            continue
        val = v.canon(copy.deepcopy(v.path.exit_node.value), len(v.steps))
        conds = norm.conj([v.cond_formula(i) for i, st in enumerate(v.steps) if st.kind == "cond"])
        for side, prm in (("cache", params[0]), ("pool", params[1])):
            if norm.implies(conds, ("not", ("atom", f"os.path.exists({prm})"))):
                missing.setdefault(side, []).append(ast.unparse(val))
    both_equal = False
    for v in function_views(ctx, fref, None):
        if v.path.exit != "return" or v.path.exit_node.value is None:
            continue
        conds = norm.conj([v.cond_formula(i) for i, st in enumerate(v.steps) if st.kind == "cond"])
        if norm.implies(conds, ("not", ("atom", f"os.path.exists({params[0]})"))) and norm.implies(conds, ("not", ("atom", f"os.path.exists({params[1]})"))):
            val = v.canon(copy.deepcopy(v.path.exit_node.value), len(v.steps))
            if isinstance(val, ast.Compare) and len(val.ops) == 1 and isinstance(val.ops[0], ast.Eq) and ast.dump(val.left) == ast.dump(val.comparators[0]):
                both_equal = True
            elif isinstance(val, ast.Constant) and val.value is True:
                both_equal = True
    dref = f"{OPS}.download_local"
    dfn = ctx.repo.func(dref)
    ctx.touch(dref)
    dparams = dfn.params()
    n_skip, bad = 0, None
    views = function_views(ctx, dref, None)
    for v in views:
        if v.path.exit == "return" and any(call_name(c) == "compare_local" for _, c in v.calls(lambda c: True)) and not any(call_name(c) == "copy" for _, c in v.calls(lambda c: True)):
            n_skip += 1
            prem = v.premise(len(v.steps), 0)
            if both_equal and not norm.implies(prem, ("atom", f"os.path.exists({dparams[1]})")):
                bad = v
    if n_skip == 0:
        raise AnalysisError(f"{dref}: no 'already available' skip path found")
    ctx.record(rule, "GUARD", dref, "the 'already available' skip of a download is not reachable with the pool file missing (compare_local answers 'equal' when both files are absent)",
               bad is None, {"skip_paths": n_skip, "both_missing_compare_equal": both_equal},
               "" if bad is None else "download_local reports a missing pool file as already available when the cache file is missing too (both map to the empty hash): "
               "transfer_chain 'downloads' a chain whose backing file exists nowhere")


def whole_file_compare(ctx: Ctx, rule: str) -> None:
    """'Skips the copy when both already match' and 'destination byte-identical' need a comparison of the complete files."""
    n = 0
    for name in ("compare_local", "compare_remote"):
        fref = f"{OPS}.{name}"
        fn = ctx.repo.func(fref)
        ctx.touch(fref)
        # constants named as locals are substituted: the finding is keyed by the value, not by the spelling
        from ..canon import inline_locals

        fnode = inline_locals(fn.node)
        for c in sorted((c for c in calls_in(fnode) if call_name(c) == "hash_file"), key=lambda c: c.lineno):
            n += 1
            # avocado's crypto.hash_file(filename, size=None, algorithm) / aexpect ops.hash_file(session, filename, size='', method)
            remote = ast.unparse(c.func.value) == "ops"
            pos = 2 if remote else 1
            size = c.args[pos] if len(c.args) > pos else next((k.value for k in c.keywords if k.arg == "size"), None)
            unlimited = size is None or (isinstance(size, ast.Constant) and size.value in (None, "", 0))
            ctx.record(rule, "PROV", fref, ast.unparse(c), unlimited, {"size_argument": ast.unparse(size) if size is not None else None},
                       "" if unlimited else f"{name} compares only the first {ast.unparse(size)} bytes: files that differ later count as matching, the copy is skipped and the destination is not byte-identical")
    if n < 4:
        raise AnalysisError(f"only {n} hash_file call sites found in the comparisons, expected 4")


def run(ctx: Ctx) -> None:
    from .c13 import fresh_checksums

    ctx.call(whole_file_compare, "2h")
    ctx.call(remote_missing, "8m")
    ctx.call(missing_pool_download, "8d")
    ctx.call(transfer_details, "8")

    ctx.call(fresh_checksums, "2f")
    ctx.call(no_nested_lock, "7")
    ctx.call(lock_discipline, "1")
    ctx.call(compare_then_copy, "2")
    ctx.call(link_mode, "4")
    ctx.call(lock_typestate, "5")
    ctx.call(skip_locks, "6")
    from ..kinds import signature_defaults

    ctx.call(signature_defaults, "6d", {"states/pool.py:image_lock": {"timeout": "300"}}, "bounded lock wait")


MUTANTS = [
    ('missing-pool-file-already-available', 'states/pool.py', '            if not os.path.exists(pool_path):\n                raise FileNotFoundError(f"Cannot download a missing {pool_path}")\n', '', '8d'),
    ("link-upload-raises-before-compare", POOL, "            if TransferOps.compare_link(cache_path, pool_path, params):\n                logging.info(f\"Skip upload of an already linked {cache_path}\")\n                return\n", "", "4k"),
    ("download-writes-through-link", POOL, "            if os.path.islink(cache_path):\n                os.unlink(cache_path)\n            shutil.copy(pool_path, cache_path)", "            shutil.copy(pool_path, cache_path)", "4d"),
    ("remote-compare-hashes-missing", POOL, "        if status == 0:\n            remote_hash = ops.hash_file(session, path, \"1M\", \"md5\")\n        else:\n            remote_hash = \"\"\n", "        remote_hash = ops.hash_file(session, path, \"1M\", \"md5\")\n", "8m"),
    ("upload-unlinks-first", POOL, "            os.makedirs(os.path.dirname(pool_path), exist_ok=True)\n            shutil.copy(cache_path, pool_path)", "            os.makedirs(os.path.dirname(pool_path), exist_ok=True)\n            if os.path.lexists(pool_path):\n                os.unlink(pool_path)\n            shutil.copy(cache_path, pool_path)", "2w"),
    ("lock-owner-trace", POOL, "        try:\n            yield fd\n        finally:\n            fcntl.lockf(fd, fcntl.LOCK_UN)", "        with open(lockfile, \"w\") as trace:\n            trace.write(\"owner\")\n        try:\n            yield fd\n        finally:\n            fcntl.lockf(fd, fcntl.LOCK_UN)", "5c"),
    ("P-lock-flag-instead-of-for-else", POOL, '        for _ in range(timeout):\n            try:\n                fcntl.lockf(fd, fcntl.LOCK_EX | fcntl.LOCK_NB)\n            except IOError as error:\n                # block here but still support a finite timeout\n                if error.errno != errno.EACCES and error.errno != errno.EAGAIN:\n                    raise\n            else:\n                break\n            logging.debug("Waiting for image to become available")\n            time.sleep(1)\n        else:\n', '        lock_acquired = False\n        for _ in range(timeout):\n            try:\n                fcntl.lockf(fd, fcntl.LOCK_EX | fcntl.LOCK_NB)\n            except IOError as error:\n                # block here but still support a finite timeout\n                if error.errno != errno.EACCES and error.errno != errno.EAGAIN:\n                    raise\n            else:\n                lock_acquired = True\n                break\n            logging.debug("Waiting for image to become available")\n            time.sleep(1)\n        if not lock_acquired:\n', None),
    ("lock-timeout-other-key", POOL, "        update_timeout = params.get_numeric(\"update_pool_timeout\", 300)\n        with image_lock(pool_path, update_timeout) as lock:\n            os.unlink(pool_path)",
     "        update_timeout = params.get_numeric(\"pool_timeout\", 300)\n        with image_lock(pool_path, update_timeout) as lock:\n            os.unlink(pool_path)", "8t"),
    ("upload-link-swapped", POOL, "            TransferOps.upload_local(cache_path, pool_path, params)", "            TransferOps.upload_local(pool_path, cache_path, params)", "8g"),
    ("missing-file-marker-inverted", POOL, "        if os.path.exists(pool_path):\n            remote_hash = crypto.hash_file(pool_path, 1048576, \"md5\")", "        if not os.path.exists(pool_path):\n            remote_hash = crypto.hash_file(pool_path, 1048576, \"md5\")", "8e"),
    ("compare-first-4k-only", POOL, "            local_hash = crypto.hash_file(cache_path, 1048576, \"md5\")\n        else:\n            local_hash = \"\"\n        if os.path.exists(pool_path):",
     "            local_hash = crypto.hash_file(cache_path, 4096, \"md5\")\n        else:\n            local_hash = \"\"\n        if os.path.exists(pool_path):", "2h"),
    ("copy-outside-lock", POOL, "                os.unlink(cache_path)\n            shutil.copy(pool_path, cache_path)", "                os.unlink(cache_path)\n        shutil.copy(pool_path, cache_path)", "1m"),
    ("lock-cache-path", POOL, "        with image_lock(pool_path, update_timeout) as lock:\n            if TransferOps.compare_local(cache_path, pool_path, params):\n                logging.info(f\"Skip upload",
     "        with image_lock(cache_path, update_timeout) as lock:\n            if TransferOps.compare_local(cache_path, pool_path, params):\n                logging.info(f\"Skip upload", "1"),
    ("copy-before-compare", POOL, "            if TransferOps.compare_local(cache_path, pool_path, params):\n                logging.info(f\"Skip download of an already available {cache_path}\")\n                return\n            # a link from an earlier link mode use must not be written through\n            if os.path.islink(cache_path):\n                os.unlink(cache_path)\n            shutil.copy(pool_path, cache_path)",
     "            if os.path.islink(cache_path):\n                os.unlink(cache_path)\n            shutil.copy(pool_path, cache_path)\n            if TransferOps.compare_local(cache_path, pool_path, params):\n                logging.info(f\"Skip download of an already available {cache_path}\")\n                return", "2"),
    ("no-finally", POOL, "        try:\n            yield fd\n        finally:\n            fcntl.lockf(fd, fcntl.LOCK_UN)", "        yield fd\n        fcntl.lockf(fd, fcntl.LOCK_UN)", "5y"),
    ("exhaustion-passes", POOL, "            raise RuntimeError(\n                f\"Waiting to acquire {lockfile} took more than \"\n                f\"the allowed {timeout} seconds\"\n            )",
     "            logging.warning(f\"Waiting to acquire {lockfile} took too long\")", "5e"),
    ("lockfile-removed-on-release", POOL, "        finally:\n            fcntl.lockf(fd, fcntl.LOCK_UN)", "        finally:\n            os.unlink(lockfile)\n            fcntl.lockf(fd, fcntl.LOCK_UN)", "5y"),
    ("link-guard-narrowed", POOL, "                return\n            raise ValueError(\"Cannot upload a symlink to its destination\")\n        else:\n            TransferOps.upload_local(cache_path, pool_path, params)",
     "                return\n            if os.path.realpath(cache_path) == pool_path:\n                raise ValueError(\"Cannot upload a symlink to its destination\")\n        TransferOps.upload_local(cache_path, pool_path, params)", "4v"),
    ("data-replaced-by-link", POOL, "            if not os.path.islink(cache_path) and os.path.exists(cache_path):\n                raise RuntimeError(", "            if not os.path.islink(cache_path) and not os.path.exists(cache_path):\n                raise RuntimeError(", "4"),
    ("upload-direction", POOL, "            shutil.copy(cache_path, pool_path)", "            shutil.copy(pool_path, cache_path)", "2d"),
    ("shared-lock", POOL, "fcntl.lockf(fd, fcntl.LOCK_EX | fcntl.LOCK_NB)", "fcntl.lockf(fd, fcntl.LOCK_SH | fcntl.LOCK_NB)", "5t"),
    ("nested-lock-in-compare", POOL, "            remote_hash = crypto.hash_file(pool_path, 1048576, \"md5\")", "            with image_lock(pool_path, 300) as lock:\n                remote_hash = crypto.hash_file(pool_path, 1048576, \"md5\")", "7"),
    ("shallow-compare", POOL, "        return local_hash == remote_hash\n\n    @staticmethod\n    def download_local", "        return os.path.getsize(cache_path) == os.path.getsize(pool_path)\n\n    @staticmethod\n    def download_local", "2f"),
    ("skip-locks-on", POOL, "SKIP_LOCKS = False", "SKIP_LOCKS = True", "6"),
    ("swallow-all-errors", POOL, "                if error.errno != errno.EACCES and error.errno != errno.EAGAIN:\n                    raise", "                if error.errno != errno.EACCES and error.errno != errno.EAGAIN:\n                    break", "5t"),
    ("P-with-as-unused", POOL, "        with image_lock(pool_path, update_timeout) as lock:\n            os.unlink(pool_path)", "        with image_lock(pool_path, update_timeout):\n            os.unlink(pool_path)", None),
]
