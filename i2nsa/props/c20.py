"""C20 — manual steps act once per selected vm and worker, in the given order."""

from __future__ import annotations

import ast

from .. import norm
from ..ctx import Ctx
from ..facts import PathView, is_call_named
from ..kinds import function_views, loop_iteration_views, names_interesting, the_loop
from ..paths import PathEnum, first_line
from ..repo import AnalysisError, call_name, calls_in

IS = "intertest_setup.py"
MANU = "plugins/manu.py:Manu.run"
ITER = f"{IS}:_parse_and_iterate_for_objects_and_workers"
ONE = f"{IS}:_parse_one_node_for_all_objects_per_worker"
RUN_FLAG = "lambda self, slot: not self.is_shared_root() and slot not in self.shared_finished_workers"

EXPLANATION = (
    "Executions observed at run time are not decided. Decided is the shape that makes 'once per selected vm and worker, in "
    "order, failure reported without stopping the chain' hold: the chain loop iterates the configured steps directly, has no "
    "early exit, calls each step once, both failure paths only ever raise the return code to 1, the per-vm template parses "
    "exactly one node per (worker, selected vm) with the step's parameters applied over the command line ones and the vm "
    "pinned, an incompatible worker is skipped (not terminating the loop), the run flag is 'not yet finished by this worker' "
    "for every node but the root, and the tool table is closed."
)
DECIDED = [
    "C20.1 chain loop: order of the configured steps, no early exit, one call per step, failure only ever sets the code to 1, code returned",
    "C20.2 per (worker, selected vm) exactly one node is parsed with cmdline dict < step dict < vms=<that vm>; empty parse is skipped",
    "C20.3 per worker exactly one node for the vm-management steps; none -> skipped (loop continues); several -> RuntimeError",
    "C20.4 run flag = not shared root and not yet finished by this worker, installed over the whole graph",
    "C20.5 step table: every published step is defined; state tools pass their own operation; create/collect/clean restore the parameters",
    "C20.6 the tools' exit code is the verdict of the runner",
    "C20.8 an exception that ends a worker's traversal is not swallowed in run_workers",
    "C20.9 no manual step writes into config['param_dict'] (the parameters shared by the steps of a chain) or an alias of it",
    'C20.7z a job result entry is rewritten to an acceptable status only where the status read is acceptable already',
    'C20.1u the lookup of a step by its name is contained like the step itself (an unknown step fails the chain without ending it)',
    "C20.5n command line arguments are read from config['param_dict'] with a default (all are optional)",
]
NOT_DECIDED = ["executions actually observed at run time"]
MIN_INSTANCES = 12


def chain_loop(ctx: Ctx, rule: str) -> None:
    fn = ctx.repo.func(MANU)
    ctx.require_locals(MANU, ["retcode", "setup_chain", "setup_func", "run_params"])
    loop = the_loop(ctx, MANU, ast.For, lambda l: any(call_name(c) == "getattr" for c in calls_in(l)), "setup chain loop")
    chain_defs = [s for s in fn.node.body if isinstance(s, ast.Assign) and ast.unparse(s.targets[0]) == "setup_chain"]
    # the chain is the value of `setup` split into words, as given: virttest's Params.objects() de-duplicates (documented use: several
    # `run` steps in one chain), so it must not be what builds the chain; neither may anything that sorts, reverses or collects into a set
    chain_text = ast.unparse(chain_defs[0].value) if len(chain_defs) == 1 else ""
    calls_used = {call_name(c) for c in calls_in(chain_defs[0].value)} if len(chain_defs) == 1 else set()
    reads_setup = any(isinstance(c_, ast.Constant) and c_.value == "setup" for c_ in ast.walk(chain_defs[0].value)) if len(chain_defs) == 1 else False
    lossy = calls_used & {"objects", "set", "sorted", "reversed", "fromkeys", "unique", "frozenset"}
    ok_iter = ast.unparse(loop.iter) == "enumerate(setup_chain)" and len(chain_defs) == 1 and reads_setup and not lossy and "split" in calls_used
    ctx.record(rule, "PROV", MANU, "the loop iterates enumerate(<the words of the setup parameter as given>): no sorting, reversal or de-duplication (Params.objects() de-duplicates)", ok_iter,
               {"iter": ast.unparse(loop.iter), "chain": chain_text},
               "" if ok_iter else (f"the setup chain is built with {sorted(lossy)}: a step that is listed twice (e.g. get,boot,get) is executed once - the chain is not executed as given"
                                   if lossy else "the setup chain is not executed in the given order"))
    esc = [n for n in ast.walk(loop) if isinstance(n, (ast.Break, ast.Return, ast.Continue))]
    ctx.record(rule + "e", "COUNT", MANU, "the chain loop has no break/return/continue", not esc, {}, "" if not esc else "a step can prevent the later steps of the chain")
    step = loop.target.elts[1].id if isinstance(loop.target, ast.Tuple) else None
    views = loop_iteration_views(ctx, MANU, loop, None)
    problems = []
    kinds = set()
    for v in views:
        if v.path.exit == "raise":
            problems.append(("an exception of a step escapes the chain loop", v))
            continue
        lookups = [c for i, c in v.calls(lambda c: call_name(c) == "getattr")]
        calls = [c for i, c in v.calls(lambda c: call_name(c) == "setup_func")]
        excs = [s for s in v.steps if s.kind in ("excin", "except")]
        if len(lookups) != 1 or [ast.unparse(a) for a in lookups[0].args] != ["intertest", step]:
            problems.append(("the step function is not looked up once by its configured name", v))
        if len(calls) != 1 and not any(s.kind == "excin" for s in v.steps):
            problems.append((f"a step is called {len(calls)} times", v))
        stores = [s for i, s in v.stmts(lambda s: isinstance(s, (ast.Assign, ast.AugAssign)) and "retcode" in ast.unparse(s.targets[0] if isinstance(s, ast.Assign) else s.target))]
        for s in stores:
            if not (isinstance(s, ast.Assign) and isinstance(s.value, ast.Constant) and s.value.value == 1):
                problems.append((f"the chain's return code is overwritten by something other than the constant 1: {first_line(s)}", v))
        failed = any(s.kind == "except" for s in v.steps)
        conds = norm.conj([v.cond_formula(i) for i, s in enumerate(v.steps) if s.kind == "cond"])
        def accepted(a):  # the test "the step's result is None or 0", list or tuple spelling, either order
            return any(f"in {o}{x}{c}" in a for o, c in (("[", "]"), ("(", ")")) for x in ("None, 0", "0, None"))

        bad_result = any(accepted(a) for a in norm.atoms_of(conds)) and norm.implies(
            conds, ("not", ("atom", next(a for a in norm.atoms_of(conds) if accepted(a)))))
        if failed:
            kinds.add("exception")
            if not stores:
                problems.append(("a step that raised does not make the chain report failure", v))
        elif bad_result:
            kinds.add("nonzero")
            if not stores:
                problems.append(("a step returning a failure code does not make the chain report failure", v))
        else:
            kinds.add("ok")
            if stores:
                problems.append(("a successful step changes the chain's return code", v))
    ctx.record(rule + "b", "TABLE", MANU, "per step: looked up and called once; result not in [None, 0] -> retcode = 1; exception -> retcode = 1; success leaves retcode alone",
               not problems and kinds == {"exception", "nonzero", "ok"}, {"paths": len(views), "kinds": sorted(kinds),
                                                                        **({"path": problems[0][1].path.describe()} if problems else {})},
               "" if not problems and kinds == {"exception", "nonzero", "ok"} else (problems[0][0] if problems else f"only {sorted(kinds)} step outcomes are handled"))
    init = [s for s in fn.node.body if isinstance(s, ast.Assign) and ast.unparse(s.targets[0]) == "retcode"]
    rets = [r for r in fn.node.body if isinstance(r, ast.Return)]
    all_stores = [s for s in ast.walk(fn.node) if isinstance(s, ast.Assign) and ast.unparse(s.targets[0]) == "retcode"]
    ok_r = len(init) == 1 and ast.unparse(init[0].value) == "0" and fn.node.body.index(init[0]) < fn.node.body.index(loop) \
        and len(rets) == 1 and ast.unparse(rets[0].value) == "retcode" and fn.node.body.index(rets[0]) > fn.node.body.index(loop) \
        and all(ast.unparse(s.value) in ("0", "1") for s in all_stores) and sum(1 for s in all_stores if ast.unparse(s.value) == "0") == 1
    ctx.record(rule + "r", "PAIR", MANU, "retcode starts at 0 before the loop, is never reset, and is what run() returns after the loop", ok_r, {},
               "" if ok_r else "the chain's return code is reset or not returned")
    hs = [h for t in ast.walk(loop) if isinstance(t, ast.Try) for h in t.handlers]
    ok_h = len(hs) == 1 and ast.unparse(hs[0].type) == "Exception"
    ctx.record(rule + "h", "TABLE", MANU, "any Exception of a step is caught inside the loop iteration", ok_h, {}, "" if ok_h else "exceptions of a step are not contained in its iteration")


def per_vm_template(ctx: Ctx, rule: str) -> None:
    fn = ctx.repo.func(ITER)
    ctx.require_locals(ITER, ["setup_dict", "nodes", "graph", "selected_vms"])
    wl = the_loop(ctx, ITER, ast.For, lambda l: ast.unparse(l.iter) == "graph.workers.values()", "worker loop")
    inner = [l for l in wl.body if isinstance(l, ast.For)]
    if len(inner) != 1:
        raise AnalysisError(f"{ITER}: object loop not found")
    ol = inner[0]
    # the iterated collection, through a local if the code names it; the comprehension variable is free
    it = ol.iter
    if isinstance(it, ast.Name):
        ds = [s_ for s_ in ast.walk(fn.node) if isinstance(s_, ast.Assign) and len(s_.targets) == 1 and ast.unparse(s_.targets[0]) == it.id]
        it = ds[0].value if len(ds) == 1 else it
    ok_it = False
    if isinstance(it, ast.ListComp) and len(it.generators) == 1 and isinstance(it.generators[0].target, ast.Name):
        g = it.generators[0]
        v_ = g.target.id
        ok_it = ast.unparse(it.elt) == v_ and ast.unparse(g.iter) == "graph.objects" and [ast.unparse(c) for c in g.ifs] == [f"{v_}.key == 'vms'"]
    sel = [s for s in fn.node.body if isinstance(s, ast.Assign) and ast.unparse(s.targets[0]) == "selected_vms"]
    objs = [l for l in fn.node.body if isinstance(l, ast.For) and ast.unparse(l.iter) == "selected_vms"]
    ok_sel = len(sel) == 1 and ast.unparse(sel[0].value) == "sorted(config['vm_strs'].keys())" and len(objs) == 1 and \
        "graph.new_objects(TestGraph.parse_composite_objects(" in ast.unparse(objs[0]) and f"config['vm_strs'][{objs[0].target.id}]" in ast.unparse(objs[0])
    ctx.record(rule, "PROV", ITER, "objects = the vms of config['vm_strs'] (the selected ones) with their restrictions; loops: every worker x every vm object", ok_it and ok_sel, {},
               "" if ok_it and ok_sel else "the set of (worker, vm) pairs a manual step acts on changed")
    w, o = wl.target.id, ol.target.id
    views = loop_iteration_views(ctx, ITER, ol, None)
    problems = []
    for v in views:
        if v.path.exit not in ("fall", "continue"):
            problems.append((f"the per-vm loop can end early ({v.path.exit})", v))
        parses = [(i, c) for i, c in v.calls(is_call_named("parse_composite_nodes"))]
        if len(parses) != 1:
            problems.append((f"{len(parses)} nodes are parsed for one (worker, vm) pair", v))
            continue
        i, c = parses[0]
        args = [ast.unparse(a) for a in c.args] + [f"{k.arg}={ast.unparse(k.value)}" for k in c.keywords]
        if args != ["f'all..internal.stateful.{operation}'", f"{w}.net", "tag", "params=setup_dict"]:
            problems.append((f"the node is parsed with {args}", v))
        prep = [ast.unparse(s) for k, s in v.stmts() if k < i and "setup_dict" in ast.unparse(s)]
        if prep != ["setup_dict = config['param_dict'].copy()", f"setup_dict.update({fn.params()[2]})", f"setup_dict['vms'] = {o}.suffix"]:
            problems.append((f"parameters are prepared as {prep}", v))
        regs = [cc for k, cc in v.calls(is_call_named("new_nodes"))]
        empty = any(st.kind == "cond" and st.pol and ast.unparse(st.node) == "len(nodes) == 0" for st in v.steps)
        if empty and regs:
            problems.append(("nodes are registered although none was parsed", v))
        if not empty and (len(regs) != 1 or ast.unparse(regs[0].args[0]) != "nodes"):
            problems.append(("the parsed node is not registered in the graph", v))
    ctx.record(rule + "b", "COUNT", ITER, "per (worker, vm): one parse with cmdline dict, then the step's dict, then vms=<vm>; nothing parsed -> skipped; else registered",
               not problems and len(views) >= 2, {"paths": len(views), **({"path": problems[0][1].path.describe()} if problems else {})},
               "" if not problems and len(views) >= 2 else (problems[0][0] if problems else "unexpected shape"))


def per_worker_template(ctx: Ctx, rule: str) -> None:
    fn = ctx.repo.func(ONE)
    ctx.require_locals(ONE, ["setup_dict", "nodes", "graph", "selected_vms"])
    wl = the_loop(ctx, ONE, ast.For, lambda l: ast.unparse(l.iter) == "graph.workers.values()", "worker loop")
    views = loop_iteration_views(ctx, ONE, wl, None)
    problems = []
    kinds = set()
    for v in views:
        none = any(st.kind == "cond" and st.pol and ast.unparse(st.node) == "len(nodes) == 0" for st in v.steps)
        many = any(st.kind == "cond" and st.pol and ast.unparse(st.node) == "len(nodes) > 1" for st in v.steps)
        regs = [cc for k, cc in v.calls(is_call_named("new_nodes"))]
        parses = [cc for k, cc in v.calls(is_call_named("parse_composite_nodes"))]
        if len(parses) != 1:
            problems.append((f"{len(parses)} parses per worker", v))
        if none:
            kinds.add("none")
            if v.path.exit != "continue" or regs:
                problems.append((f"an incompatible worker ends the worker loop ({v.path.exit}) instead of being skipped", v))
        elif many:
            kinds.add("many")
            if v.path.exit != "raise" or PathEnum._raised_name(v.path.exit_node) != "RuntimeError":
                problems.append(("several variants for one worker are not rejected", v))
        else:
            kinds.add("one")
            if v.path.exit not in ("fall", "continue") or len(regs) != 1 or ast.unparse(regs[0].args[0]) != "nodes[0]":
                problems.append(("the single node of a worker is not registered", v))
    ctx.record(rule, "TABLE", ONE, "per worker: no node -> skip this worker only; more than one -> RuntimeError; exactly one -> registered", not problems and kinds == {"none", "many", "one"},
               {"paths": len(views), **({"path": problems[0][1].path.describe()} if problems else {})},
               "" if not problems and kinds == {"none", "many", "one"} else (problems[0][0] if problems else f"rows found: {sorted(kinds)}"))
    from ..facts import dict_writes

    sd = [ast.unparse(s.value) for s in fn.node.body if isinstance(s, ast.Assign) and ast.unparse(s.targets[0]) == "setup_dict"]
    # with a helper local for the joined vm names substituted
    from ..canon import inline_locals

    def resolved(v):
        if isinstance(v, ast.Name):
            ds = [s_ for s_ in fn.node.body if isinstance(s_, ast.Assign) and len(s_.targets) == 1 and ast.unparse(s_.targets[0]) == v.id]
            if len(ds) == 1:
                return ast.unparse(ds[0].value)
        return ast.unparse(v)

    wr = {(ast.unparse(k) if k is not None else "*"): resolved(v) for k, v, _ in dict_writes(fn.node, "setup_dict")}
    ok = sd == ["config['param_dict'].copy()"] and wr == {"'vms'": "' '.join(selected_vms)", "'main_vm'": "selected_vms[0]"}
    sd = sd + sorted(f"{k}: {v}" for k, v in wr.items())
    ctx.record(rule + "p", "PROV", ONE, "the one node per worker covers all selected vms (vms = the selected vms, main_vm = the first)", ok, {"setup_dict": sd},
               "" if ok else "the vm set of the vm-management node changed")


def run_flags(ctx: Ctx, rule: str) -> None:
    for fref in (ITER, ONE):
        fn = ctx.repo.func(fref)
        ctx.touch(fref)
        fc = [c for c in calls_in(fn.node) if call_name(c) == "flag_children"]
        ok = len(fc) == 1 and not fc[0].args and {k.arg: ast.unparse(k.value) for k in fc[0].keywords} == {"flag_type": "'run'", "flag": RUN_FLAG}
        body = [ast.unparse(s) for s in fn.node.body]
        order = [i for i, s in enumerate(body) if "parse_shared_root_from_object_roots" in s or "flag_children(" in s or "run_workers(" in s]
        ok = ok and len(order) == 3 and "parse_shared_root" in body[order[0]] and "flag_children" in body[order[1]] and "run_workers" in body[order[2]]
        ctx.record(rule, "CONST", fref, "shared root parsed, then flag_children() from the root over the whole graph with 'not shared root and not finished by this worker', then run", ok, {},
                   "" if ok else "the run policy of the manual step template changed")
    f = ctx.repo.func("cartgraph/graph.py:TestGraph.flag_children")
    src = ast.unparse(f.node)
    # the work list starts with the root (or, skipping it, with its children) and grows by the children of every flagged node
    starts = [ast.unparse(s_.value) for s_ in ast.walk(f.node) if isinstance(s_, ast.Assign) and ast.unparse(s_.targets[0]) == "flagged"]
    # the bound flag may be named once and stored in either decision
    bound = {ast.unparse(a_.targets[0]) for a_ in ast.walk(f.node) if isinstance(a_, ast.Assign) and len(a_.targets) == 1 and isinstance(a_.targets[0], ast.Name)
             and ast.unparse(a_.value) == "flag.__get__(test_node)"} | {"flag.__get__(test_node)"}
    run_store = [a_ for a_ in ast.walk(f.node) if isinstance(a_, ast.Assign) and ast.unparse(a_.targets[0]) == "test_node.should_run"]
    ok2 = len(run_store) == 1 and ast.unparse(run_store[0].value) in bound and "flagged.extend(test_node.cleanup_nodes)" in src \
        and starts == ["list(test_node.cleanup_nodes) if skip_parents else [test_node]"]
    ctx.record(rule + "f", "TABLE", f.ref, "flag_children binds the flag to each node reached through cleanup edges from the root (root included unless skipped)", ok2, {},
               "" if ok2 else "flag_children no longer reaches every descendant of the root")


STATE_TOOLS = {"check": "check", "pop": "pop", "push": "push", "get": "get", "set": "set", "unset": "unset"}
REUSE = {
    "collect": ("get", {"get_state_images": "root", "get_mode_images": "ii", "check_mode_images": "rr", "pool_scope": "swarm cluster shared"}),
    "create": ("set", {"set_state_images": "root", "set_mode_images": "af", "check_mode_images": "rr", "pool_scope": "own"}),
    "clean": ("unset", {"unset_state_images": "root", "unset_mode_images": "fa", "check_mode_images": "rf", "pool_scope": "own"}),
}


def step_table(ctx: Ctx, rule: str) -> None:
    from ..facts import dict_writes

    tree = ctx.repo.module(IS)
    alls = [s for s in tree.body if isinstance(s, ast.Assign) and ast.unparse(s.targets[0]) == "__all__"]
    if len(alls) != 1 or not isinstance(alls[0].value, ast.List):
        raise AnalysisError("__all__ of intertest_setup not found")
    names = [e.value for e in alls[0].value.elts]
    defs = {s.name for s in tree.body if isinstance(s, ast.FunctionDef)}
    missing = [n for n in names if n not in defs]
    ctx.record(rule, "TABLE", IS, f"all {len(names)} published manual steps are module-level functions", not missing and len(names) >= 21, {"missing": missing},
               "" if not missing else f"published steps without a definition: {missing}")
    bad = {}
    for name, op in STATE_TOOLS.items():
        f = ctx.repo.func(f"{IS}:{name}")
        ctx.touch(f.ref)
        ops = [s for s in f.node.body if isinstance(s, ast.Assign) and ast.unparse(s.targets[0]) == "operation"]
        calls = [c for c in calls_in(f.node) if call_name(c) == "_parse_and_iterate_for_objects_and_workers"]
        src = ast.unparse(f.node)
        va = [ast.unparse(v) for k, v, _ in dict_writes(f.node, "setup_dict") if isinstance(k, ast.Constant) and k.value == "vm_action"]
        va += [ast.unparse(v) for c in calls for a in c.args if isinstance(a, ast.Dict) for k, v in zip(a.keys, a.values) if isinstance(k, ast.Constant) and k.value == "vm_action"]
        ok = len(ops) == 1 and ast.unparse(ops[0].value) == f"'{op}'" and len(calls) == 1 and va == ["operation"] \
            and ast.unparse(calls[0].args[-1]) == "'state ' + operation" and "with_cartesian_graph" in f.decorators
        if not ok:
            bad[name] = [ast.unparse(o.value) for o in ops]
    ctx.record(rule + "s", "TABLE", IS, "check/pop/push/get/set/unset run 'state <own name>' with vm_action = their own operation, through the per-vm template", not bad, {"changed": bad},
               "" if not bad else f"a state tool performs another operation than its name says: {bad}")
    bad2 = {}
    for name, (tool, want) in REUSE.items():
        f = ctx.repo.func(f"{IS}:{name}")
        ctx.touch(f.ref)
        calls = [c for c in calls_in(f.node) if call_name(c) == "_reuse_tool_with_param_dict"]
        ok = len(calls) == 1 and len(calls[0].args) == 4 and isinstance(calls[0].args[2], ast.Dict) and ast.unparse(calls[0].args[3]) == tool
        if ok:
            got = {k.value: v.value for k, v in zip(calls[0].args[2].keys, calls[0].args[2].values) if isinstance(k, ast.Constant) and isinstance(v, ast.Constant)}
            ok = got == want
        if not ok:
            bad2[name] = ast.unparse(calls[0])[:200] if calls else None
    ctx.record(rule + "r", "TABLE", IS, "collect/create/clean = get/set/unset of the root state with the documented modes and pool scope", not bad2, {"changed": bad2},
               "" if not bad2 else f"an object-level tool changed its parameters: {sorted(bad2)}")
    f = ctx.repo.func(f"{IS}:_reuse_tool_with_param_dict")
    body = [ast.unparse(s) for s in f.node.body if not (isinstance(s, ast.Expr) and isinstance(s.value, ast.Constant))]
    # save a copy, apply, run the tool (once), restore on EVERY exit: Manu.run goes on with the chain after a raising step,
    # so a restore on the normal path only leaks the temporary parameters into the later steps
    tries = [t for t in f.node.body if isinstance(t, ast.Try)]
    pre = [ast.unparse(x) for x in f.node.body if isinstance(x, ast.Assign) or (isinstance(x, ast.Expr) and isinstance(x.value, ast.Call))]
    ok3 = False
    why3 = "parameters of create/collect/clean leak into the later steps of a chain"
    if len(tries) == 1 and not tries[0].handlers:
        t = tries[0]
        tool_calls = [c for x in t.body for c in calls_in(x) if isinstance(c.func, ast.Name) and c.func.id == "tool"]
        # whatever the saved copy is called: <saved> = config['param_dict'].copy() ... finally: config['param_dict'] = <saved>
        first = next((x for x in f.node.body if isinstance(x, ast.Assign)), None)
        saved = first.targets[0].id if first is not None and len(first.targets) == 1 and isinstance(first.targets[0], ast.Name) else "?"
        rebinds = [x for x in ast.walk(f.node) if isinstance(x, (ast.Assign, ast.AugAssign)) and x is not first
                   and saved in {n_.id for t_ in (x.targets if isinstance(x, ast.Assign) else [x.target]) for n_ in ast.walk(t_) if isinstance(n_, ast.Name) and isinstance(n_.ctx, ast.Store)}]
        ok3 = (pre[:2] == [f"{saved} = config['param_dict'].copy()", "config['param_dict'].update(param_dict)"] and len(tool_calls) == 1 and not rebinds
               and ast.unparse(tool_calls[0]) == "tool(config, tag=tag)" and [ast.unparse(x) for x in t.finalbody] == [f"config['param_dict'] = {saved}"]
               and f.node.body.index(t) > 0 and len([c for c in calls_in(f.node) if isinstance(c.func, ast.Name) and c.func.id == "tool"]) == 1)
    elif any(b.startswith("config['param_dict'] = ") for b in body):
        why3 = "the temporary parameters of create/collect/clean are restored only when the reused tool returns normally: a raising step (after which the chain goes on) leaks them into all later steps"
    ctx.record(rule + "p", "PAIR", f.ref, "the temporary parameters are applied for the reused tool only: a copy is saved before and restored in a finally (normal return and exception alike)", ok3, {"body": body},
               "" if ok3 else why3)
    # status propagation: a step that reuses a status-returning tool hands that status on (Manu.run counts None as success)
    status_tools = {fn_.name for fn_ in tree.body if isinstance(fn_, ast.FunctionDef) and any("with_cartesian_graph" in ast.unparse(d) for d in fn_.decorator_list)} | {"run"}

    def returns_value_of(fn_node, call):
        """The value of `call` is what the function returns (directly, or through one local that nothing else assigns)."""
        for r in ast.walk(fn_node):
            if isinstance(r, ast.Return) and r.value is call:
                return True
        for a in ast.walk(fn_node):
            if isinstance(a, ast.Assign) and a.value is call and len(a.targets) == 1 and isinstance(a.targets[0], ast.Name):
                v = a.targets[0].id
                others = [x for x in ast.walk(fn_node) if isinstance(x, (ast.Assign, ast.AugAssign)) and x is not a and any(isinstance(t, ast.Name) and t.id == v for t in (x.targets if isinstance(x, ast.Assign) else [x.target]))]
                rets = [r for r in ast.walk(fn_node) if isinstance(r, ast.Return)]
                if not others and rets and all(isinstance(r.value, ast.Name) and r.value.id == v for r in rets) and isinstance(fn_node.body[-1], ast.Return):
                    return True
        return False

    carriers = {"_reuse_tool_with_param_dict": "tool"}
    dropped = []
    n_sites = 0
    for fn_ in tree.body:
        if not isinstance(fn_, ast.FunctionDef):
            continue
        for c in calls_in(fn_):
            nm = call_name(c)
            is_status = (isinstance(c.func, ast.Name) and (nm in status_tools or nm in carriers)) or (fn_.name in carriers and isinstance(c.func, ast.Name) and nm == carriers[fn_.name])
            if not is_status or fn_.name == "with_cartesian_graph":
                continue
            n_sites += 1
            if not returns_value_of(fn_, c):
                dropped.append(f"{fn_.name}: {ast.unparse(c)[:60]}")
    ctx.record(rule + "x", "PROV", IS, "a step that runs another status-returning step (directly or through _reuse_tool_with_param_dict) returns that status", not dropped and n_sites >= 4,
               {"sites": n_sites, "dropped": dropped}, "" if not dropped else f"the exit status of a reused step is dropped (Manu.run reads None as success, a failing step is not reported): {dropped}")
    # vm management steps: each runs the one manage.<variant> node per worker through the per-worker template
    bad3 = {}
    for name, variant in (("boot", "start"), ("shutdown", "stop"), ("download", "download"), ("upload", "upload"), ("control", "run")):
        f = ctx.repo.func(f"{IS}:{name}")
        ctx.touch(f.ref)
        body = [s_ for s_ in f.node.body if not (isinstance(s_, ast.Expr) and isinstance(s_.value, ast.Constant))]
        calls = [c for c in calls_in(f.node)]
        ok = (len(body) == 1 and len(calls) == 1 and call_name(calls[0]) == "_parse_one_node_for_all_objects_per_worker" and len(calls[0].args) == 3
              and [ast.unparse(a) for a in calls[0].args[:2]] == ["config", "tag"] and isinstance(calls[0].args[2], ast.Tuple) and len(calls[0].args[2].elts) == 4
              and isinstance(calls[0].args[2].elts[1], ast.Constant) and calls[0].args[2].elts[1].value == variant and "with_cartesian_graph" in f.decorators)
        if not ok:
            bad3[name] = ast.unparse(calls[0])[:160] if calls else None
    ctx.record(rule + "m", "TABLE", IS, "boot/shutdown/download/upload/control run exactly the manage.<start|stop|download|upload|run> node through the per-worker template, once", not bad3, {"changed": bad3},
               "" if not bad3 else f"a vm management step runs another variant than its name says or runs it more than once: {bad3}")
    # worker steps: every parsed worker is started / stopped once
    for name in ("start", "stop"):
        f = ctx.repo.func(f"{IS}:{name}")
        ctx.touch(f.ref)
        loops = [l for l in f.node.body if isinstance(l, ast.For)]
        defs_w = [ast.unparse(s_.value) for s_ in f.node.body if isinstance(s_, ast.Assign) and ast.unparse(s_.targets[0]) == "workers"]
        ok = (len(loops) == 1 and ast.unparse(loops[0].iter) == "workers" and len(loops[0].body) == 1 and ast.unparse(loops[0].body[0]) == f"{loops[0].target.id}.{name}()"
              and defs_w == ["l.parse_workers(config['param_dict'])"] and "with_cartesian_graph" in f.decorators)
        ctx.record(rule + "k", "COUNT", f.ref, f"{name}: every worker parsed from the run parameters is {name}ed exactly once", ok, {}, "" if ok else f"the {name} step no longer acts once on every selected worker")
    f = ctx.repo.func(f"{IS}:with_cartesian_graph.<locals>.wrapper")
    rets = [r for r in ast.walk(f.node) if isinstance(r, ast.Return)]
    ok4 = len(rets) == 1 and ast.unparse(rets[0].value) == "0 if runner.all_results_ok() else 1"
    calls = [c for c in calls_in(f.node) if call_name(c) == "fn"]
    ok4 = ok4 and len(calls) == 1 and ast.unparse(calls[0]) == "fn(config, tag=tag)"
    ctx.record(rule + "w", "TABLE", f.ref, "a decorated step runs once and returns 0 if runner.all_results_ok() else 1", ok4, {}, "" if ok4 else "a step's exit code no longer reflects its tests' results")


def unset_default(ctx: Ctx, rule: str) -> None:
    """unset: the stronger default mode (fi) is only a default — injected per vm only if the user gave neither unset_mode_<vm> nor unset_mode."""
    from ..kinds import function_views, expr_formula

    fref = f"{IS}:unset"
    fn = ctx.repo.func(fref)
    ctx.touch(fref)
    views = function_views(ctx, fref, lambda n: isinstance(n, ast.Subscript) and isinstance(n.ctx, ast.Store))
    n_sites = 0
    bad = None
    for v in views:
        for i, st in v.stmts(lambda s_: isinstance(s_, ast.Assign) and ast.unparse(s_.targets[0]).startswith("setup_dict[") and isinstance(s_.value, ast.Constant) and s_.value.value == "fi"):
            n_sites += 1
            key = ast.unparse(st.targets[0].slice)
            prem = v.premise(i, 0)
            want = norm.conj([norm.neg(expr_formula(v, i, f"{key} in setup_dict")), norm.neg(expr_formula(v, i, "op_mode in setup_dict"))])
            if not norm.implies(prem, want):
                bad = v
    stores = [s_ for s_ in ast.walk(fn.node) if isinstance(s_, ast.Assign) and ast.unparse(s_.targets[0]).startswith("setup_dict[") and "mode" in ast.unparse(s_.targets[0].slice)]
    defs = {ast.unparse(s_.targets[0]): ast.unparse(s_.value) for s_ in ast.walk(fn.node) if isinstance(s_, ast.Assign) and isinstance(s_.targets[0], ast.Name)}
    ok = bad is None and n_sites >= 1 and len(stores) == 1 and defs.get("vm_op_mode") == "op_mode + '_' + vm.suffix" and defs.get("op_mode") == "'unset_mode'" \
        and defs.get("setup_dict") == "config['param_dict'].copy()"
    ctx.record(rule, "GUARD", fref, "setup_dict['unset_mode_<vm>'] = 'fi' only when neither unset_mode_<vm> nor unset_mode is among the user's parameters", ok, {"paths_with_store": n_sites},
               "" if ok else "the default unset mode of the unset step overrides a mode the user gave (generic or per vm), or is no longer applied per vm")


def traversal_errors_surface(ctx: Ctx, rule: str) -> None:
    """A worker whose traversal dies (RuntimeError of the spawner, AssertionError of the graph, ...) has run nothing more: the step must not
    look successful.  The only report of such a death is the exception out of run_workers (with_cartesian_graph looks at recorded results
    only), so nothing between traverse_object_trees and the caller may swallow it."""
    fref = "plugins/runner.py:TestRunner.run_workers"
    fn = ctx.repo.func(fref)
    ctx.touch(fref)
    swallow = []
    for t in ast.walk(fn.node):
        if isinstance(t, ast.Try):
            for h in t.handlers:
                if not any(isinstance(x, ast.Raise) for x in ast.walk(h)):
                    swallow.append(f"line {h.lineno}: except {ast.unparse(h.type) if h.type else ''}")
    gathers = [c for c in calls_in(fn.node) if call_name(c) == "gather"]
    lenient = [c for c in gathers if any(k.arg == "return_exceptions" and not (isinstance(k.value, ast.Constant) and k.value.value is False) for k in c.keywords)]
    trav = [c for c in calls_in(fn.node) if call_name(c) == "traverse_object_trees"]
    ok = not swallow and not lenient and len(gathers) == 1 and len(trav) == 1
    ctx.record(rule, "TABLE", fref, "run_workers: every worker's traverse_object_trees is awaited through one gather without return_exceptions and without a swallowing handler",
               ok, {"handlers_without_raise": swallow, "gather": [ast.unparse(c)[:80] for c in gathers]},
               "" if ok else f"an exception that ends a worker's traversal is swallowed in run_workers ({(swallow or ['gather(return_exceptions=...)'])[0]}): the manual step reports success "
               "although that worker ran nothing more")


MUTATORS = ("update", "setdefault", "pop", "popitem", "clear", "__setitem__", "__delitem__")


def chain_parameters_shared(ctx: Ctx, rule: str) -> None:
    """`config["param_dict"]` is the one parameter set every step of a chain starts from (Manu.run hands the same `config` to each step in turn):
    a step that writes into it (directly or through a local that aliases it, i.e. assigned without .copy()) changes what all later steps run
    with - other vms, other workers, other modes.  Writers allowed: the temporary-parameter helper whose save/restore pairing rule 5p checks."""
    tree = ctx.repo.module(IS)
    allowed = {"_reuse_tool_with_param_dict"}
    shared = "config['param_dict']"
    bad, n_fn, n_reads = [], 0, 0
    for fn_ in tree.body:
        if not isinstance(fn_, ast.FunctionDef) or "config" not in [a.arg for a in fn_.args.args]:
            continue
        n_fn += 1
        ctx.touch(f"{IS}:{fn_.name}")
        aliases = {shared}
        for a in ast.walk(fn_):
            if isinstance(a, ast.Assign):
                for t in a.targets:
                    pairs = list(zip(t.elts, a.value.elts)) if isinstance(t, ast.Tuple) and isinstance(a.value, ast.Tuple) and len(t.elts) == len(a.value.elts) else [(t, a.value)]
                    for tt, vv in pairs:
                        if isinstance(tt, ast.Name) and ast.unparse(vv) in (shared,):
                            aliases.add(tt.id)
        n_reads += sum(1 for x in ast.walk(fn_) if isinstance(x, ast.Subscript) and ast.unparse(x) == shared)
        if fn_.name in allowed:
            continue
        for x in ast.walk(fn_):
            site = None
            if isinstance(x, (ast.Assign, ast.AugAssign, ast.Delete)):
                tg = x.targets if isinstance(x, (ast.Assign, ast.Delete)) else [x.target]
                for t in tg:
                    for tt in (t.elts if isinstance(t, ast.Tuple) else [t]):
                        if isinstance(tt, ast.Subscript) and ast.unparse(tt.value) in aliases:
                            site = ast.unparse(x)
                        elif isinstance(x, ast.Assign) and isinstance(tt, ast.Subscript) and ast.unparse(tt) == shared:
                            site = ast.unparse(x)
            elif isinstance(x, ast.Call) and isinstance(x.func, ast.Attribute) and x.func.attr in MUTATORS and ast.unparse(x.func.value) in aliases:
                site = ast.unparse(x)
            if site:
                bad.append((fn_.name, site[:100], x.lineno))
    if n_fn < 20 or n_reads < 20:
        raise AnalysisError(f"only {n_fn} steps with a config argument / {n_reads} reads of config['param_dict'] found")
    ctx.record(rule, "OWNER", IS, "no manual step writes into config['param_dict'] (the parameters shared by all steps of the chain) or an alias of it; steps work on copies",
               not bad, {"steps": n_fn, "reads": n_reads, "writers": [f"{f}: {t}" for f, t, _ in bad]},
               "" if not bad else f"step `{bad[0][0]}` writes into the parameters every later step of the chain starts from: {bad[0][1]}")


def unknown_step_contained(ctx: Ctx, rule: str) -> None:
    """The lookup of a step by its configured name raises AttributeError for a mistyped / removed step (the README still names `deploy`):
    like any other failure of a step it must make the chain report failure without ending it - so it lies inside the per-step try
    (or has a default, or the chain is validated against the published steps before anything runs)."""
    fn = ctx.repo.func(MANU)
    ctx.touch(MANU)
    loop = the_loop(ctx, MANU, ast.For, lambda l: any(call_name(c) == "getattr" for c in calls_in(l)), "setup chain loop")
    lookups = [c for c in calls_in(loop) if call_name(c) == "getattr" and c.args and ast.unparse(c.args[0]) == "intertest"]
    if not lookups:
        raise AnalysisError(f"{MANU}: step lookup not found")
    unprotected = []
    for c in lookups:
        in_try = any(isinstance(t, ast.Try) and any(x is c for b in t.body for x in ast.walk(b))
                     and any(h.type is None or ast.unparse(h.type) in ("Exception", "AttributeError", "BaseException") or "AttributeError" in ast.unparse(h.type) for h in t.handlers)
                     for t in ast.walk(loop))
        if not in_try and len(c.args) < 3:
            unprotected.append(c)
    # validation of the whole chain before the loop: a test of every step name against the module (hasattr / __all__) that returns non-zero
    validated = False
    for st in fn.node.body[:fn.node.body.index(loop)]:
        for i_ in ast.walk(st):
            if isinstance(i_, ast.If) and ("__all__" in ast.unparse(i_.test) or "hasattr(intertest" in ast.unparse(i_.test)) \
                    and any(isinstance(r, ast.Return) and isinstance(r.value, ast.Constant) and r.value.value not in (0, None) for r in ast.walk(i_)):
                validated = True
    ok = not unprotected or validated
    ctx.record(rule, "GUARD", MANU, "the lookup of a step by name is contained like the step itself: an unknown step makes the chain report failure, the other steps run", ok,
               {"lookups": len(lookups), "validated_before": validated},
               "" if ok else f"`{ast.unparse(unprotected[0])}` is outside the per-step try: a mistyped or removed step name raises AttributeError out of Manu.run after the earlier steps "
               "have run - no exit status, the later steps are skipped")


def optional_arguments(ctx: Ctx, rule: str) -> None:
    """config['param_dict'] holds exactly the key=value pairs given on the command line - every key in it is optional (parse_workers falls back to
    the configured nets, the vm selection to the default vms).  A subscript read of it in a step raises KeyError for an omitted argument and
    the step acts on no worker / vm at all."""
    tree = ctx.repo.module(IS)
    shared = "config['param_dict']"
    bad, n_tolerant = [], 0
    for fn_ in tree.body:
        if not isinstance(fn_, ast.FunctionDef):
            continue
        for x in ast.walk(fn_):
            if isinstance(x, ast.Subscript) and isinstance(x.ctx, ast.Load) and ast.unparse(x.value) == shared and isinstance(x.slice, ast.Constant):
                guarded = any(isinstance(i_, ast.If) and f"'{x.slice.value}' in {shared}" in ast.unparse(i_.test) and any(y is x for b in i_.body for y in ast.walk(b)) for i_ in ast.walk(fn_))
                if not guarded:
                    bad.append(f"{fn_.name}: {ast.unparse(x)}")
            elif isinstance(x, ast.Call) and call_name(x) == "get" and ast.unparse(x.func.value) == shared:
                n_tolerant += 1
    if n_tolerant == 0:
        raise AnalysisError("no tolerant read of config['param_dict'] found (the rule would pass vacuously)")
    ctx.record(rule, "GUARD", IS, "command line arguments are read from config['param_dict'] with a default (they are all optional)", not bad, {"tolerant_reads": n_tolerant, "subscript_reads": bad},
               "" if not bad else f"a step requires an optional command line argument: {bad[0]} raises KeyError when it is omitted (the step then handles none of the default workers)")


def run(ctx: Ctx) -> None:
    from .c10 import status_rewrites, verdict

    ctx.call(verdict, "7", tools_only=True)
    ctx.call(status_rewrites, "7z")
    ctx.call(unset_default, "6")
    ctx.call(traversal_errors_surface, "8")
    ctx.call(chain_loop, "1")
    ctx.call(per_vm_template, "2")
    ctx.call(per_worker_template, "3")
    ctx.call(run_flags, "4")
    from ..kinds import signature_defaults

    ctx.call(signature_defaults, "4d", {
        "cartgraph/graph.py:TestGraph.flag_children": {"node_name": "''", "object_name": "''", "worker_name": "''", "flag_type": "'run'", "skip_parents": "False", "skip_children": "False"},
    }, "manual steps flag every node from the shared root")
    ctx.call(step_table, "5")
    ctx.call(chain_parameters_shared, "9")
    ctx.call(unknown_step_contained, "1u")
    ctx.call(optional_arguments, "5n")


M = "plugins/manu.py"
MUTANTS = [
    ('step-lookup-outside-try', 'plugins/manu.py', '            try:\n                # an unknown step is a failed step like any other\n                setup_func = getattr(intertest, setup_step)\n', '            setup_func = getattr(intertest, setup_step)\n            try:\n', '1u'),
    ('stop-requires-nets-argument', 'intertest_setup.py', '    selected_nets = [worker.id for worker in workers]\n    LOG_UI.info(\n        "Stopping worker nets', '    selected_nets = config["param_dict"]["nets"].split(" ")\n    LOG_UI.info(\n        "Stopping worker nets', '5n'),
    ("slow-failure-becomes-warn", "plugins/runner.py", "                    if (\n                        test_result[\"status\"] == \"PASS\"\n                        and float(duration) > 1.25 * max_allowed\n                    ):", "                    if float(duration) > 1.25 * max_allowed:", "7z"),
    ("list-step-writes-shared-parameters", "intertest_setup.py", "        setup_dict = config[\"param_dict\"].copy()\n        # listing can only be done in serial mode\n        setup_dict[\"nets\"] = config[\"param_dict\"].get(\"nets\", \"net0\")", "        setup_dict = config[\"param_dict\"]\n        # listing can only be done in serial mode\n        setup_dict.setdefault(\"nets\", \"net0\")", "9"),
    ("chain-deduplicated", "plugins/manu.py", "        setup_chain = run_params.get(\"setup\", \"\").split()", "        setup_chain = run_params.objects(\"setup\")", "1"),
    ("P-chain-split-on-space", "plugins/manu.py", "        setup_chain = run_params.get(\"setup\", \"\").split()", "        setup_chain = run_params.get(\"setup\", \"\").split(\" \")", None),
    ("worker-death-swallowed", "plugins/runner.py", "asyncio.wait_for(asyncio.gather(*to_traverse), self.job.timeout or None)", "asyncio.wait_for(asyncio.gather(*to_traverse, return_exceptions=True), self.job.timeout or None)", "8"),
    ("unset-default-overrides-generic", "intertest_setup.py", "        state_mode = vm_op_mode if vm_op_mode in setup_dict else op_mode\n        if state_mode not in setup_dict:", "        if vm_op_mode not in setup_dict:", "6"),
    ("P-unset-default-explicit", "intertest_setup.py", "        state_mode = vm_op_mode if vm_op_mode in setup_dict else op_mode\n        if state_mode not in setup_dict:", "        if vm_op_mode not in setup_dict and op_mode not in setup_dict:", None),
    ("shutdown-boots", "intertest_setup.py", "(\"Shutting down\", \"stop\", \"shutdown\", \"Shutdown\")", "(\"Shutting down\", \"start\", \"shutdown\", \"Shutdown\")", "m"),
    ("stop-first-worker-only", "intertest_setup.py", "    for worker in workers:\n        worker.stop()", "    for worker in workers[:1]:\n        worker.stop()", "k"),
    ("last-step-decides", M, "                if setup_func(config, \"0m%s\" % i) not in [None, 0]:\n                    # return 1 if at least one of the steps fails\n                    retcode = 1",
     "                status = setup_func(config, \"0m%s\" % i)\n                retcode = 0 if status in [None, 0] else 1", "1b"),
    ("stop-at-first-failure", M, "                LOG_UI.error(\"Use 'export AVOCADO_LOG_EARLY=1' for further details.\")\n                retcode = 1", "                LOG_UI.error(\"Use 'export AVOCADO_LOG_EARLY=1' for further details.\")\n                retcode = 1\n                break", "1e"),
    ("sorted-chain", M, "setup_chain = run_params.get(\"setup\", \"\").split()", "setup_chain = sorted(run_params.get(\"setup\", \"\").split())", "1"),
    ("exception-not-reported", M, "                LOG_UI.error(\"Use 'export AVOCADO_LOG_EARLY=1' for further details.\")\n                retcode = 1", "                LOG_UI.error(\"Use 'export AVOCADO_LOG_EARLY=1' for further details.\")", "1b"),
    ("incompatible-worker-breaks", IS, "            logging.warning(f\"Skipped incompatible worker {test_worker.id}\")\n            continue\n        elif len(nodes) > 1:", "            logging.warning(f\"Skipped incompatible worker {test_worker.id}\")\n            break\n        elif len(nodes) > 1:", "3"),
    ("step-dict-under-cmdline", IS, "            setup_dict = config[\"param_dict\"].copy()\n            setup_dict.update(param_dict)\n            setup_dict[\"vms\"] = test_object.suffix", "            setup_dict = param_dict.copy()\n            setup_dict.update(config[\"param_dict\"])\n            setup_dict[\"vms\"] = test_object.suffix", "2b"),
    ("all-vms-not-selected", IS, "        for test_object in [o for o in graph.objects if o.key == \"vms\"]:\n            setup_dict = config[\"param_dict\"].copy()\n            setup_dict.update(param_dict)",
     "        for test_object in [o for o in graph.objects if o.key == \"vms\"][:1]:\n            setup_dict = config[\"param_dict\"].copy()\n            setup_dict.update(param_dict)", "2"),
    ("params-leak", IS, "    try:\n        status = tool(config, tag=tag)\n    finally:\n        # a raising tool must not leak the temporary parameters to later steps\n        config[\"param_dict\"] = setup_dict\n    return status", "    status = tool(config, tag=tag)\n    return status", "5p"),
    ("params-restored-on-success-only", IS, "    try:\n        status = tool(config, tag=tag)\n    finally:\n        # a raising tool must not leak the temporary parameters to later steps\n        config[\"param_dict\"] = setup_dict\n    return status", "    status = tool(config, tag=tag)\n    config[\"param_dict\"] = setup_dict\n    return status", "5p"),
    ("status-of-reused-tool-dropped", IS, "    return _reuse_tool_with_param_dict(\n        config,\n        tag,\n        {\n            \"set_state_images\": \"root\",", "    _reuse_tool_with_param_dict(\n        config,\n        tag,\n        {\n            \"set_state_images\": \"root\",", "5x"),
    ("rerun-finished", IS, "        flag=lambda self, slot: not self.is_shared_root()\n        and slot not in self.shared_finished_workers,\n    )\n    r.run_workers(graph, config[\"param_dict\"])\n    LOG_UI.info(\"Finished %s\", operation)",
     "        flag=lambda self, slot: not self.is_shared_root(),\n    )\n    r.run_workers(graph, config[\"param_dict\"])\n    LOG_UI.info(\"Finished %s\", operation)", "4"),
    ("set-does-unset", IS, "    operation = \"set\"\n", "    operation = \"unset\"\n", "5s"),
]
