"""Shared rules about the graph traversal (DESIGN §5.0), used by C01-C05, C08, C10."""

from __future__ import annotations

import ast

from .. import norm
from ..ctx import Ctx
from ..facts import PathView, arg, is_call_named, recv_text, stores_attr
from ..kinds import (
    attribute_stores,
    call_sites,
    expr_formula,
    function_views,
    guard_rule,
    last_call_before,
    loop_iteration_views,
    method_atom,
    names_interesting,
    owner_rule,
    the_loop,
)
from ..paths import PathEnum, Step, first_line, step_assigned, step_awaits, step_calls
from ..repo import AnalysisError, call_name, calls_in

GRAPH = "cartgraph/graph.py"
NODE = "cartgraph/node.py"
RUNNER = "plugins/runner.py"
TOT = f"{GRAPH}:TestGraph.traverse_object_trees"
TN = f"{GRAPH}:TestGraph.traverse_node"
RN = f"{GRAPH}:TestGraph.reverse_node"
TTN = f"{GRAPH}:TestGraph.traverse_terminal_node"
RTN = f"{RUNNER}:TestRunner.run_test_node"
RTT = f"{RUNNER}:TestRunner.run_test_task"

LOOP_NAMES = {
    "traverse_node", "reverse_node", "pick_parent", "pick_child", "drop_parent", "drop_child",
    "is_setup_ready", "is_cleanup_ready", "should_run", "should_clean", "is_occupied", "sleep",
    "traverse_path", "is_flat", "unexplored_nodes", "root", "max_concurrent_tries",
    "occupied_wait", "occupied_at",
}


def main_loop(ctx: Ctx) -> ast.While:
    """The traversal loop: the `while` whose condition calls is_cleanup_ready."""
    return the_loop(
        ctx, TOT, ast.While,
        lambda l: any(call_name(c) == "is_cleanup_ready" for c in calls_in(l.test)),
        "traversal while-loop over root.is_cleanup_ready",
    )


_loop_cache: dict[int, list[PathView]] = {}


def loop_views(ctx: Ctx) -> list[PathView]:
    key = id(ctx.repo)
    if key not in _loop_cache:
        _loop_cache.clear()
        loop = main_loop(ctx)
        _loop_cache[key] = loop_iteration_views(
            ctx, TOT, loop, names_interesting(LOOP_NAMES), roles=["worker", "params"]
        )
    else:
        ctx.touch(TOT)
    return _loop_cache[key]


def _worker_arg(call: ast.Call, pos: int) -> ast.AST:
    a = arg(call, pos, "worker")
    if a is None:
        raise AnalysisError(f"cannot find the worker argument of {ast.unparse(call)}")
    return a


def _since_traverse(node_expr_of):
    """since() factory: index after the last traverse_node(X, ...) call on the path for site's X."""

    def since(view: PathView, idx: int, call: ast.Call):
        x = view.canon_text(node_expr_of(call), idx)
        last = None
        for i, c in view.calls(is_call_named("traverse_node")):
            if i >= idx:
                break
            a0 = arg(c, 0, "test_node")
            if a0 is not None and view.canon_text(a0, i) == x:
                last = i
        return None if last is None else last + 1

    return since


# ---------------------------------------------------------------------- T.G1
def t_g1(ctx: Ctx, rule: str) -> None:
    """traverse_node(X, worker) only under X.is_setup_ready(worker)."""
    guard_rule(
        ctx, rule, TOT, loop_views(ctx), is_call_named("traverse_node"),
        lambda v, i, c: method_atom(v, i, arg(c, 0, "test_node"), "is_setup_ready", [_worker_arg(c, 1)]),
        min_sites=2, what="traverse_node call in the traversal loop",
        describe_required="X.is_setup_ready(worker) is true for the traversed node X",
    )


def t_g2(ctx: Ctx, rule: str) -> None:
    """X.pick_parent(worker) only under not X.is_setup_ready(worker)."""
    guard_rule(
        ctx, rule, TOT, loop_views(ctx), is_call_named("pick_parent"),
        lambda v, i, c: norm.neg(method_atom(v, i, c.func.value, "is_setup_ready", [_worker_arg(c, 0)])),
        min_sites=2, what="pick_parent call in the traversal loop",
        describe_required="X.is_setup_ready(worker) is false for the node X whose parent is picked",
    )


def _root_name(ctx: Ctx) -> str:
    """Name bound to the shared root: every assignment to traverse_path is the display [<root>]."""
    fn = ctx.repo.func(TOT)
    names = set()
    n_assign = 0
    for node in ast.walk(fn.node):
        if isinstance(node, ast.Assign) and any(isinstance(t, ast.Name) and t.id == "traverse_path" for t in node.targets):
            n_assign += 1
            v = node.value
            ok = isinstance(v, ast.List) and len(v.elts) == 1 and isinstance(v.elts[0], ast.Name)
            ctx.record("T.G3a", "PROV", TOT, first_line(node), ok, {"rule": "traverse_path is only ever (re)set to [root]"},
                       "" if ok else "traverse_path is assigned something other than the one-element list [root]")
            if ok:
                names.add(v.elts[0].id)
    if n_assign < 3:
        raise AnalysisError(f"{TOT}: expected at least 3 assignments to traverse_path, found {n_assign}")
    if len(names) != 1:
        raise AnalysisError(f"{TOT}: cannot identify the root name from traverse_path assignments: {names}")
    root = names.pop()
    # root is bound exactly once
    binds = [n for n in ast.walk(fn.node) if isinstance(n, ast.Name) and n.id == root and isinstance(n.ctx, ast.Store)]
    ctx.record("T.G3a", "PROV", TOT, f"{root} bound {len(binds)} time(s)", len(binds) == 1,
               {"rule": "the root is never re-bound"},
               "" if len(binds) == 1 else f"{root} is re-bound in {TOT}")
    return root


def t_g3(ctx: Ctx, rule: str) -> None:
    """pick_child sites: from the root under the loop condition, or after traversal when not cleanup ready."""
    root = _root_name(ctx)
    views = loop_views(ctx)

    # pops only on paths where the path is known to be longer than one element
    def is_pop(c: ast.Call) -> bool:
        return call_name(c) == "pop" and recv_text(c) == "traverse_path"

    guard_rule(
        ctx, rule + "b", TOT, views, is_pop,
        lambda v, i, c: expr_formula(v, i, "len(traverse_path) > 1"),
        min_sites=3, what="traverse_path.pop() in the loop",
        describe_required="len(traverse_path) > 1 (the root is never popped inside the loop)",
    )

    def required(v: PathView, i: int, c: ast.Call):
        w = _worker_arg(c, 0)
        at_root = expr_formula(v, i, "len(traverse_path) > 1")
        prem = v.premise(i, 0, None, inner=c)
        if norm.implies(prem, norm.neg(at_root)):
            # the node is traverse_path[-1] of a one-element path: the root (T.G3a + pops guarded)
            rt = ast.Name(id=root, ctx=ast.Load())
            return norm.neg(method_atom(v, i, rt, "is_cleanup_ready", [w]))
        x = c.func.value
        return norm.conj([
            norm.neg(method_atom(v, i, x, "is_cleanup_ready", [w])),
            method_atom(v, i, x, "is_setup_ready", [w]),
        ])

    guard_rule(
        ctx, rule, TOT, views, is_call_named("pick_child"), required,
        min_sites=2, what="pick_child call in the traversal loop",
        describe_required="the node is not cleanup-ready (and setup-ready unless it is the root)",
    )

    # freshness: away from the root, the child is picked only after the node was traversed and
    # found not to need (more) running
    def not_root_site(c: ast.Call) -> bool:
        return call_name(c) == "pick_child"

    def required2(v, i, c):
        prem = v.premise(i, 0, None, inner=c)
        if norm.implies(prem, norm.neg(expr_formula(v, i, "len(traverse_path) > 1"))):
            return ("const", True)
        return norm.neg(method_atom(v, i, c.func.value, "should_run", [_worker_arg(c, 0)]))

    def since2(v, i, c):
        prem = v.premise(i, 0, None, inner=c)
        if norm.implies(prem, norm.neg(expr_formula(v, i, "len(traverse_path) > 1"))):
            return 0
        return _since_traverse(lambda call: call.func.value)(v, i, c)

    guard_rule(
        ctx, rule + "c", TOT, views, not_root_site, required2, since=since2,
        min_sites=2, what="pick_child call in the traversal loop",
        describe_required="away from the root: traverse_node(X) happened and X.should_run(worker) was false afterwards",
    )


def t_g4(ctx: Ctx, rule: str) -> None:
    """drop_parent(X, worker) only after traverse_node(X) and with X.should_run(worker) false afterwards."""
    guard_rule(
        ctx, rule, TOT, loop_views(ctx), is_call_named("drop_parent"),
        lambda v, i, c: norm.neg(method_atom(v, i, arg(c, 0, "test_node"), "should_run", [_worker_arg(c, 1)])),
        since=_since_traverse(lambda c: arg(c, 0, "test_node")),
        min_sites=1, missing_is_violation=False, what="drop_parent call in the traversal loop",
        describe_required="traverse_node(X) happened on the path and X.should_run(worker) was false afterwards",
    )
    # single call site in the package (the only way a parent becomes 'dropped' for a worker)
    sites = list(call_sites(ctx.repo, "drop_parent"))
    owner_rule(ctx, rule + "o", "call of drop_parent", [(f, c, "call") for f, c in sites], {TOT: "the traversal loop"})
    regs = [(f, n, how) for f, n, how in attribute_stores(ctx.repo, "_dropped_setup_nodes")
            if how.startswith("mutator")]
    owner_rule(ctx, rule + "o", "registration in _dropped_setup_nodes", regs,
               {f"{NODE}:TestNode.drop_parent": "the only registrar"})


def _postponement(ctx: Ctx):
    """The `if not X.is_flat() and len(<lists>) > 0: ... continue` that postpones a reversal: (the If, text of the measured expression)."""
    fn = ctx.repo.func(TOT)
    for i_ in ast.walk(fn.node):
        if isinstance(i_, ast.If) and any(isinstance(x, ast.Continue) for x in i_.body) and "is_flat()" in ast.unparse(i_.test):
            for c in ast.walk(i_.test):
                if isinstance(c, ast.Compare) and isinstance(c.left, ast.Call) and call_name(c.left) == "len" and len(c.ops) == 1 and isinstance(c.ops[0], ast.Gt) \
                        and "unexplored" in ast.unparse(c.left):
                    return i_, ast.unparse(c.left.args[0])
    raise AnalysisError(f"{TOT}: the postponement of a reversal while flat nodes are unexplored was not found")


def t_g5u(ctx: Ctx, rule: str) -> None:
    """Which flat nodes postpone a reversal: every flat node that can still add children for THIS worker - not yet unrolled for it and to be
    parsed by it.  (Every worker unrolls a flat node into its own copies; a list built with the worker-agnostic `is_unrolled()` is empty as
    soon as ANOTHER worker has unrolled the remaining flat tests, the setup node of this worker then looks childless, is reversed, its
    removable state is removed - and the dependant this worker expands afterwards starts from a state that exists nowhere.)"""
    fn = ctx.repo.func(TOT)
    ctx.touch(TOT)
    _, measured = _postponement(ctx)
    wname = fn.params()[1] if len(fn.params()) > 1 else "worker"
    names = [n.id for n in ast.walk(ast.parse(measured, mode="eval")) if isinstance(n, ast.Name)]
    conds = {}
    for nm in names:
        defs = [d for d in ast.walk(fn.node) if isinstance(d, ast.Assign) and len(d.targets) == 1 and isinstance(d.targets[0], ast.Name) and d.targets[0].id == nm
                and isinstance(d.value, ast.ListComp)]
        if len(defs) != 1 or len(defs[0].value.generators) != 1 or ast.unparse(defs[0].value.generators[0].iter) != "self.nodes" \
                or not isinstance(defs[0].value.generators[0].target, ast.Name):
            raise AnalysisError(f"{TOT}: `{nm}` of the postponement guard is not one list comprehension over self.nodes")
        g = defs[0].value.generators[0]
        conds[nm] = norm.conj([norm.formula(c, rename={g.target.id: "_IT"}) for c in g.ifs])

    def expand(f):
        # `_IT not in <earlier list>` is the negation of that list's condition
        if f[0] == "atom":
            for nm, c in conds.items():
                if f[1] == f"_IT in {nm}":
                    return c
            return f
        if f[0] == "not":
            return ("not", expand(f[1]))
        if f[0] in ("and", "or"):
            return (f[0], tuple(expand(x) for x in f[1]))
        return f

    covered = norm.disj([expand(c) for c in conds.values()])
    want = norm.formula(ast.parse(f"_IT.is_flat() and not _IT.is_unrolled({wname}) and _IT.should_parse({wname})", mode="eval").body)
    ok = norm.implies(want, covered)
    ctx.record(rule, "GUARD", TOT, "a reversal is postponed while any flat node is not yet unrolled for the traversing worker (and to be parsed by it)", ok,
               {"measured": measured, "lists": {k: norm.show(v) for k, v in conds.items()}},
               "" if ok else f"the reversal of a setup node is postponed only while `{measured}` is non-empty, which does not cover the flat nodes this worker has still to unroll "
               "(unrolled by another worker only): the worker removes its removable state before its own, later expanded dependant has run")


def t_g5(ctx: Ctx, rule: str) -> None:
    """reverse_node(X) only when cleanup ready, not postponed, traversed and not to be (re)run, after dropping X in all parents."""
    views = loop_views(ctx)
    _, measured = _postponement(ctx)

    def required(v, i, c):
        x, w = arg(c, 0, "test_node"), _worker_arg(c, 1)
        postponed = norm.conj([
            norm.neg(method_atom(v, i, x, "is_flat", [])),
            expr_formula(v, i, f"len({measured}) > 0"),
        ])
        return norm.conj([method_atom(v, i, x, "is_cleanup_ready", [w]), norm.neg(postponed)])

    guard_rule(
        ctx, rule, TOT, views, is_call_named("reverse_node"), required,
        min_sites=1, what="reverse_node call in the traversal loop",
        describe_required="X.is_cleanup_ready(worker) and not (X is composite while unexplored flat nodes remain)",
    )
    guard_rule(
        ctx, rule + "b", TOT, views, is_call_named("reverse_node"),
        lambda v, i, c: norm.neg(method_atom(v, i, arg(c, 0, "test_node"), "should_run", [_worker_arg(c, 1)])),
        since=_since_traverse(lambda c: arg(c, 0, "test_node")),
        min_sites=1, what="reverse_node call in the traversal loop",
        describe_required="traverse_node(X) happened on the path and X.should_run(worker) was false afterwards",
    )
    # unexplored_nodes is the list of flat, not yet unrolled nodes of the whole graph
    fn = ctx.repo.func(TOT)
    defs = [n for n in ast.walk(fn.node) if isinstance(n, ast.Assign)
            and any(isinstance(t, ast.Name) and t.id == "unexplored_nodes" for t in n.targets)]
    ok = False
    # later definitions may only widen the list (`unexplored_nodes = unexplored_nodes or [...]`): more postponement, never less
    widening = [d for d in defs[1:] if isinstance(d.value, ast.BoolOp) and isinstance(d.value.op, ast.Or)
                and isinstance(d.value.values[0], ast.Name) and d.value.values[0].id == "unexplored_nodes"]
    if defs and len(widening) == len(defs) - 1:
        defs = defs[:1]
    if len(defs) == 1 and isinstance(defs[0].value, ast.ListComp) and len(defs[0].value.generators) == 1:
        gen = defs[0].value.generators[0]
        it = ast.unparse(gen.iter)
        cond = norm.conj([norm.formula(c, rename={gen.target.id: "_IT"}) for c in gen.ifs]) if isinstance(gen.target, ast.Name) else None
        want = norm.conj([("atom", "_IT.is_flat()"), ("not", ("atom", "_IT.is_unrolled()"))])
        ok = it == "self.nodes" and cond is not None and norm.equivalent(cond, want) \
            and isinstance(defs[0].value.elt, ast.Name) and defs[0].value.elt.id == gen.target.id
    ctx.record(rule + "c", "PROV", TOT, first_line(defs[0]) if defs else "<missing unexplored_nodes>", ok,
               {"rule": "unexplored_nodes = all nodes of the graph that are flat and not unrolled"},
               "" if ok else "unexplored_nodes is no longer the list of all flat, not yet unrolled nodes of the graph")

    # ... and it is recomputed in every iteration before it is consulted (never a stale snapshot)
    stale = None
    n_use = 0
    for view in views:
        defs_at = [i for i, s_ in view.stmts(lambda s_: isinstance(s_, ast.Assign) and any(
            isinstance(t, ast.Name) and t.id == "unexplored_nodes" for t in (s_.targets[0].elts if isinstance(s_.targets[0], ast.Tuple) else [s_.targets[0]])))]
        for i, st in enumerate(view.steps):
            if st.kind == "cond" and any(isinstance(n, ast.Name) and n.id == "unexplored_nodes" for n in ast.walk(st.node)):
                n_use += 1
                if not any(d < i for d in defs_at):
                    stale = view
    ctx.record(rule + "e", "ORDER", TOT, "unexplored_nodes is recomputed in every iteration before it is consulted", stale is None and n_use >= 2, {"uses": n_use},
               "" if stale is None and n_use >= 2 else "the list of unexplored flat nodes can be a stale snapshot from an earlier iteration (cleanup postponed forever, or done too early)")
    # the reversal is preceded, on every path, by the unfiltered loop dropping X in all setup nodes
    n_sites = 0
    for view in views:
        for idx, call in view.calls(is_call_named("reverse_node")):
            n_sites += 1
            x = view.canon_text(arg(call, 0, "test_node"), idx)
            w = view.canon_text(_worker_arg(call, 1), idx)
            found = False
            for k in range(idx - 1, -1, -1):
                st = view.steps[k]
                if st.kind in ("iter", "opaque") and isinstance(st.node, ast.For):
                    loop = st.node
                    it = view.canon_text(loop.iter, k)
                    if it != f"{x}.setup_nodes" or not isinstance(loop.target, ast.Name):
                        continue
                    if len(loop.body) >= 1 and not loop.orelse:
                        first = loop.body[0]
                        if isinstance(first, ast.Expr) and isinstance(first.value, ast.Call):
                            c = first.value
                            if (call_name(c) == "drop_child" and recv_text(c) == loop.target.id
                                    and len(c.args) >= 2
                                    and view.canon_text(c.args[0], k) == x and view.canon_text(c.args[1], k) == w):
                                found = True
                                break
            if view.path.steps and not found:
                ctx.record(rule + "d", "ORDER", TOT, ast.unparse(call), False,
                           {"path": view.path.describe()},
                           "reverse_node(X) is reachable without first dropping X as a child in every one of X.setup_nodes")
                return
    if n_sites:
        ctx.record(rule + "d", "ORDER", TOT, "for s in X.setup_nodes: s.drop_child(X, worker) precedes reverse_node(X)", True,
                   {"paths_through_site": n_sites})
    sites = list(call_sites(ctx.repo, "drop_child"))
    owner_rule(ctx, rule + "o", "call of drop_child", [(f, c, "call") for f, c in sites], {TOT: "the traversal loop"})
    regs = [(f, n, how) for f, n, how in attribute_stores(ctx.repo, "_dropped_cleanup_nodes")
            if how.startswith("mutator")]
    owner_rule(ctx, rule + "o", "registration in _dropped_cleanup_nodes", regs,
               {f"{NODE}:TestNode.drop_child": "the only registrar"})


# ---------------------------------------------------------------------- T.W1
WORKER_CALLS = {
    "is_setup_ready": 0, "is_cleanup_ready": 0, "pick_parent": 0, "pick_child": 0,
    "drop_parent": 1, "drop_child": 1, "is_occupied": 0, "should_run": 0, "should_clean": 0,
    "traverse_node": 1, "reverse_node": 1, "traverse_terminal_node": 1,
}


def t_w1(ctx: Ctx, rule: str) -> None:
    """The worker parameter is never re-bound and is what every worker-relative call receives."""
    for fref, pos in ((TOT, 0), (TN, 1), (RN, 1), (TTN, 1)):
        fn = ctx.repo.func(fref)
        ctx.touch(fref)
        params = fn.params()[1:]
        wname = params[pos]
        rebound = [n for n in ast.walk(fn.node) if isinstance(n, ast.Name) and n.id == wname and isinstance(n.ctx, (ast.Store, ast.Del))]
        ctx.record(rule, "PROV", fref, f"parameter {wname} re-bound {len(rebound)} time(s)", not rebound, {},
                   "" if not rebound else f"the worker parameter {wname} is re-bound at line {rebound[0].lineno}")
        n = 0
        bad = []
        for call in calls_in(fn.node):
            name = call_name(call)
            if name in WORKER_CALLS:
                a = arg(call, WORKER_CALLS[name], "worker")
                n += 1
                if not (isinstance(a, ast.Name) and a.id == wname):
                    bad.append(call)
        for node in ast.walk(fn.node):
            for attr in ("started_worker", "finished_worker"):
                for tgt, val in stores_attr(node, attr):
                    n += 1
                    if not ((isinstance(val, ast.Name) and val.id == wname) or (isinstance(val, ast.Constant) and val.value is None)):
                        bad.append(node)
        ctx.record(rule, "PROV", fref, f"{n} worker-relative calls/stores use parameter {wname}", not bad,
                   {"sites": n}, "" if not bad else f"worker-relative site does not use the traversing worker: {first_line(bad[0])}")


# ---------------------------------------------------------------------- T.A1
def _entry_views(ctx: Ctx, fref: str, names: set[str], roles):
    return function_views(ctx, fref, names_interesting(names), roles=roles)


def t_a1(ctx: Ctx, rule: str) -> None:
    """No suspension between the is_occupied test and the started_worker marker."""
    for fref in (TN, RN):
        views = _entry_views(ctx, fref, {"is_occupied", "started_worker", "finished_worker", "should_run", "should_clean"},
                             ["test_node", "worker", "params"])
        n = 0
        problems = []
        for view in views:
            for idx, node in view.stmts(lambda s: any(not (isinstance(v, ast.Constant) and v.value is None)
                                                      for _, v in stores_attr(s, "started_worker"))):
                n += 1
                tgt, val = stores_attr(node, "started_worker")[0]
                recv = tgt.value
                req = norm.neg(method_atom(view, idx, recv, "is_occupied", [val]))
                # find the (valid) condition step establishing it and check no await in between
                prem = view.premise(idx, 0)
                if not norm.implies(prem, req):
                    problems.append(("marker set without a preceding negative is_occupied test on the same node and worker", view))
                    continue
                cond_idx = max(i for i in range(idx) if view.steps[i].kind == "cond"
                               and norm.implies(view.cond_formula(i), req))
                for k in range(cond_idx, idx + 1):
                    if step_awaits(view.steps[k]):
                        problems.append((f"suspension point between the occupation test and the marker: {view.steps[k].describe()}", view))
                        break
        ctx.expect_sites(rule, n, 1, fref, False, "non-None store to started_worker")
        ok = not problems
        ctx.record(rule, "ATOMIC", fref, "is_occupied(worker) false -> started_worker = worker without suspension", ok,
                   {"paths_through_store": n, **({"path": problems[0][1].path.describe()} if problems else {})},
                   "" if ok else problems[0][0])


def t_a1_owner(ctx: Ctx, rule: str) -> None:
    """Who may write started_worker / finished_worker."""
    allowed_started = {
        f"{NODE}:TestNode.__init__": "initialised to None",
        TN: "set under the occupation test, reset at the end",
        RN: "set under the occupation test, reset at the end",
        TTN: "on the freshly constructed configuration node only",
        f"{NODE}:TestNode.should_rerun": "temporary swap restored before returning (synchronous)",
    }
    owner_rule(ctx, rule, "store to started_worker", list(attribute_stores(ctx.repo, "started_worker")), allowed_started, 6)
    owner_rule(ctx, rule, "store to finished_worker", list(attribute_stores(ctx.repo, "finished_worker")),
               {f"{NODE}:TestNode.__init__": "initialised to None", TN: "set after the traversal of the node"}, 2)
    # the terminal-node store is on a node constructed in that function
    fn = ctx.repo.func(TTN)
    ctx.touch(TTN)
    ok = True
    detail = ""
    for node in ast.walk(fn.node):
        for tgt, val in stores_attr(node, "started_worker"):
            recv = tgt.value
            if not isinstance(recv, ast.Name):
                ok, detail = False, first_line(node)
                continue
            defs = [n for n in ast.walk(fn.node) if isinstance(n, ast.Assign)
                    and any(isinstance(t, ast.Name) and t.id == recv.id for t in n.targets)]
            if not (len(defs) == 1 and isinstance(defs[0].value, ast.Call)
                    and call_name(defs[0].value) == "parse_node_from_object"):
                ok, detail = False, first_line(node)
    ctx.record(rule, "OWNER", TTN, "started_worker stored only on the node freshly parsed in traverse_terminal_node", ok, {},
               "" if ok else f"traverse_terminal_node marks a node that it did not construct itself: {detail}")
    # should_rerun restores the marker and is synchronous
    f = ctx.repo.func(f"{NODE}:TestNode.should_rerun")
    ctx.touch(f.ref)
    views = function_views(ctx, f.ref, names_interesting({"started_worker"}))
    bad = None
    for view in views:
        if view.path.exit == "raise":
            continue
        stores = [(i, s) for i, s in view.stmts(lambda s: bool(stores_attr(s, "started_worker")))]
        if not stores:
            continue
        last = stores[-1][1]
        tgt, val = stores_attr(last, "started_worker")[0]
        saved = [s for i, s in view.stmts(lambda s: isinstance(s, ast.Assign) and isinstance(s.value, ast.Attribute)
                                          and s.value.attr == "started_worker")]
        ok_restore = bool(saved) and isinstance(val, ast.Name) and isinstance(saved[0].targets[0], ast.Name) \
            and val.id == saved[0].targets[0].id and len(stores) % 2 == 0
        if not ok_restore:
            bad = view
    ctx.record(rule, "PAIR", f.ref, "temporary started_worker swap is restored on every normal path; function is synchronous",
               bad is None and not f.is_async, {},
               "" if bad is None and not f.is_async else "should_rerun leaves started_worker modified or became a coroutine")


# ---------------------------------------------------------------------- T.A2 / T.R1
def _is_placeholder_stmt(s: ast.AST) -> bool:
    """``<x>.results += [<name>]`` / ``.append`` where the element is an UNKNOWN-status dict (directly or via a local)."""
    if isinstance(s, ast.AugAssign) and isinstance(s.op, ast.Add) and isinstance(s.target, ast.Attribute) and s.target.attr == "results":
        return True
    if isinstance(s, ast.Expr) and isinstance(s.value, ast.Call) and call_name(s.value) in ("append", "extend"):
        r = s.value.func.value
        return isinstance(r, ast.Attribute) and r.attr == "results"
    return False


def _unknown_dict(e: ast.AST) -> bool:
    if isinstance(e, ast.Dict):
        for k, v in zip(e.keys, e.values):
            if isinstance(k, ast.Constant) and k.value == "status" and isinstance(v, ast.Constant) and v.value == "UNKNOWN":
                return True
    return False


def _added_elements(s: ast.AST) -> list[ast.AST]:
    if isinstance(s, ast.AugAssign):
        v = s.value
    else:
        v = s.value.args[0] if s.value.args else None
        if call_name(s.value) == "append":
            return [v] if v is not None else []
    if isinstance(v, (ast.List, ast.Tuple)):
        return list(v.elts)
    return [v] if v is not None else []


def placeholder_index(view: PathView) -> int | None:
    for i, s in view.stmts(_is_placeholder_stmt):
        for el in _added_elements(s):
            c = view.canon(el, i)
            if _unknown_dict(c):
                return i
    return None


def t_a2(ctx: Ctx, rule: str) -> None:
    """From the positive run decision to the UNKNOWN placeholder there is no suspension point."""
    # (1) traverse_node: run calls are guarded by should_run and no await lies between decision and call
    views = _entry_views(ctx, TN, {"should_run", "run_test_node", "traverse_terminal_node", "started_worker",
                                   "pull_locations", "results", "finished_worker"},
                         ["test_node", "worker", "params"])
    run_pred = is_call_named("run_test_node", "traverse_terminal_node")
    n, problems = 0, []
    for view in views:
        for idx, call in view.calls(run_pred):
            n += 1
            req = expr_formula(view, idx, "test_node.should_run(worker)")
            conds = [i for i in range(idx) if view.steps[i].kind == "cond" and norm.implies(view.cond_formula(i), req)]
            if not conds:
                problems.append(("run call not guarded by test_node.should_run(worker)", view))
                continue
            for k in range(conds[-1], idx):
                if step_awaits(view.steps[k]):
                    problems.append((f"suspension between the run decision and the run call: {view.steps[k].describe()}", view))
                    break
            # nothing but the run call itself is awaited in the step of the call
            aw = step_awaits(view.steps[idx]) if idx < len(view.steps) else []
            if any(not (isinstance(a.value, ast.Call) and run_pred(a.value)) for a in aw):
                problems.append(("another awaitable is awaited together with the run call", view))
    ctx.expect_sites(rule, n, 2, TN, True, "run call (run_test_node / traverse_terminal_node) in traverse_node")
    ctx.record(rule, "ATOMIC", TN, "should_run(worker) true -> await run call: no suspension in between", not problems,
               {"paths_through_run_calls": n, **({"path": problems[0][1].path.describe()} if problems else {})},
               "" if not problems else problems[0][0])

    # (2) run_test_node: the placeholder precedes every suspension point
    views = _entry_views(ctx, RTN, {"results", "run_test_task", "sleep", "is_flat", "remove"}, ["node", "status_timeout"])
    n, problems = 0, []
    for view in views:
        if view.path.exit == "raise" and not list(view.awaits()):
            continue
        n += 1
        ph = placeholder_index(view)
        aws = [i for i, _ in view.awaits()]
        if ph is None:
            if aws or view.path.exit != "raise":
                problems.append(("a path of run_test_node runs the test without recording the UNKNOWN placeholder", view))
        elif aws and min(aws) <= ph:
            problems.append(("a suspension point precedes the UNKNOWN placeholder in run_test_node", view))
        else:
            # the list receiving the placeholder is the results of the node parameter
            s = view.steps[ph].node
            tgt = s.target if isinstance(s, ast.AugAssign) else s.value.func.value
            if view.canon_text(tgt, ph) != "node.results":
                problems.append((f"placeholder is not appended to node.results but to {ast.unparse(tgt)}", view))
    ctx.expect_sites(rule, n, 2, RTN, False, "normal path through run_test_node")
    ctx.record(rule, "ATOMIC", RTN, "node.results += [UNKNOWN placeholder] precedes the first await on every path", not problems,
               {"paths": n, **({"path": problems[0][1].path.describe()} if problems else {})},
               "" if not problems else problems[0][0])

    # (3) traverse_terminal_node: nothing is awaited before the first run_test_node call
    views = _entry_views(ctx, TTN, {"run_test_node", "results", "started_worker"}, ["object_name", "worker", "params"])
    n, problems = 0, []
    for view in views:
        aws = list(view.awaits())
        if not aws:
            continue
        n += 1
        first_i, first_a = aws[0]
        if not (isinstance(first_a.value, ast.Call) and call_name(first_a.value) == "run_test_node"):
            problems.append(("traverse_terminal_node suspends before its first run_test_node call", view))
    ctx.expect_sites(rule, n, 1, TTN, False, "awaiting path through traverse_terminal_node")
    ctx.record(rule, "ATOMIC", TTN, "first suspension of traverse_terminal_node is its first run_test_node call", not problems,
               {"paths": n}, "" if not problems else problems[0][0])


def t_a2b(ctx: Ctx, rule: str) -> None:
    """The in-flight first creation step is visible to other deciders of the object root: either the
    configuration node's results alias the root's results, or an UNKNOWN reservation sits on the root's results
    from before the first suspension until the second step is entered."""
    fn = ctx.repo.func(TTN)
    views = _entry_views(ctx, TTN, {"run_test_node", "results", "started_worker", "remove"}, ["object_name", "worker", "params"])
    run_calls = [c for c in calls_in(fn.node) if call_name(c) == "run_test_node"]
    if len(run_calls) < 2:
        raise AnalysisError(f"{TTN}: expected the two creation steps (two run_test_node calls)")
    root = ast.unparse(run_calls[-1].args[0])
    n, problems = 0, []
    for view in views:
        aws = [(i, a) for i, a in view.awaits()]
        if not aws:
            continue
        n += 1
        a1, first = aws[0]
        pre = ast.unparse(first.value.args[0]) if isinstance(first.value, ast.Call) and first.value.args else None
        if pre == root:
            continue
        alias = any(isinstance(val, ast.Attribute) and val.attr == "results" and ast.unparse(val.value) == root
                    and ast.unparse(tgt.value) == pre
                    for i, s_ in view.stmts() for tgt, val in stores_attr(s_, "results") if i < a1)
        if alias:
            continue
        reserve = None
        for i, s_ in view.stmts(_is_placeholder_stmt):
            if i >= a1:
                break
            tgt = s_.target if isinstance(s_, ast.AugAssign) else s_.value.func.value
            if ast.unparse(tgt) == f"{root}.results" and any(_unknown_dict(view.canon(el, i)) for el in _added_elements(s_)):
                reserve = i
        if reserve is None:
            problems.append(("the first creation step is awaited while neither an alias nor an UNKNOWN reservation makes it "
                             "visible in the object root's results", view))
            continue
        removals = [i for i, c in view.calls(lambda c: call_name(c) in ("remove", "pop", "clear")
                                             and ast.unparse(c.func.value) == f"{root}.results")]
        if any(r < a1 for r in removals):
            problems.append(("the reservation on the object root is dropped before the first creation step is awaited", view))
        if not removals and view.path.exit in ("return", "fall", "raise"):
            problems.append(("the UNKNOWN reservation on the object root is never removed on this exit: the root keeps a pending result forever "
                             "(it counts as a try for every later decision and the node never gets a definite status)", view))
        for r in removals:
            later = [i for i, a in aws if i > r]
            if later:
                nxt = [a for i, a in aws if i == later[0]][0]
                if not (isinstance(nxt.value, ast.Call) and call_name(nxt.value) == "run_test_node"
                        and ast.unparse(nxt.value.args[0]) == root):
                    problems.append(("a suspension point lies between dropping the reservation and entering the second creation step", view))
    # a first step that did not succeed is a try of the object root: its result must end up in the root's results, otherwise the
    # try is never counted (a single worker never retries; with the reservation two workers retry each other's pending try forever)
    n_fail, lost = 0, None
    for view in views:
        aws = [(i, a) for i, a in view.awaits()]
        if len(aws) != 1 or view.path.exit != "return":
            continue
        a1, first = aws[0]
        pre = ast.unparse(first.value.args[0]) if isinstance(first.value, ast.Call) and first.value.args else None
        if pre is None or pre == root:
            continue
        n_fail += 1
        alias = any(isinstance(val, ast.Attribute) and val.attr == "results" and ast.unparse(val.value) == root and ast.unparse(tgt.value) == pre
                    for i, s_ in view.stmts() for tgt, val in stores_attr(s_, "results") if i < a1)
        moved = any(i > a1 and ((isinstance(s_, ast.AugAssign) and ast.unparse(s_.target) == f"{root}.results" and f"{pre}.results" in ast.unparse(s_.value))
                                or (isinstance(s_, ast.Expr) and isinstance(s_.value, ast.Call) and call_name(s_.value) == "extend" and ast.unparse(s_.value.func.value) == f"{root}.results"
                                    and f"{pre}.results" in ast.unparse(s_.value)))
                    for i, s_ in view.stmts())
        if not alias and not moved:
            lost = view
        elif moved and not alias:
            # what is moved is the tail the first step added: the slice start must be the number of root results the temporary node was
            # seeded with, i.e. len(root.results) taken while the root holds as many results as at the copy (reservation not counted)
            stmts_ = list(view.stmts())
            mv = next((i, s_) for i, s_ in stmts_ if i > a1 and f"{pre}.results" in ast.unparse(s_) and f"{root}.results" in ast.unparse(s_)
                      and (isinstance(s_, ast.AugAssign) or (isinstance(s_, ast.Expr) and isinstance(s_.value, ast.Call))))
            sl = [x for x in ast.walk(mv[1]) if isinstance(x, ast.Subscript) and ast.unparse(x.value) == f"{pre}.results" and isinstance(x.slice, ast.Slice)]
            good = False
            if len(sl) == 1 and sl[0].slice.lower is not None and sl[0].slice.upper is None:
                start = sl[0].slice.lower
                at = mv[0]
                if isinstance(start, ast.Name):
                    d_ = [(i, s_) for i, s_ in stmts_ if isinstance(s_, ast.Assign) and ast.unparse(s_.targets[0]) == start.id]
                    if len(d_) == 1:
                        at, start = d_[0][0], d_[0][1].value
                copy_at = max([i for i, s_ in stmts_ for tgt, val in stores_attr(s_, "results") if ast.unparse(tgt.value) == pre and i < a1], default=None)
                if ast.unparse(start) == f"len({root}.results)" and copy_at is not None:
                    bal = 0
                    for i, s_ in stmts_:
                        if copy_at < i < at:
                            if isinstance(s_, ast.AugAssign) and ast.unparse(s_.target) == f"{root}.results":
                                bal += 1
                            for c_ in calls_in(s_):
                                if call_name(c_) in ("append", "extend", "insert") and ast.unparse(c_.func.value) == f"{root}.results":
                                    bal += 1
                                if call_name(c_) in ("remove", "pop") and ast.unparse(c_.func.value) == f"{root}.results":
                                    bal -= 1
                    good = bal == 0
            if not good:
                lost = view
    ctx.record(rule + "f", "PROV", TTN, "a failed first creation step leaves its result on the object root's results (the try is counted)", lost is None and n_fail >= 1,
               {"paths_returning_after_the_first_step": n_fail, **({"path": lost.path.describe()[-10:]} if lost else {})},
               "" if lost is None and n_fail >= 1 else "when the configuration step of an object creation fails nothing is recorded on the object root: the try is never counted — one worker never retries "
               "despite max_tries, two workers keep retrying each other's pending try without end")
    ctx.expect_sites(rule, n, 1, TTN, False, "awaiting path of traverse_terminal_node")
    construct = "pre_node.results = list(test_node.results)" if problems and "neither an alias" in problems[0][0] else \
        "first creation step visible on the object root's results (alias or UNKNOWN reservation) until the second step is entered"
    ctx.record(rule, "PROV", TTN, construct, not problems,
               {"paths": n, **({"path": problems[0][1].path.describe()} if problems else {})},
               "" if not problems else problems[0][0] + "; concurrent deciders with max_tries >= 2 do not count the in-flight try")


def t_r1(ctx: Ctx, rule: str) -> None:
    """`results` writers; the final result is appended before the placeholder is removed, without suspension."""
    allowed = {
        f"{NODE}:TestNode.__init__": "empty list",
        TN: "previous (replayed) results, only when the list is empty",
        TTN: "on the freshly constructed configuration node",
        RTN: "placeholder, final result, placeholder removal",
    }
    found = [(f, n, how) for f, n, how in attribute_stores(ctx.repo, "results")
             if not (f is not None and f.module.startswith(("states/", "vmnet/")))]
    # ignore stores to `job.result...`-like foreign attributes: only `<x>.results` is matched by name
    owner_rule(ctx, rule, "write to a node's results", found, allowed, 5)
    views = _entry_views(ctx, RTN, {"results", "run_test_task", "sleep", "is_flat", "remove"}, ["node", "status_timeout"])
    n, problems = 0, []
    for view in views:
        removes = [i for i, c in view.calls(lambda c: call_name(c) in ("remove", "pop", "clear")
                                            and isinstance(c.func.value, ast.Attribute) and c.func.value.attr == "results")]
        dels = [i for i, s in view.stmts(lambda s: isinstance(s, ast.Delete))
                if any(isinstance(t, ast.Subscript) and isinstance(t.value, ast.Attribute) and t.value.attr == "results" for t in s.targets)]
        removes += dels
        if not removes:
            continue
        n += 1
        ph = placeholder_index(view)
        for r in removes:
            adds = [i for i, s in view.stmts(_is_placeholder_stmt) if (ph is None or i > ph) and i < r]
            if not adds:
                problems.append(("an entry is removed from node.results before the final result was appended", view))
                continue
            for k in range(adds[-1], r + 1):
                if step_awaits(view.steps[k]):
                    problems.append(("suspension between appending the final result and removing the placeholder", view))
    ctx.expect_sites(rule, n, 1, RTN, False, "path removing the placeholder")
    ctx.record(rule, "ATOMIC", RTN, "final result appended before the placeholder is removed, no suspension in between",
               not problems, {"paths": n, **({"path": problems[0][1].path.describe()} if problems else {})},
               "" if not problems else problems[0][0])


# ---------------------------------------------------------------------- T.P1 / T.O1
def t_p1(ctx: Ctx, rule: str) -> None:
    """Marker release: after the occupation marker is set, every normal exit resets it (and records the finisher)
    after all awaits."""
    for fref, need_finished in ((TN, True), (RN, False)):
        views = _entry_views(ctx, fref, {"started_worker", "finished_worker", "is_occupied", "should_run", "should_clean",
                                         "run_test_node", "traverse_terminal_node", "sync_states"},
                             ["test_node", "worker", "params"])
        n, problems = 0, []
        for view in views:
            if view.path.exit == "raise":
                continue
            sets = [i for i, s in view.stmts(lambda s: any(not (isinstance(v, ast.Constant) and v.value is None)
                                                           for _, v in stores_attr(s, "started_worker")))]
            if not sets:
                continue
            n += 1
            resets = [i for i, s in view.stmts(lambda s: any(isinstance(v, ast.Constant) and v.value is None
                                                             for _, v in stores_attr(s, "started_worker"))) if i > sets[-1]]
            aws = [i for i, _ in view.awaits()]
            runs = [i for i, _ in view.calls(is_call_named("run_test_node", "traverse_terminal_node", "sync_states"))]
            if not resets:
                problems.append(("a normal exit leaves the occupation marker set", view))
                continue
            if any(a > resets[0] for a in aws) or any(r > resets[0] for r in runs):
                problems.append(("the occupation marker is released before the awaited run/sync has completed", view))
            if need_finished:
                fins = [i for i, s in view.stmts(lambda s: bool(stores_attr(s, "finished_worker"))) if i > sets[-1]]
                if not fins:
                    problems.append(("a normal exit of traverse_node does not record the finishing worker", view))
                elif any(a > fins[0] for a in aws):
                    problems.append(("finished_worker is recorded before the awaited run has completed", view))
        ctx.expect_sites(rule, n, 2, fref, False, "normal path setting the occupation marker")
        ctx.record(rule, "PAIR", fref, "started_worker = worker ... (awaits) ... "
                   + ("finished_worker = worker; " if need_finished else "") + "started_worker = None on every normal exit",
                   not problems, {"paths": n, **({"path": problems[0][1].path.describe()} if problems else {})},
                   "" if not problems else problems[0][0])


def t_o1(ctx: Ctx, rule: str) -> None:
    """In traverse_node: marker < previous results < pull_locations < run decision < run call."""
    views = _entry_views(ctx, TN, {"should_run", "run_test_node", "traverse_terminal_node", "started_worker",
                                   "pull_locations", "results", "finished_worker", "previous_results"},
                         ["test_node", "worker", "params"])
    n, problems = 0, []
    for view in views:
        decisions = [i for i, c in view.calls(is_call_named("should_run"))]
        if not decisions:
            continue
        n += 1
        d = decisions[0]
        marker = [i for i, s in view.stmts(lambda s: any(not (isinstance(v, ast.Constant) and v.value is None)
                                                         for _, v in stores_attr(s, "started_worker")))]
        pulls = [i for i, c in view.calls(is_call_named("pull_locations")) if ast.unparse(c.func.value) in ("test_node",) or
                 view.canon_text(c.func.value, i) == "test_node"]
        prevs = [i for i, s in view.stmts(lambda s: isinstance(s, ast.AugAssign) and isinstance(s.target, ast.Attribute)
                                          and s.target.attr == "results")]
        runs = [i for i, c in view.calls(is_call_named("run_test_node", "traverse_terminal_node"))]
        if not marker or marker[0] > d:
            problems.append(("the run decision is taken before the occupation marker is set", view))
        if not pulls or not any(p < d for p in pulls):
            problems.append(("setup locations are not pulled before the run decision", view))
        if any(p > d for p in prevs):
            problems.append(("previous results are added after the run decision", view))
        if prevs and pulls and marker and not (marker[0] < min(prevs)):
            problems.append(("previous results are added before the marker is set", view))
        if any(r < d for r in runs):
            problems.append(("a run call precedes the run decision", view))
    ctx.expect_sites(rule, n, 2, TN, True, "path of traverse_node evaluating should_run")
    ctx.record(rule, "ORDER", TN, "started_worker = worker < results += previous < pull_locations() < should_run(worker) < run call",
               not problems, {"paths": n, **({"path": problems[0][1].path.describe()} if problems else {})},
               "" if not problems else problems[0][0])
    # previous results only when the node has none yet
    n2, bad = 0, None
    for view in views:
        for i, s in view.stmts(lambda s: isinstance(s, ast.AugAssign) and isinstance(s.target, ast.Attribute) and s.target.attr == "results"):
            n2 += 1
            # the retry decision counts shared_results (own + every bridged copy): the replayed results must enter that multiset once,
            # i.e. only while NO copy has results yet (a test on the node's own list lets every worker's copy add them again)
            node_txt = ast.unparse(s.target.value)
            req = ("atom", f"empty({node_txt}.shared_results)")
            if not norm.implies(view.premise(i, 0), req):
                bad = view
    ctx.expect_sites(rule + "b", n2, 1, TN, False, "results += previous_results")
    ctx.record(rule + "b", "GUARD", TN, "test_node.results += previous_results only while the node and all its bridged copies have no results (len(test_node.shared_results) == 0)",
               bad is None, {"paths": n2}, "" if bad is None else "previous (replayed) results are added per worker copy: the shared count sees each previous result once per worker and the retry budget shrinks with the number of workers")


# ---------------------------------------------------------------------- T.S1
SCOPE_FUNCS = ("is_started", "is_finished")


def t_s1(ctx: Ctx, rule: str) -> None:
    """Scope discrimination agrees between is_started, is_finished and shared_filtered_results."""
    fs = ctx.repo.func(f"{NODE}:TestNode.is_started")
    ff = ctx.repo.func(f"{NODE}:TestNode.is_finished")
    ctx.touch(fs.ref)
    ctx.touch(ff.ref)

    class Ren(ast.NodeTransformer):
        def visit_Attribute(self, node):
            self.generic_visit(node)
            node.attr = node.attr.replace("finished", "started")
            return node

        def visit_Name(self, node):
            node.id = node.id.replace("finished", "started")
            return node

    import copy

    a = copy.deepcopy(fs.node)
    b = Ren().visit(copy.deepcopy(ff.node))
    a.name = b.name = "f"

    def strip_doc(fn):
        body = fn.body
        if body and isinstance(body[0], ast.Expr) and isinstance(body[0].value, ast.Constant) and isinstance(body[0].value.value, str):
            body = body[1:]
        return body

    # the first statement differs by design: a flat node is never started, always finished
    ba, bb = strip_doc(a), strip_doc(b)
    ok_first = (
        len(ba) > 1 and len(bb) > 1 and isinstance(ba[0], ast.If) and isinstance(bb[0], ast.If)
        and ast.unparse(ba[0].test) == "self.is_flat()" == ast.unparse(bb[0].test)
        and ast.unparse(ba[0].body[0]) == "return False" and ast.unparse(bb[0].body[0]) == "return True"
    )
    # the rest must be the same decision function: compared as path tables (premise formula -> returned expression), so that
    # `else:` after a return, reordered exclusive branches and the like do not matter
    def table(body):
        rows = []
        for pth in PathEnum(None).block(body):
            v = PathView(pth)
            if not v.feasible():
                continue
            prem = norm.conj([v.cond_formula(i) for i, st in enumerate(v.steps) if st.kind == "cond"])
            out = ("raise", PathEnum._raised_name(pth.exit_node)) if pth.exit == "raise" else (pth.exit, v.canon_text(pth.exit_node.value, len(v.steps)) if pth.exit == "return" and pth.exit_node.value is not None else None)
            rows.append((prem, out))
        return rows

    same, detail = False, {}
    if ok_first:
        ta, tb = table(ba[1:]), table(bb[1:])

        def covered(rows, others):
            for prem, out in rows:
                # the disjunction of the other table's premises with the same outcome must cover this premise
                alts = [p2 for p2, o2 in others if o2 == out]
                if not alts or not norm.implies(prem, norm.disj(alts)):
                    return (norm.show(prem), out)
            return None

        miss = covered(ta, tb) or covered(tb, ta)
        same = miss is None and bool(ta)
        if miss is not None:
            detail = {"unmatched_row": miss}
    ctx.record(rule, "SIBLING", ff.ref, "is_finished == is_started under renaming started<->finished (flat rows: False / True)",
               same, detail, "" if same else "is_started and is_finished no longer discriminate scopes identically")

    # the two scope atoms and their order, in all three functions
    want = [
        ("lxc", "swarm"),
        ("remote", "cluster"),
    ]
    chains = []
    for fref, wname in ((fs.ref, "worker"), (ff.ref, "worker"), (f"{NODE}:TestNode.shared_filtered_results", "self.started_worker")):
        fn = ctx.repo.func(fref)
        ctx.touch(fref)
        chain = None
        for node in ast.walk(fn.node):
            if isinstance(node, ast.If) and "pool_scope" in ast.unparse(node.test):
                chain = node
                break
        if chain is None:
            raise AnalysisError(f"{fref}: scope discrimination if-chain not found")
        got = []
        cur = chain
        while isinstance(cur, ast.If) and "pool_scope" in ast.unparse(cur.test):
            f = norm.formula(cur.test)
            atoms = norm.atoms_of(f)
            spawner = next((s for s in ("lxc", "remote") if any(f"== '{s}'" in a and "nets_spawner" in a for a in atoms)), None)
            scope = next((s for s in ("swarm", "cluster") if any(a.startswith(f"'{s}' in ") and "pool_scope" in a for a in atoms)), None)
            # required shape: worker and (scope not in pool_scope) and spawner == X
            req = None
            if scope:
                watom = next((a for a in atoms if a == wname), None)
                satom = next(a for a in atoms if a.startswith(f"'{scope}' in "))
                patom = next((a for a in atoms if spawner and f"== '{spawner}'" in a), None)
                if watom:
                    req = norm.conj([("atom", watom), ("not", ("atom", satom))] + ([("atom", patom)] if patom else []))
            got.append((spawner, scope, req is not None and norm.equivalent(f, req)))
            cur = cur.orelse[0] if len(cur.orelse) == 1 else None
        # (b) the three functions discriminate alike: swarm first (per worker), then cluster (per swarm), each a plain conjunction
        ok = [c for _, c, _ in got] == ["swarm", "cluster"] and all(e for _, _, e in got)
        chains.append([(s, c) for s, c, _ in got])
        ctx.record(rule + "b", "SIBLING", fref, "scope chain: (worker and 'swarm' not in pool_scope ...) -> per worker; (worker and 'cluster' not in pool_scope ...) -> per swarm; else global",
                   ok and chains[0] == chains[-1], {"extracted": [(s, c, e) for s, c, e in got]},
                   "" if ok and chains[0] == chains[-1] else f"scope discrimination of {fref} deviates from the shared scheme: {got}")
        # (p) from the property: reuse is narrowed by the pool_scope keywords alone ("one swarm, or one worker, when the pool scope is
        # narrowed"), whatever kind of spawner a worker uses
        tied = [(s, c) for s, c, _ in got if s]
        ctx.record(rule + "p", "TABLE", fref, "the scope a test is started / finished / has results in is narrowed by the pool_scope keywords alone, not by the spawner kind", not tied,
                   {"spawner_conditions": tied},
                   "" if not tied else f"narrowing of the reuse scope is tied to the spawner kind {tied}: remote hosts of one swarm without 'swarm' in pool_scope (or an lxc worker next to remote "
                   "ones without 'cluster') count a sibling's setup as their own, although the state backend refuses that sibling's pool for the same pool_scope - the state is unreachable")


def t_s1c(ctx: Ctx, rule: str) -> None:
    """Per scope branch the selector is the same: worker (+swarm) identity / swarm identity / none."""
    fref = f"{NODE}:TestNode.shared_filtered_results"
    fn = ctx.repo.func(fref)
    ctx.touch(fref)
    chain = next((n for n in ast.walk(fn.node) if isinstance(n, ast.If) and "pool_scope" in ast.unparse(n.test)), None)
    if chain is None or len(chain.orelse) != 1 or not isinstance(chain.orelse[0], ast.If):
        raise AnalysisError(f"{fref}: scope chain not found")
    second = chain.orelse[0]

    def sel(body):
        a = [s for s in body if isinstance(s, ast.Assign) and len(s.targets) == 1 and isinstance(s.targets[0], ast.Name)]
        return (a[0].targets[0].id, ast.unparse(a[0].value)) if len(a) == 1 else (None, None)

    v1, s1 = sel(chain.body)
    v2, s2 = sel(second.body)
    v3, s3 = sel(second.orelse)
    ok = (v1 == v2 == v3 and v1 is not None
          and s1 == "self.started_worker.swarm_id + '.' + self.started_worker.id"
          and s2 == "self.started_worker.swarm_id" and s3 == "''")
    ctx.record(rule, "SIBLING", fref, "result filter per scope: '<swarm>.<worker>' / '<swarm>' / '' (everything)", ok,
               {"per_worker": s1, "per_swarm": s2, "global": s3},
               "" if ok else f"the scope filter of shared_filtered_results changed: per worker {s1!r}, per swarm {s2!r}, global {s3!r}")
    # the filter is applied by containment in the result name, to every shared result
    # (a list-building loop and a comprehension are the same thing after normalisation)
    comps = [c for c in ast.walk(fn.node) if isinstance(c, ast.ListComp)]
    ok2 = False
    if len(comps) == 1 and len(comps[0].generators) == 1 and isinstance(comps[0].generators[0].target, ast.Name) and v1:
        g = comps[0].generators[0]
        r = g.target.id
        it = ast.unparse(g.iter)
        defs = [x for x in ast.walk(fn.node) if isinstance(x, ast.Assign) and ast.unparse(x.targets[0]) == it]
        src = ast.unparse(defs[0].value) if len(defs) == 1 else it
        conds = [ast.unparse(t) for t in g.ifs]
        rets = [x for x in ast.walk(fn.node) if isinstance(x, ast.Return)]
        ok2 = src == "self.shared_results" and conds == [f"{v1} in {r}['name']"] and ast.unparse(comps[0].elt) == r and len(rets) == 1 \
            and (rets[0].value is comps[0] or (isinstance(rets[0].value, ast.Name) and any(isinstance(x, ast.Assign) and x.value is comps[0] and ast.unparse(x.targets[0]) == rets[0].value.id for x in ast.walk(fn.node))))
    ctx.record(rule + "b", "PROV", fref, "filtered results = shared results whose name contains the scope filter", ok2, {},
               "" if ok2 else "shared_filtered_results no longer filters the shared results by the scope identifier")
    for which in ("started", "finished"):
        fr = f"{NODE}:TestNode.is_{which}"
        f2 = ctx.repo.func(fr)
        ctx.touch(fr)
        wname = f2.params()[1]
        ch = next((n for n in ast.walk(f2.node) if isinstance(n, ast.If) and "pool_scope" in ast.unparse(n.test)), None)
        if ch is None or len(ch.orelse) != 1 or not isinstance(ch.orelse[0], ast.If):
            raise AnalysisError(f"{fr}: scope chain not found")
        b1 = [ast.unparse(x) for x in ch.body]
        ok_w = b1 == [f"return {wname} in self.shared_{which}_workers"]
        sec = ch.orelse[0]
        own = [x for x in sec.body if isinstance(x, ast.Assign) and ast.unparse(x.value) == f"{wname}.swarm_id"]
        comps = [x for x in ast.walk(sec) if isinstance(x, ast.SetComp)]
        ok_s = len(own) == 1 and len(comps) == 1
        if ok_s:
            oc = own[0].targets[0].id
            g = comps[0].generators[0]
            ok_s = (ast.unparse(g.iter) == f"self.shared_{which}_workers" and isinstance(g.target, ast.Name)
                    and [ast.unparse(c) for c in g.ifs] == [f"{g.target.id}.swarm_id == {oc}"]
                    and ast.unparse(comps[0].elt) == g.target.id)
        ctx.record(rule + "c", "SIBLING", fr, f"is_{which}: per worker -> worker in shared_{which}_workers; per swarm -> workers with worker's swarm_id",
                   ok_w and ok_s, {"per_worker": b1},
                   "" if ok_w and ok_s else f"the per-worker / per-swarm selection of is_{which} changed")


# ---------------------------------------------------------------------- T.E1
FORBIDDEN_CONCURRENCY = {"threading", "multiprocessing", "concurrent", "_thread"}
FORBIDDEN_CALLS = {"run_in_executor", "to_thread", "Thread", "ThreadPoolExecutor", "ProcessPoolExecutor"}


def t_e1(ctx: Ctx, rule: str) -> None:
    """The traversals share one event loop: no threads or executors in the graph/runner code."""
    hits = []
    mods = [m for m in ctx.repo.trees if m.startswith("cartgraph/") or m == "plugins/runner.py"]
    for rel in mods:
        tree = ctx.repo.trees[rel]
        for node in ast.walk(tree):
            if isinstance(node, ast.Import):
                for a in node.names:
                    if a.name.split(".")[0] in FORBIDDEN_CONCURRENCY:
                        hits.append((rel, node))
            elif isinstance(node, ast.ImportFrom):
                if (node.module or "").split(".")[0] in FORBIDDEN_CONCURRENCY:
                    hits.append((rel, node))
            elif isinstance(node, ast.Call) and call_name(node) in FORBIDDEN_CALLS:
                hits.append((rel, node))
    ctx.record(rule, "OWNER", "cartgraph/*, plugins/runner.py", f"no threads/executors in {len(mods)} modules", not hits,
               {"modules": mods},
               "" if not hits else f"thread/executor use in {hits[0][0]}: {first_line(hits[0][1])}")
    # the workers' traversals are gathered on one loop
    fref = f"{RUNNER}:TestRunner.run_workers"
    fn = ctx.repo.func(fref)
    ctx.touch(fref)
    gathers = [c for c in calls_in(fn.node) if call_name(c) == "gather"]
    ruc = [c for c in calls_in(fn.node) if call_name(c) == "run_until_complete"]
    ok = len(gathers) == 1 and len(ruc) == 1 and any(g is x for g in gathers for x in ast.walk(ruc[0]))
    ctx.record(rule, "OWNER", fref, "run_until_complete(... asyncio.gather(*traversals) ...)", ok, {},
               "" if ok else "the workers' traversals are no longer gathered on a single event loop run")


def PathEnum_raised(view) -> str | None:
    from ..paths import PathEnum

    return PathEnum._raised_name(view.path.exit_node) if view.path.exit == "raise" and view.path.exit_node is not None and isinstance(view.path.exit_node, ast.Raise) else None


def PathEnumName(stmts) -> str | None:
    """Exception type name raised by the first raise statement among `stmts`."""
    from ..paths import PathEnum

    for s in stmts:
        for n in ast.walk(s):
            if isinstance(n, ast.Raise):
                return PathEnum._raised_name(n)
    return None
