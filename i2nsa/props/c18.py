"""C18 — the vm network model stays consistent and its address arithmetic is exact."""

from __future__ import annotations

import ast

from .. import norm
from ..ctx import Ctx
from ..facts import PathView, is_call_named
from ..kinds import expr_formula, function_views, guard_rule, loop_iteration_views, names_interesting, the_loop
from ..paths import PathEnum, first_line
from ..repo import AnalysisError, call_name, calls_in

NET = "vmnet/network.py"
NC = "vmnet/netconfig.py"
VN = f"{NET}:VMNetwork"
VC = f"{NC}:VMNetconfig"

EXPLANATION = (
    "Address arithmetic over runtime values (prefix/netmask conversion, translation offsets, absence of duplicates, subnet "
    "containment) is not decidable statically; only the shape of the formulas is checked. Decided structurally: every "
    "interface of an integrated node is added to exactly one netconfig on every path (an existing one only if "
    "can_add_interface says so, else a fresh one built from it and registered under its network address), add_interface "
    "registers under the interface's ip, sets the back pointer and validates, allocation marks an address before handing it "
    "out and raises on exhaustion, every change of a registered interface's ip is bracketed by de-registration under the old "
    "and re-registration under the new key."
)
DECIDED = [
    "C18.1 integrate_node: exactly one add_interface per interface on every path; fresh netconfig is built from the interface and registered by net_ip",
    "C18.2 add_interface: registry[interface.ip] = interface, back pointer, validate() — in this order on every path",
    "C18.3 get_allocatable_address: first free address is marked before being returned; exhaustion raises IndexError",
    "C18.4 registry key coherence: keyed stores use the interface's ip; an ip change is bracketed by del old key / re-registration",
    "C18.5 can_add_interface: already present -> IndexError; same network with different netmask -> IndexError; else 'same network'",
    "C18.6 netconfig.validate(): host/range inside the subnet, every interface points back, is keyed by its ip and lies in the subnet",
    "C18.7 shape of translate_address (host offset preserved) and of the netmask -> prefix conversion",
]
NOT_DECIDED = ["netmask/prefix conversion exactness", "translation offsets for all subnets", "absence of duplicate addresses", "subnet containment at run time"]
MIN_INSTANCES = 12


def integrate(ctx: Ctx, rule: str) -> None:
    fref = f"{VN}.integrate_node"
    fn = ctx.repo.func(fref)
    loop = the_loop(ctx, fref, ast.For, lambda l: ast.unparse(l.iter).endswith(".interfaces.values()"), "loop over the node's interfaces")
    it = loop.target.id
    views = loop_iteration_views(ctx, fref, loop, names_interesting({"add_interface", "can_add_interface", "new_netconfig", "from_interface", "netconfigs"}))
    problems = []
    n_existing = n_fresh = 0
    for v in views:
        if v.path.exit == "raise":
            continue
        adds = [(i, c) for i, c in v.calls(is_call_named("add_interface"))]
        if len(adds) != 1 or ast.unparse(adds[0][1].args[0]) != it:
            problems.append((f"an interface is added to {len(adds)} netconfigs on one path", v))
            continue
        i, c = adds[0]
        recv = ast.unparse(c.func.value)
        fresh = [k for k, s in v.stmts(lambda s: isinstance(s, ast.Assign) and isinstance(s.value, ast.Call) and call_name(s.value) == "new_netconfig")]
        if fresh and fresh[0] < i:
            n_fresh += 1
            fi = [k for k, cc in v.calls(is_call_named("from_interface")) if ast.unparse(cc.args[0]) == it and ast.unparse(cc.func.value) == recv]
            reg = [k for k, s in v.stmts(lambda s: isinstance(s, ast.Assign) and ast.unparse(s.targets[0]) == f"self.netconfigs[{recv}.net_ip]"
                                        and ast.unparse(s.value) == recv)]
            if not fi or fi[0] > i:
                problems.append(("a fresh netconfig is not configured from the interface before the interface is added", v))
            if not reg:
                problems.append(("a fresh netconfig is not registered under its network address", v))
        else:
            n_existing += 1
            req = v.formula_of(ast.parse(f"{recv}.can_add_interface({it})", mode="eval").body, i)
            if not norm.implies(v.premise(i, 0), req):
                problems.append(("an interface is added to an existing netconfig without can_add_interface agreeing", v))
            if v.path.exit != "fall" or not any(st.kind == "iter" for st in v.steps):
                pass
    ctx.record(rule, "COUNT", fref, "per interface: added to the first netconfig that can take it (then stop), else to a fresh netconfig built from it and registered by net_ip; exactly one add on every path",
               not problems and n_existing >= 1 and n_fresh >= 1, {"paths": len(views), "existing": n_existing, "fresh": n_fresh,
                                                                  **({"path": problems[0][1].path.describe()} if problems else {})},
               "" if not problems and n_existing >= 1 and n_fresh >= 1 else (problems[0][0] if problems else "a branch of integrate_node vanished"))
    inner = [l for l in loop.body if isinstance(l, ast.For)]
    ok = len(inner) == 1 and ast.unparse(inner[0].iter) == "self.netconfigs.values()" and bool(inner[0].orelse)
    if ok:
        ifs = [s for s in inner[0].body if isinstance(s, ast.If)]
        ok = len(ifs) == 1 and isinstance(ifs[0].body[-1], ast.Break)
        if ok:
            nc = ast.unparse(inner[0].target)
            exact = norm.equivalent(norm.formula(ifs[0].test), norm.formula(ast.parse(f"{nc}.can_add_interface({it})", mode="eval").body))
            # a fresh netconfig is registered under its net_ip: if an existing one of that subnet is passed over, it is overwritten in the registry
            ctx.record(rule + "x", "GUARD", fref, "an existing netconfig is passed over only when can_add_interface refuses (the test is exactly can_add_interface, nothing narrower)", exact,
                       {"test": ast.unparse(ifs[0].test)}, "" if exact else f"the test for joining an existing netconfig is no longer exactly can_add_interface ({ast.unparse(ifs[0].test)}): "
                       "an interface of an already registered subnet creates a second netconfig that overwrites the first under the same net_ip key")
    ctx.record(rule + "s", "COUNT", fref, "search over all existing netconfigs with for/else; the add is followed by break", ok, {}, "" if ok else "the search for a fitting netconfig changed shape")
    first = the_loop(ctx, fref, ast.For, lambda l: "objects('nics')" in ast.unparse(l.iter), "loop over the node's nics")
    stores = {ast.unparse(s.targets[0]): ast.unparse(s.value) for s in first.body if isinstance(s, ast.Assign)}
    nic = first.target.id
    ok1 = stores.get(f"node.interfaces[{nic}]") == "new_interface" and stores.get("self.interfaces[ikey]") == "new_interface" \
        and stores.get("self.interfaces[ikey].node") == "node" and stores.get("ikey") == f"'%s.%s' % (node.name, {nic})"
    ctx.record(rule + "n", "PROV", fref, "every nic yields one interface registered on the node (by nic name) and in the network (by '<node>.<nic>') with its node back pointer", ok1,
               {"stores": stores}, "" if ok1 else "an interface is not registered consistently on node and network")


def add_interface(ctx: Ctx, rule: str) -> None:
    fref = f"{VC}.add_interface"
    fn = ctx.repo.func(fref)
    ctx.touch(fref)
    p = fn.params()[1]
    body = [ast.unparse(s) for s in fn.node.body if not (isinstance(s, ast.Expr) and isinstance(s.value, ast.Constant))]
    ok = body == [f"self.interfaces[{p}.ip] = {p}", f"self.interfaces[{p}.ip].netconfig = self", "self.validate()"] or \
        body == [f"self.interfaces[{p}.ip] = {p}", f"{p}.netconfig = self", "self.validate()"]
    ctx.record(rule, "ORDER", fref, "registry[interface.ip] = interface; interface.netconfig = self; self.validate()", ok, {"body": body},
               "" if ok else f"add_interface no longer registers under the interface's ip, points back and validates: {body}")
    f2 = ctx.repo.func(f"{VC}.interfaces")
    rets = [r for r in ast.walk(f2.node) if isinstance(r, ast.Return)]
    ok2 = len(rets) == 1 and ast.unparse(rets[0].value) == "self._interfaces"
    ctx.record(rule + "v", "PROV", f2.ref, "interfaces is the registry itself (one registry per netconfig)", ok2, {}, "" if ok2 else "the interfaces view is not the registry")


def allocation(ctx: Ctx, rule: str) -> None:
    fref = f"{VC}.get_allocatable_address"
    fn = ctx.repo.func(fref)
    ctx.require_locals(fref, ["new_address", "net_ip"])
    loop = the_loop(ctx, fref, ast.For, lambda l: ast.unparse(l.iter) == "self.range", "loop over the address range")
    val = loop.target.id
    views = loop_iteration_views(ctx, fref, loop, None)
    problems = []
    n_take = 0
    for v in views:
        free = v.formula_of(ast.parse(f"self.range[{val}] is False", mode="eval").body, 0)
        conds = norm.conj([v.cond_formula(i) for i, s in enumerate(v.steps) if s.kind == "cond"])
        marks = [s for i, s in v.stmts(lambda s: isinstance(s, ast.Assign) and ast.unparse(s.targets[0]) == f"self.range[{val}]")]
        takes = [s for i, s in v.stmts(lambda s: isinstance(s, ast.Assign) and ast.unparse(s.targets[0]) == "new_address")]
        if norm.implies(conds, free):
            n_take += 1
            if len(marks) != 1 or ast.unparse(marks[0].value) != "True" or len(takes) != 1 or ast.unparse(takes[0].value) != val or v.path.exit != "break":
                problems.append("a free address is not marked as taken before being handed out (or the search goes on)")
        elif norm.implies(conds, norm.neg(free)):
            if marks or takes or v.path.exit == "break":
                problems.append("an address that is not free is handed out")
        else:
            problems.append("allocation does not depend on the address being free")
    ok_else = len(loop.orelse) == 1 and isinstance(loop.orelse[0], ast.Raise) and PathEnum._raised_name(loop.orelse[0]) == "IndexError"
    rets = [r for r in ast.walk(fn.node) if isinstance(r, ast.Return)]
    defs = {ast.unparse(s.targets[0]): ast.unparse(s.value) for s in fn.node.body if isinstance(s, ast.Assign)}
    ok_ret = len(rets) == 1 and ast.unparse(rets[0].value) == "str(ipaddress.IPv4Address(str(net_ip + new_address)))" \
        and defs.get("net_ip") == "ipaddress.IPv4Address(str(self.net_ip))"
    ctx.record(rule, "TABLE", fref, "first free address: marked taken, handed out as net_ip + offset, search stops; none free -> IndexError",
               not problems and n_take == 1 and ok_else and ok_ret, {"paths": len(views)},
               "" if not problems and n_take == 1 and ok_else and ok_ret else (problems[0] if problems else "exhaustion or result construction changed"))
    fi = ctx.repo.func(f"{VC}.from_interface")
    rng = [s for s in ast.walk(fi.node) if isinstance(s, ast.Assign) and ast.unparse(s.targets[0]) == "self._range"]
    okr = len(rng) == 1 and ast.unparse(rng[0].value) == "{i: False for i in range(int(pool_range[0]), int(pool_range[1]) + 1)}"
    ctx.record(rule + "r", "CONST", fi.ref, "the range holds every offset from start to end inclusive, all initially free", okr, {},
               "" if okr else "the allocatable range is no longer start..end inclusive and initially free")


def key_coherence(ctx: Ctx, rule: str) -> None:
    n = 0
    for rel in (NET, NC, "vmnet/interface.py", "vmnet/node.py", "vmnet/tunnel.py"):
        for f in [f for f in ctx.repo.functions.values() if f.module == rel]:
            own_nested = [x.node for x in ctx.repo.functions.values() if x.module == rel and x is not f and x.qualname.startswith(f.qualname + ".<locals>.")]
            for s in ast.walk(f.node):
                if any(any(s is y for y in ast.walk(nn)) for nn in own_nested):
                    continue
                # keyed registry stores
                if isinstance(s, ast.Assign) and len(s.targets) == 1 and isinstance(s.targets[0], ast.Subscript):
                    t = s.targets[0]
                    base = ast.unparse(t.value)
                    if base.endswith(".interfaces") and not base.startswith(("self.interfaces", "node.interfaces")) or base == "self.interfaces" and rel == NC:
                        n += 1
                        ctx.touch(f.ref)
                        ok = ast.unparse(t.slice) == f"{ast.unparse(s.value)}.ip"
                        ctx.record(rule, "PROV", f.ref, first_line(s), ok, {"rule": "netconfig registry key == the registered interface's ip"},
                                   "" if ok else "an interface is registered in a netconfig under a key other than its ip")
    if n < 1:
        raise AnalysisError(f"only {n} keyed netconfig registry stores found")
    # ip changes of interfaces in network.py
    n_ip = 0
    for f in [f for f in ctx.repo.functions.values() if f.module == NET]:
        for block in _blocks(f.node):
            for k, s in enumerate(block):
                if isinstance(s, ast.Assign) and len(s.targets) == 1 and isinstance(s.targets[0], ast.Attribute) and s.targets[0].attr == "ip" \
                        and isinstance(s.targets[0].value, ast.Name):
                    obj = s.targets[0].value.id
                    n_ip += 1
                    ctx.touch(f.ref)
                    before = [ast.unparse(x) for x in block[:k]]
                    after = [ast.unparse(x) for x in block[k + 1:]]
                    dereg = any(b.startswith("del ") and b.endswith(f".interfaces[{obj}.ip]") for b in before)
                    rereg = any(a.endswith(f".add_interface({obj})") or (f".interfaces[{obj}.ip] = {obj}" in a) for a in after)
                    # a later deregistration of the same object before re-registration cancels the earlier re-registration
                    ok = dereg and rereg
                    ctx.record(rule + "c", "PAIR", f.ref, f"{first_line(s)}", ok,
                               {"deregistered_under_old_ip_before": dereg, "registered_under_new_ip_after": rereg},
                               "" if ok else f"the ip of `{obj}` changes while it stays registered under its old address"
                               if not dereg else f"`{obj}` gets a new ip but is not registered in any netconfig under it afterwards")
    if n_ip < 3:
        raise AnalysisError(f"only {n_ip} interface ip changes found in {NET}")


def _blocks(fn: ast.AST):
    for node in ast.walk(fn):
        for fld in ("body", "orelse", "finalbody"):
            b = getattr(node, fld, None)
            if isinstance(b, list) and b and isinstance(b[0], ast.stmt):
                yield b
        if isinstance(node, ast.Try):
            for h in node.handlers:
                yield h.body


def can_add(ctx: Ctx, rule: str) -> None:
    fref = f"{VC}.can_add_interface"
    views = function_views(ctx, fref, None)
    problems = []
    kinds = set()
    for v in views:
        conds = norm.conj([v.cond_formula(i) for i, s in enumerate(v.steps) if s.kind == "cond"])
        has = ("atom", "self.has_interface(interface)")
        same = ("atom", "self._get_network_ip(interface.ip, self.mask_bit) == self.net_ip")
        diffmask = ("not", ("atom", "interface.params['netmask'] == self.netmask"))
        taken = ("atom", "interface.ip in self.interfaces")
        if norm.implies(conds, has):
            kinds.add("present")
            if v.path.exit != "raise" or PathEnum._raised_name(v.path.exit_node) != "IndexError":
                problems.append("an interface already present is not rejected")
        elif norm.implies(conds, norm.conj([same, diffmask])):
            kinds.add("mask")
            if v.path.exit != "raise" or PathEnum._raised_name(v.path.exit_node) != "IndexError":
                problems.append("a same-network interface with a different netmask is not rejected")
        elif norm.implies(conds, norm.conj([same, taken])):
            kinds.add("taken")
            if v.path.exit != "raise" or PathEnum._raised_name(v.path.exit_node) != "IndexError":
                problems.append("an address already registered for another interface is accepted")
        else:
            kinds.add("answer")
            if v.path.exit != "return" or v.formula_of(v.path.exit_node.value, len(v.steps)) != same:
                problems.append("the answer is not 'the interface's network address equals the netconfig's'")
            elif "taken" not in kinds and not any("interface.ip in self.interfaces" in a for a in norm.atoms_of(conds)):
                pass
    # add_interface stores by address: an address that is already a key must be refused, or the second interface silently replaces the first
    # (which keeps pointing at this netconfig without being registered in it)
    has_taken_row = "taken" in kinds
    ctx.record(rule, "TABLE", fref, "already present -> IndexError; same network but other netmask -> IndexError; same network and the address already registered -> IndexError; "
               "else returns (network of interface.ip == net_ip)",
               not problems and kinds >= {"present", "mask", "answer"} and has_taken_row, {"paths": len(views), "rows": sorted(kinds)},
               "" if not problems and kinds >= {"present", "mask", "answer"} and has_taken_row else (
                   problems[0] if problems else ("two interfaces with the same address are accepted into one netconfig: add_interface stores by address, the second replaces the first, "
                                                 "which still points at the netconfig but is no longer registered in it" if not has_taken_row else f"rows found: {sorted(kinds)}")))
    f = ctx.repo.func(f"{VC}.has_interface")
    rets = [r for r in ast.walk(f.node) if isinstance(r, ast.Return)]
    from ..canon import parse_expr

    okh = len(rets) == 1 and norm.equivalent(norm.formula(rets[0].value), norm.formula(parse_expr("interface.ip in self.interfaces.keys() and self.interfaces[interface.ip] == interface")))
    ctx.record(rule + "h", "TABLE", f.ref, "has_interface: key present and the registered object is this interface", okh, {}, "" if okh else "has_interface changed")


def validate_rows(ctx: Ctx, rule: str) -> None:
    fref = f"{VC}.validate"
    fn = ctx.repo.func(fref)
    ctx.touch(fref)
    loops = [l for l in ast.walk(fn.node) if isinstance(l, ast.For)]
    it = [ast.unparse(l.iter) for l in loops]
    ok = len(it) == 2 and it[0] in ("addresses.keys()", "addresses", "addresses.items()") and it[1] == "self.interfaces.values()"
    if ok:
        il = loops[1]
        i = il.target.id
        body = [ast.unparse(s) for s in il.body]
        ok = (f"assert {i}.netconfig == self" in body and f"assert self.interfaces[{i}.ip] == {i}" in body
              and any(b.startswith("if ip not in own.network:") and "raise exceptions.TestError" in b for b in body)
              and any(b.startswith(f"ip = ipaddress.ip_interface('%s/%s' % ({i}.ip, self.mask_bit))") for b in body))
        al = loops[0]
        # every predefined address: by key (addresses[<key>]) or by item (the value variable)
        if isinstance(al.target, ast.Tuple) and len(al.target.elts) == 2 and it[0] == "addresses.items()":
            subject = ast.unparse(al.target.elts[1])
        else:
            subject = f"addresses[{ast.unparse(al.target)}]"
        ok = ok and any(ast.unparse(s).startswith(f"if {subject} not in own.network:") and "raise exceptions.TestError" in ast.unparse(s) for s in al.body)
    own = [s for s in fn.node.body if isinstance(s, ast.Assign) and ast.unparse(s.targets[0]) == "own"]
    ok = ok and len(own) == 1 and ast.unparse(own[0].value) == "ipaddress.ip_interface('%s/%s' % (self.net_ip, self.mask_bit))"
    keys = sorted(ast.unparse(s.targets[0]) for s in ast.walk(fn.node) if isinstance(s, ast.Assign) and ast.unparse(s.targets[0]).startswith("addresses["))
    ok = ok and keys == ["addresses['host']", "addresses['ip_end']", "addresses['ip_start']"]
    ctx.record(rule, "TABLE", fref, "validate: host, range start and end inside the subnet; each interface points back, is keyed by its ip and lies in the subnet", ok,
               {"loops": it, "addresses": keys}, "" if ok else "a consistency check of the netconfig validation was removed or changed")


def arithmetic_shape(ctx: Ctx, rule: str) -> None:
    f = ctx.repo.func(f"{VC}.translate_address")
    defs = {ast.unparse(s.targets[0]): ast.unparse(s.value) for s in f.node.body if isinstance(s, ast.Assign)}
    rets = [r for r in ast.walk(f.node) if isinstance(r, ast.Return)]
    ok = (defs.get("source_ip") == "ipaddress.IPv4Address(ip)"
          and defs.get("source_part") == "int(source_ip) - int(ipaddress.IPv4Address(str(self.net_ip)))"
          # the target prefix: the netconfig's own, or an explicitly given one falling back to it
          and (defs.get("target_iface") == "ipaddress.ip_interface('%s/%s' % (nat_ip, self.mask_bit))"
               or (len(f.params()) >= 4 and defs.get("target_iface") == f"ipaddress.ip_interface('%s/%s' % (nat_ip, {f.params()[3]} or self.mask_bit))"))
          and defs.get("target_part") == "int(target_iface.network.network_address)"
          and defs.get("translated_ip") == "ipaddress.IPv4Address(source_part + target_part)"
          and len(rets) == 1 and ast.unparse(rets[0].value) == "str(translated_ip)")
    ctx.record(rule, "CONST", f.ref, "translate_address = (ip - net_ip) + network address of nat_ip/prefix (host offset preserved)", ok, defs,
               "" if ok else "the address translation formula changed")
    g = ctx.repo.func(f"{VC}.mask_bit")
    src = ast.unparse(g.node)
    ok2 = ("bin(int(octet))[2:].zfill(8)" in src and "len(binary_str.rstrip('0'))" in src
           and "ipaddress.ip_interface('%s/%s' % (self.net_ip, value))" in src and "self.netmask = str(interface.network.netmask)" in src)
    ctx.record(rule + "m", "CONST", g.ref, "netmask -> prefix: length of the 32-bit string without trailing zeros; prefix -> netmask through ipaddress", ok2, {},
               "" if ok2 else "the netmask/prefix conversion changed")
    # the prefix length is a pure function of the netmask: no backing field of its own that could go stale
    reads = {n.attr for n in ast.walk(g.node) if isinstance(n, ast.Attribute) and isinstance(n.value, ast.Name) and n.value.id == "self"
             and isinstance(n.ctx, ast.Load)}
    writes = {n.attr for n in ast.walk(g.node) if isinstance(n, ast.Attribute) and isinstance(n.value, ast.Name) and n.value.id == "self"
              and isinstance(n.ctx, ast.Store)}
    ok4 = reads <= {"netmask", "net_ip"} and writes <= {"netmask"}
    ctx.record(rule + "p", "OWNER", g.ref, "mask_bit is derived from netmask on every read (no stored copy that a netmask change could leave stale)", ok4,
               {"reads": sorted(reads), "writes": sorted(writes)},
               "" if ok4 else f"the prefix length keeps its own state ({sorted((reads | writes) - {'netmask', 'net_ip'})}): netmask and prefix can disagree after a netmask change")
    h = ctx.repo.func(f"{VC}._get_network_ip")
    src = ast.unparse(h.node)
    ok3 = "ipaddress.ip_interface('%s/%s' % (ip, bit))" in src and "return str(interface.network.network_address)" in src
    ctx.record(rule + "n", "CONST", h.ref, "network address of ip/prefix through ipaddress", ok3, {}, "" if ok3 else "the network address computation changed")


def reattach_sequence(ctx: Ctx, rule: str) -> None:
    """Plain reattachment (no proxy nic): leave the old netconfig's registry, take a free address of the target, join the target."""
    fref = f"{VN}.reattach_interface"
    fn = ctx.repo.func(fref)
    ctx.touch(fref)
    body = [s_ for s_ in fn.node.body if not (isinstance(s_, ast.Expr) and isinstance(s_.value, ast.Constant))]
    texts = [ast.unparse(s_) for s_ in body]
    defs = {ast.unparse(s_.targets[0]): ast.unparse(s_.value) for s_ in body if isinstance(s_, ast.Assign) and len(s_.targets) == 1}
    want = ["del interface.netconfig.interfaces[interface.ip]", "interface.ip = netconfig.get_allocatable_address()", "netconfig.add_interface(interface)"]
    pos = [texts.index(w) if w in texts else -1 for w in want]
    proxy_if = [k for k, s_ in enumerate(body) if isinstance(s_, ast.If) and "proxy_interface" in ast.unparse(s_.test)]
    ok = all(p >= 0 for p in pos) and pos == sorted(pos) and all(texts.count(w) == 1 for w in want) and defs.get("netconfig") == "ref_interface.netconfig" \
        and defs.get("interface", "").startswith("self.interfaces[") and "client.name" in defs.get("interface", "") \
        and defs.get("ref_interface", "").startswith("self.interfaces[") and "server.name" in defs.get("ref_interface", "") \
        and (not proxy_if or all(k > pos[2] for k in proxy_if if isinstance(body[k].test, ast.Compare) and "is not None" in ast.unparse(body[k].test)))
    ctx.record(rule, "ORDER", fref, "client interface: removed from its old netconfig under its old ip, then ip = a free address of the server nic's netconfig, then added to that netconfig (once each, in this order)",
               ok, {"positions": pos}, "" if ok else "the reattached interface is no longer moved as 'leave old registry -> allocate in the target -> join the target'")


def optional_not_stored(ctx: Ctx, rule: str) -> None:
    """An optional argument (default None = "keep what is there") is never written into a parameter mapping unguarded.

    change_network_address(netconfig, new_ip, new_mask=None): storing new_mask as the interfaces' netmask parameter when it
    is None erases the netmask (the netconfig keeps it), and the next consistency check between interface and netconfig fails."""
    n_funcs = n_sites = 0
    bad = []
    for f in ctx.repo.all_functions(("vmnet/network.py",)):
        a = f.node.args
        pos = a.posonlyargs + a.args
        opt = {arg.arg for arg, d in zip(pos[len(pos) - len(a.defaults):], a.defaults) if isinstance(d, ast.Constant) and d.value is None}
        opt |= {arg.arg for arg, d in zip(a.kwonlyargs, a.kw_defaults) if isinstance(d, ast.Constant) and d.value is None}
        if not opt:
            continue
        stores = [s_ for s_ in ast.walk(f.node) if isinstance(s_, ast.Assign) and isinstance(s_.value, ast.Name) and s_.value.id in opt
                  and any(isinstance(t, ast.Subscript) and "params" in ast.unparse(t.value) for t in s_.targets)]
        if not stores:
            continue
        n_funcs += 1
        ctx.touch(f.ref)
        views = function_views(ctx, f.ref, lambda n_: isinstance(n_, ast.Subscript) and isinstance(n_.ctx, ast.Store))
        for st in stores:
            n_sites += 1
            name = st.value.id
            for v in views:
                for i, node in v.stmts(lambda s_: s_ is st):
                    if not norm.implies(v.premise(i, 0), norm.neg(("atom", f"{name} is None"))):
                        bad.append((f.ref, ast.unparse(st)))
    bad = sorted(set(bad))
    if n_sites < 1:
        raise AnalysisError("no store of an optional argument into a parameter mapping found in vmnet/network.py")
    ctx.record(rule, "GUARD", "vmnet/network.py", f"stores of an optional (default None) argument into a params mapping are guarded by `is not None` ({n_sites} sites in {n_funcs} functions)", not bad,
               {"unguarded": bad}, "" if not bad else f"{bad[0][0]}: `{bad[0][1]}` also runs when the argument is None (= keep): the parameter is erased while the netconfig keeps its value")


def renumbering(ctx: Ctx, rule: str) -> None:
    """change_network_address rebuilds the netconfig from a copy of an old interface's parameters: every address the netconfig derives from
    them and validates against the (new) subnet must be moved along, and a sentinel that is not an address must not be."""
    NETF = "vmnet/network.py:VMNetwork.change_network_address"
    fn = ctx.repo.func(NETF)
    ctx.touch(NETF)
    fi = ctx.repo.func(f"{VC}.from_interface")
    ctx.touch(fi.ref)
    # what from_interface reads from the interface parameters, with defaults
    reads = {}
    for c in calls_in(fi.node):
        if call_name(c) == "get" and ast.unparse(c.func.value) == "interface.params" and c.args and isinstance(c.args[0], ast.Constant):
            reads[c.args[0].value] = ast.unparse(c.args[1]) if len(c.args) > 1 else None
    fv = ctx.repo.func(f"{VC}.validate")
    validated = "host_ip" in ast.unparse(fv.node)
    from ..facts import dict_writes

    written = {}
    for k, v_, site in dict_writes(fn.node, "nic_params"):
        if isinstance(k, ast.Constant):
            written.setdefault(k.value, []).append(v_)
    need = [k for k in ("ip", "ip_provider") + (("host",) if "host" in reads and validated else ())]
    missing = [k for k in need if k not in written]
    ctx.record(rule, "PROV", NETF, f"the rebuilt interface parameters move every address the netconfig takes from them ({', '.join(need)}) into the new network",
               not missing and len(need) == 3, {"from_interface_reads": sorted(reads), "rewritten": sorted(written)},
               "" if not missing and len(need) == 3 else f"change_network_address leaves {missing} of the copied interface parameters in the old network: from_interface() re-reads it and validate() "
               "raises (after the netconfig was already unregistered and its interfaces moved)")
    # the default of the gateway is a sentinel, not a host of the network
    sentinel = reads.get("ip_provider")
    why = ""
    if sentinel is None:
        why = "from_interface no longer has a default for ip_provider"
    else:
        views = function_views(ctx, NETF, names_interesting({"translate_address", "gateway", "nic_params"}))
        n = 0
        for v in views:
            for i, c in v.calls(lambda c: call_name(c) == "translate_address" and c.args and "gateway" in ast.unparse(c.args[0])):
                n += 1
                prem = v.premise(i, 0, inner=c)
                if not norm.implies(prem, norm.neg(("atom", f"netconfig.gateway == {sentinel}"))):
                    why = (f"the gateway is translated like a host address also when it is the default {sentinel} (= no gateway): the netconfig gets a gateway such as 0.2.0.0, "
                           "or the translation fails for a numerically lower network")
        if n == 0 and not why:
            why = "the gateway is not translated at all"
    ctx.record(rule + "g", "GUARD", NETF, f"the gateway is translated only if it is not the 'no gateway' default {sentinel}", not why, {}, why)
    # a new netmask changes where the host part starts: the addresses must be translated with the NEW prefix
    ft = ctx.repo.func(f"{VC}.translate_address")
    ctx.touch(ft.ref)
    takes_mask = len(ft.params()) >= 4
    tcalls = [c for c in calls_in(fn.node) if call_name(c) == "translate_address"]
    pass_mask = bool(tcalls) and all(any("new_mask" in ast.unparse(a) for a in list(c.args[2:]) + [k.value for k in c.keywords]) for c in tcalls)
    # or: the new mask is installed in the netconfig before anything is translated
    first_t = min((c.lineno for c in tcalls), default=0)
    early = any(isinstance(s_, ast.Assign) and "netmask" in ast.unparse(s_.targets[0]) and "netconfig" in ast.unparse(s_.targets[0]) and s_.lineno < first_t for s_ in ast.walk(fn.node))
    okm = (takes_mask and pass_mask) or early
    ctx.record(rule + "m", "PROV", NETF, "with a new netmask the interface, gateway and host addresses are translated with the new prefix", okm,
               {"translate_calls": [ast.unparse(c)[:80] for c in tcalls]},
               "" if okm else "translate_address always uses the netconfig's current prefix and is called before new_mask is applied: /16 -> 192.168.5.1/24 puts host offset 1 at "
               "192.168.0.1 and validate() raises (interface not in the netconfig 192.168.5.0)")


def run(ctx: Ctx) -> None:
    ctx.call(optional_not_stored, "8")
    ctx.call(renumbering, "9")
    ctx.call(reattach_sequence, "4o")
    ctx.call(integrate, "1")
    ctx.call(add_interface, "2")
    ctx.call(allocation, "3")
    ctx.call(key_coherence, "4")
    ctx.call(can_add, "5")
    ctx.call(validate_rows, "6")
    ctx.call(arithmetic_shape, "7")


MUTANTS = [
    ("duplicate-address-accepted", "vmnet/netconfig.py", "        if interface_net_ip == self.net_ip and interface.ip in self.interfaces.keys():\n            raise IndexError(", "        if False:\n            raise IndexError(", "5"),
    ("host-left-behind", "vmnet/network.py", "            nic_params[\"host\"] = netconfig.translate_address(netconfig.host_ip, new_ip)\n", "            pass\n", "9"),
    ("no-gateway-translated", "vmnet/network.py", "        if netconfig.gateway != \"0.0.0.0\":\n            nic_params[\"ip_provider\"]", "        if True:\n            nic_params[\"ip_provider\"]", "9g"),
    ("reattach-keeps-old-address", "vmnet/network.py", "        interface.ip = netconfig.get_allocatable_address()\n        netconfig.add_interface(interface)", "        netconfig.add_interface(interface)", "4o"),
    ("reattach-joins-before-leaving", "vmnet/network.py", "        del interface.netconfig.interfaces[interface.ip]\n        # attach to the new network - with validation and proper attribute update\n        interface.ip = netconfig.get_allocatable_address()\n        netconfig.add_interface(interface)",
     "        interface.ip = netconfig.get_allocatable_address()\n        netconfig.add_interface(interface)\n        del interface.netconfig.interfaces[interface.ip]", "4"),
    ("optional-mask-stored-unguarded", "vmnet/network.py", "            interface.params[\"netmask\"] = netconfig.netmask", "            interface.params[\"netmask\"] = new_mask", "8"),
    ("join-only-same-bridge", "vmnet/network.py", "                if netconfig.can_add_interface(interface):", "                if netconfig.can_add_interface(interface) and interface.params.get(\"netdst\") == netconfig.netdst:", "x"),
    ("add-without-break", NET, "                    netconfig.add_interface(interface)\n                    break\n            else:", "                    netconfig.add_interface(interface)\n            else:", "1"),
    ("fresh-not-registered", NET, "                netconfig.add_interface(interface)\n                self.netconfigs[netconfig.net_ip] = netconfig", "                netconfig.add_interface(interface)", "1"),
    ("add-without-validate", NC, "        self.interfaces[interface.ip].netconfig = self\n        self.validate()", "        self.interfaces[interface.ip].netconfig = self", "2"),
    ("no-back-pointer", NC, "        self.interfaces[interface.ip] = interface\n        self.interfaces[interface.ip].netconfig = self\n", "        self.interfaces[interface.ip] = interface\n", "2"),
    ("allocation-not-marked", NC, "                self.range[val] = True\n                new_address = val", "                new_address = val", "3"),
    ("exhaustion-wraps", NC, "            raise IndexError(\"IP address range (%d) exhausted.\" % len(self.range))", "            new_address = min(self.range)", "3"),
    ("change-address-stale-key", NET, "            del netconfig.interfaces[interface.ip]\n            interface.ip = netconfig.translate_address(interface.ip, new_ip)\n            netconfig.interfaces[interface.ip] = interface",
     "            interface.ip = netconfig.translate_address(interface.ip, new_ip)", "4c"),
    ("reattach-keeps-old-registration", NET, "        # detach from the current network\n        del interface.netconfig.interfaces[interface.ip]\n", "        # detach from the current network\n", "4c"),
    ("present-interface-accepted", NC, "        if self.has_interface(interface):\n            raise IndexError(\n                \"Interface %s already present in the \"\n                \"network %s\" % (interface.ip, self.net_ip)\n            )\n", "", "5"),
    ("interfaces-not-validated", NC, "            assert self.interfaces[interface.ip] == interface\n", "", "6"),
    ("translate-drops-offset", NC, "        translated_ip = ipaddress.IPv4Address(source_part + target_part)", "        translated_ip = ipaddress.IPv4Address(target_part)", "7"),
    ("memoised-prefix", NC, "            if self.netmask is None:\n                return None\n            netmask = self.netmask.split(\".\")", "            if getattr(self, \"_mask_bit\", None) is not None:\n                return self._mask_bit\n            if self.netmask is None:\n                return None\n            netmask = self.netmask.split(\".\")", "7p"),
    ("range-end-exclusive", NC, "i: False for i in range(int(pool_range[0]), int(pool_range[1]) + 1)", "i: False for i in range(int(pool_range[0]), int(pool_range[1]))", "3r"),
]
