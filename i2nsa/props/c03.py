"""C03 — no test is executed more often than its retry budget per reuse scope."""

from __future__ import annotations

import ast

from .. import norm
from ..ctx import Ctx
from ..facts import is_call_named
from ..kinds import call_sites, function_views, names_interesting, owner_rule
from ..paths import first_line
from ..repo import call_name, calls_in
from . import nodetables as N
from . import traversal as T

EXPLANATION = (
    "Counting executions over schedules is out of reach; decided are the structural conditions that make the count "
    "bounded: the window from the positive run decision to the UNKNOWN placeholder contains no suspension point, the "
    "result list has a closed set of writers and never loses its last entry, the retry budget table counts in-flight "
    "entries, the three scope discriminations agree, flat/clone nodes are never run, run entry points have a closed "
    "set of callers."
)
DECIDED = [
    "C03.1 decision -> placeholder window without suspension (T.A2); placeholder list aliases the decided node's results (T.A2b)",
    "C03.2 results ownership; final result appended before the placeholder is removed (T.R1)",
    "C03.3 scope trichotomy agreement (T.S1)",
    "C03.4 single event loop (T.E1)",
    "C03.5 callers of run_test_node / run_test_task / traverse_terminal_node",
    "C03.6 should_rerun budget table (in-flight UNKNOWN entries are counted)",
    "C03.7 flat / clone-source rows; run_test_node raises on a flat node before anything else",
    "C03.8 'found present => not run': row of the run decision table; no run call outside the should_run guard (T.O1)",
    "C03.10 writers of started_worker / finished_worker (a reset 'finished' marker makes another worker scan and run again)",
    "C03.11 re-entrancy into an occupied test only after the per-node waiting budget is exhausted",
    "C03.12 shared_results / shared_started_workers / shared_finished_workers aggregate the node and all its bridged copies, unfiltered",
]
NOT_DECIDED = ["execution counts over real schedules", "retries combined with the two-step object creation (see known finding F6)"]
MIN_INSTANCES = 30


def run_callers(ctx: Ctx, rule: str) -> None:
    owner_rule(ctx, rule, "call of run_test_node", [(f, c, "call") for f, c in call_sites(ctx.repo, "run_test_node")],
               {T.TN: "under should_run", T.TTN: "the two creation steps"}, 3)
    owner_rule(ctx, rule, "call of run_test_task", [(f, c, "call") for f, c in call_sites(ctx.repo, "run_test_task")],
               {T.RTN: "after the placeholder"}, 1)
    owner_rule(ctx, rule, "call of traverse_terminal_node", [(f, c, "call") for f, c in call_sites(ctx.repo, "traverse_terminal_node")],
               {T.TN: "under should_run"}, 1)
    owner_rule(ctx, rule, "call of traverse_node", [(f, c, "call") for f, c in call_sites(ctx.repo, "traverse_node")],
               {T.TOT: "under is_setup_ready"}, 2)


def flat_raise_first(ctx: Ctx, rule: str) -> None:
    views = function_views(ctx, T.RTN, names_interesting({"results", "run_test_task", "is_flat", "prefix"}), roles=["node", "status_timeout"])
    bad = None
    n = 0
    for v in views:
        flat = ("atom", "node.is_flat()")
        first_cond = next((i for i, s in enumerate(v.steps) if s.kind == "cond"), None)
        if first_cond is None:
            bad = v
            continue
        f = v.cond_formula(first_cond)
        if f == flat:
            n += 1
            if not (v.path.exit == "raise" and not [s for s in v.steps[:first_cond] if s.kind == "stmt"]):
                bad = v
        elif f == ("not", flat):
            if any(s.kind == "stmt" for s in v.steps[:first_cond]):
                bad = v
        else:
            bad = v
    ctx.record(rule, "ORDER", T.RTN, "run_test_node raises on a flat node before the placeholder and before any task is started",
               bad is None and n >= 1, {}, "" if bad is None and n >= 1 else "run_test_node no longer refuses flat nodes up front")


def run(ctx: Ctx) -> None:
    from .c04 import is_occupied_rule

    ctx.call(is_occupied_rule, "13")
    from .c01 import scan_coverage_rule

    ctx.call(scan_coverage_rule, "13s")
    ctx.call(T.t_a2, "1/T.A2")
    ctx.call(T.t_a2b, "1b/T.A2b")
    ctx.call(T.t_r1, "2/T.R1")
    ctx.call(T.t_s1, "3/T.S1")
    ctx.call(T.t_s1c, "3c/T.S1c")
    ctx.call(T.t_e1, "4/T.E1")
    ctx.call(run_callers, "5")
    from ..kinds import signature_defaults

    ctx.call(signature_defaults, "9", {
        "cartgraph/node.py:TestNode.is_started": {"worker": "None", "threshold": "1"},
        "cartgraph/node.py:TestNode.is_finished": {"worker": "None", "threshold": "1"},
        "cartgraph/node.py:TestNode.should_rerun": {"worker": "None"},
        "cartgraph/node.py:TestNode.get_stateful_objects": {"do": "'set'"},
    }, "scope-relative run decisions")
    ctx.call(N.should_rerun_table, "6")
    ctx.call(N.run_decision_table, "7")
    ctx.call(flat_raise_first, "7b")
    ctx.call(T.t_o1, "8/T.O1")
    ctx.call(T.t_p1, "8b/T.P1")
    from .c04 import reentrancy_rule

    ctx.call(T.t_a1_owner, "10")
    ctx.call(reentrancy_rule, "11")
    from . import atoms as A

    ctx.call(A.definitions, "12", only=('shared_results','shared_started_workers','shared_finished_workers','is_flat'))
    ctx.call(A.involved_workers, "12i")
    ctx.call(A.fresh_state, "12f")
    from . import graphrules as GR3

    # results and occupation are shared through DIRECT bridges only: every place creating nodes must bridge all pairs
    ctx.call(GR3.bridging_sites, "14")


G = "cartgraph/graph.py"
NODE = "cartgraph/node.py"
R = "plugins/runner.py"
MUTANTS = [
    ("scan-own-pool-only", "cartgraph/node.py", "            node_params[f\"soft_boot{object_suffix}\"] = \"no\"\n\n        if not is_leaf:", "            node_params[f\"soft_boot{object_suffix}\"] = \"no\"\n            node_params[f\"pool_scope{object_suffix}\"] = \"own\"\n\n        if not is_leaf:", "13s"),
    ("rerun-scope-of-deciding-worker", "cartgraph/node.py", "            self.started_worker = old_started_worker or worker", "            self.started_worker = worker", "sc"),
    ("rerun-marker-not-restored", "cartgraph/node.py", "            test_statuses = [r[\"status\"].lower() for r in self.shared_filtered_results]\n            self.started_worker = old_started_worker\n", "            test_statuses = [r[\"status\"].lower() for r in self.shared_filtered_results]\n", "sc"),
    ("reservation-never-removed", "cartgraph/graph.py", "        try:\n            status = await self.runner.run_test_node(pre_node)\n        finally:\n            # the second step will immediately add its own entry before any other worker is scheduled\n            test_node.results.remove(pending_result)",
     "        status = await self.runner.run_test_node(pre_node)", "T.A2b"),
    ("await-before-placeholder", R, "        node_result = {\"name\": name, \"status\": \"UNKNOWN\"}\n        node.results += [node_result]\n        await self.run_test_task(node)",
     "        await asyncio.sleep(0)\n        node_result = {\"name\": name, \"status\": \"UNKNOWN\"}\n        node.results += [node_result]\n        await self.run_test_task(node)", "1/T.A2"),
    ("placeholder-after-task", R, "        node.results += [node_result]\n        await self.run_test_task(node)", "        await self.run_test_task(node)\n        node.results += [node_result]", "1/T.A2"),
    ("sleep-after-decision", G, "            else:\n                # finally, good old running of an actual test\n                logging.info(",
     "            else:\n                await asyncio.sleep(0)\n                logging.info(", "1/T.A2"),
    ("remove-before-append", R, "                node.results += [job_result]\n                node.results.remove(node_result)", "                node.results.remove(node_result)\n                node.results += [job_result]", "2/T.R1"),
    ("results-cleared-elsewhere", NODE, "        self.prefix = \"0\" + self.prefix\n", "        self.prefix = \"0\" + self.prefix\n        self.results = []\n", "2/T.R1"),
    ("is-finished-scope-drift", NODE, "            own_cluster_finished_hosts = {\n                w for w in self.shared_finished_workers if w.swarm_id == own_cluster\n            }",
     "            own_cluster_finished_hosts = {\n                w for w in self.shared_finished_workers\n            }", "3/T.S1"),
    ("thread-in-runner", R, "import asyncio\n", "import asyncio\nimport threading\n", "4/T.E1"),
    ("unguarded-extra-run", G, "        test_node.finished_worker = worker\n        test_node.started_worker = None\n\n    async def reverse_node",
     "        if test_node.params.get(\"force_run\"):\n            await self.runner.run_test_node(test_node)\n        test_node.finished_worker = worker\n        test_node.started_worker = None\n\n    async def reverse_node", "1/T.A2"),
    ("one-means-unlimited", NODE, "reruns_left = 0 if max_tries == 1 else max_tries - total_runs", "reruns_left = 0 if max_tries == 0 else max_tries - total_runs", "6"),
    ("cloned-runs", NODE, "        elif len(self.cloned_nodes) > 0:\n            logging.debug(f\"Should not run a cloned node {self}\")\n            return False\n", "", "7"),
    ("P-placeholder-append", R, "        node.results += [node_result]\n        await self.run_test_task(node)", "        node.results.append(node_result)\n        await self.run_test_task(node)", None),
    ("P-log-before-task", R, "        node.results += [node_result]\n        await self.run_test_task(node)", "        node.results += [node_result]\n        logging.debug('starting')\n        await self.run_test_task(node)", None),
]
