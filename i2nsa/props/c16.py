"""C16 — name lookups and visit counters are exact."""

from __future__ import annotations

import ast
import re
import copy

from .. import norm
from ..ctx import Ctx
from ..facts import PathView
from ..kinds import call_sites, function_views, loop_iteration_views, owner_rule, attribute_stores
from ..paths import first_line
from ..repo import AnalysisError, call_name, calls_in
from . import graphrules as GR

NODE = "cartgraph/node.py"
ER = f"{NODE}:EdgeRegister"
PT = f"{NODE}:PrefixTree"
PTN = f"{NODE}:PrefixTreeNode"

EXPLANATION = (
    "That a lookup returns exactly the names containing the query contiguously for every name set needs a model of the "
    "trie and is not decided. Decided: the visit register's writer and both readers address the same cell "
    "(node.bridged_form, worker.id), the writer adds exactly one per visit, cells start at zero; registers are shared "
    "among bridged nodes and never copied; the trie is purely additive, every created trie node is registered under its "
    "variant, every inserted name marks its end node from every start node; membership and lookup walk the trie "
    "identically and differ only in the terminal action; get_nodes_by_name returns the lookup unfiltered."
)
DECIDED = [
    "C16.1 EdgeRegister: writer and readers use the same (bridged_form, worker.id) cell; +1 per registration; zero initialisation",
    "C16.2 registers are aliased among bridged nodes, never copied (C09.1)",
    "C16.3 additive trie: nodes are created only in insert, every created node is indexed by its variant, nothing is ever removed",
    "C16.4 __contains__ and get share start set and descent and differ only in the terminal action",
    "C16.5 get_nodes_by_name returns nodes_index.get(name) unfiltered (or its unique element)",
    "C16.6 trie node primitives (check/get/set child, traversal yields the node and all descendants)",
    "C16.7 every visit registration goes to the register its name says, for (node, worker); registers start empty and are per node",
    "C16.8 graph-level lookups: get_nodes/get_objects and the *_by_restr pair agree; unique = exactly one; get_nodes_by_name = the index lookup",
    "C16.2g register sharing is transitive over bridges; C16.2s bridging sites and direction (the fresh node adopts the registers)",
]
NOT_DECIDED = ["exactness of get() for all name sets and queries (data-structure correctness needs a model)"]
MIN_INSTANCES = 14


def register_cells(ctx: Ctx, rule: str) -> None:
    fref = f"{ER}.register"
    fn = ctx.repo.func(fref)
    ctx.require_locals(f"{ER}.get_workers", ["node_keys", "worker_keys"])
    ctx.require_locals(f"{ER}.get_counters", ["node_keys", "worker_keys", "counter"])
    nd, wk = fn.params()[1], fn.params()[2]
    cell = f"self._registry[{nd}.bridged_form][{wk}.id]"
    views = function_views(ctx, fref, None)
    problems = []
    for v in views:
        if v.path.exit == "raise":
            problems.append("register can raise")
            continue
        # locals naming a pure attribute chain (node_key = node.bridged_form) are substituted, their definitions are not stores of the register
        stmts = [(i, s) for i, s in v.stmts() if not (isinstance(s, ast.Assign) and len(s.targets) == 1 and isinstance(s.targets[0], ast.Name)
                                                       and all(isinstance(x, (ast.Attribute, ast.Name, ast.Load)) for x in ast.walk(s.value)))]

        def sub(node, i):
            return ast.unparse(v.canon(copy.deepcopy(node), i))

        incs = [(i, s) for i, s in stmts if isinstance(s, ast.AugAssign)]
        if len(incs) != 1 or sub(incs[0][1].target, incs[0][0]) != cell or not isinstance(incs[0][1].op, ast.Add) or ast.unparse(incs[0][1].value) != "1" \
                or incs[0][0] != stmts[-1][0]:
            problems.append(f"a registration does not end with `{cell} += 1`")
        for i, s in stmts:
            if isinstance(s, ast.Assign):
                t, val = sub(s.targets[0], i), ast.unparse(s.value)
                prem = v.premise(i, 0)
                if t == f"self._registry[{nd}.bridged_form]" and val == "{}":
                    if not norm.implies(prem, ("not", ("atom", f"{nd}.bridged_form in self._registry"))):
                        problems.append("the per-node dictionary is reset although it exists")
                elif t == cell and val == "0":
                    if not norm.implies(prem, ("not", ("atom", f"{wk}.id in self._registry[{nd}.bridged_form]"))):
                        problems.append("a counter is reset to zero although it exists")
                else:
                    problems.append(f"unexpected store in register: {first_line(s)}")
    ok_table = not problems and len(views) == 4
    if not ok_table:
        # the same table written with dict.setdefault: cells are created only when absent by construction
        from ..canon import inline_locals

        fi = inline_locals(fn.node)
        body = [s_ for s_ in fi.body if not (isinstance(s_, ast.Expr) and isinstance(s_.value, ast.Constant))]
        texts = [ast.unparse(s_) for s_ in body]
        if len(body) == 3 and isinstance(body[0], ast.Assign) and isinstance(body[0].targets[0], ast.Name):
            x = body[0].targets[0].id
            ok_table = texts == [f"{x} = self._registry.setdefault({nd}.bridged_form, {{}})", f"{x}.setdefault({wk}.id, 0)", f"{x}[{wk}.id] += 1"]
            if ok_table:
                problems = []
    ctx.record(rule, "TABLE", fref, f"register: missing cells are created ({{}} / 0) only when absent; every call ends with {cell} += 1", ok_table,
               {"paths": len(views)}, "" if ok_table else (problems[0] if problems else "unexpected number of paths"))
    # readers
    for name, elem in (("get_workers", None), ("get_counters", None)):
        fr = f"{ER}.{name}"
        f = ctx.repo.func(fr)
        ctx.touch(fr)
        n_ = f.params()[1]
        defs = {}
        for s in ast.walk(f.node):
            if isinstance(s, ast.Assign) and len(s.targets) == 1:
                defs.setdefault(ast.unparse(s.targets[0]), []).append(ast.unparse(s.value))
        ok = defs.get("node_keys") == [f"[{n_}.bridged_form] if {n_} else self._registry.keys()"]
        loops = [l for l in ast.walk(f.node) if isinstance(l, ast.For)]
        rets = [r for r in ast.walk(f.node) if isinstance(r, ast.Return)]
        from .. import semtab

        body = semtab.strip(f.node.body)
        top = [l for l in body if isinstance(l, ast.For)]
        if name == "get_workers":
            why = ""
            if len(top) != 1 or ast.unparse(top[0].iter) != "node_keys" or not isinstance(top[0].target, ast.Name):
                why = "not one loop over node_keys"
            else:
                got = semtab.split_gets(semtab.block_table(top[0].body, ("worker_keys",), {top[0].target.id: "NK"}))
                want = semtab.split_gets(semtab.reference_table("worker_keys |= {*self._registry.get(NK, {}).keys()}", ("worker_keys",)))
                why = semtab.mismatch(got, want) or ""
            ok = ok and not why and defs.get("worker_keys") == ["set()"] and len(rets) == 1 and ast.unparse(rets[0].value) == "worker_keys"
            what = "get_workers(node) = keys of the node's cell dictionary (all nodes if none given)"
        else:
            w_ = f.params()[2]
            why = ""
            if len(top) != 1 or ast.unparse(top[0].iter) != "node_keys" or not isinstance(top[0].target, ast.Name):
                why = "not one loop over node_keys"
            else:
                # which worker cells of a node are summed: the outer loop body as a table (locals substituted, inner loop / sum() alike)
                ren = {top[0].target.id: "NK", w_: "WORKER"}
                got = semtab.split_gets(semtab.block_table(top[0].body, ("counter",), ren))
                want = semtab.split_gets(semtab.reference_table("""
                    worker_keys = [WORKER.id] if WORKER else self._registry.get(NK, {}).keys()
                    counter += sum(self._registry.get(NK, {}).get(worker_key, 0) for worker_key in worker_keys)
                """, ("counter",)))
                # the reference is a fragment: give it the numeric accumulator context the normaliser needs
                why = semtab.mismatch(got, want) or ""
            ok = ok and not why and defs.get("counter") == ["0"] and len(rets) == 1 and ast.unparse(rets[0].value) == "counter"
            what = "get_counters(node, worker) = sum of the addressed cells (missing cells count 0)"
        no_exit = not any(isinstance(x, (ast.Break, ast.Continue)) for x in ast.walk(f.node))
        ctx.record(rule + "r", "SIBLING", fr, what + "; same keys as the writer: node.bridged_form, worker.id", ok and no_exit, {k: defs.get(k) for k in ("node_keys", "worker_keys")},
                   "" if ok and no_exit else f"{name} no longer reads the cells that register writes")
    found = list(attribute_stores(ctx.repo, "_registry", ("cartgraph/", "plugins/", "intertest_setup.py")))
    owner_rule(ctx, rule + "o", "write to EdgeRegister._registry", found, {f"{ER}.__init__": "empty", fref: "registration"}, 2)


def additive_trie(ctx: Ctx, rule: str) -> None:
    ctor = [(f, c, "call") for f, c in call_sites(ctx.repo, "PrefixTreeNode", ("cartgraph/", "plugins/", "intertest_setup.py"))]
    owner_rule(ctx, rule, "PrefixTreeNode construction", ctor, {f"{PT}.insert": "creation on insert"}, 2)
    removers = [(f, c, "call") for f, c in call_sites(ctx.repo, "unset_child")]
    ctx.record(rule + "u", "OWNER", "avocado_i2n", "unset_child has no caller (the trie is purely additive)", not removers, {},
               "" if not removers else f"trie nodes can be removed: {first_line(removers[0][1])}")
    dels = [n for n in ast.walk(ctx.repo.module(NODE)) if isinstance(n, ast.Delete) and "variant_nodes" in ast.unparse(n)]
    muts = [(f, n, how) for f, n, how in attribute_stores(ctx.repo, "variant_nodes", ("cartgraph/", "plugins/", "intertest_setup.py"))
            if (how.startswith("mutator") and not any(how.endswith(a) for a in ("append", "extend", "insert", "setdefault", "update", "add"))) or "delete" in how]
    ctx.record(rule + "d", "OWNER", NODE, "variant_nodes is never shrunk", not dels and not muts, {}, "" if not dels and not muts else "the variant index of the trie can lose entries")
    found = list(attribute_stores(ctx.repo, "variant_nodes", ("cartgraph/", "plugins/", "intertest_setup.py")))
    owner_rule(ctx, rule + "o", "write to PrefixTree.variant_nodes", found, {f"{PT}.__init__": "empty", f"{PT}.insert": "registration"}, 3)
    # insert: every created node is registered under its variant; every start node gets the end marker
    fref = f"{PT}.insert"
    fn = ctx.repo.func(fref)
    ctx.touch(fref)
    # a local naming `variants[0]` (or similar) is that expression
    from ..canon import inline_locals

    inl = inline_locals(fn.node, keep={"variants", "new_child"})
    outer = [l for l in fn.node.body if isinstance(l, ast.For)]
    outer_i = [l for l in inl.body if isinstance(l, ast.For)]
    ok = len(outer) == 1 and len(outer_i) == 1 and ast.unparse(outer_i[0].iter) == "self.variant_nodes[variants[0]]"
    detail = {}
    if ok:
        o = outer[0]
        cur = o.target.id
        inner = [l for l in o.body if isinstance(l, ast.For)]
        ok = len(inner) == 1 and ast.unparse(inner[0].iter) == "variants[1:]" and not inner[0].orelse
        if ok:
            var = inner[0].target.id
            views = loop_iteration_views(ctx, fref, inner[0], None)
            for v in views:
                prem = v.premise(len(v.steps), 0)
                has = ("atom", f"{cur}.check_child({var})")
                created = [s for i, s in v.stmts(lambda s: isinstance(s, ast.Assign) and isinstance(s.value, ast.Call) and call_name(s.value) == "PrefixTreeNode")]
                sets = [c for i, c in v.calls(lambda c: call_name(c) == "set_child")]
                regs = [s.value for i, s in v.stmts(lambda s: isinstance(s, ast.Expr) and isinstance(s.value, ast.Call) and call_name(s.value) == "append"
                                                    and ast.unparse(s.value.func.value) == f"self.variant_nodes[{var}]")]
                steps_cur = [s for i, s in v.stmts(lambda s: isinstance(s, ast.Assign) and ast.unparse(s.targets[0]) == cur)]
                conds = norm.conj([v.cond_formula(i) for i, s in enumerate(v.steps) if s.kind == "cond"])
                if v.path.exit not in ("fall", "continue"):
                    ok = False
                # a plain store to the variant's index entry replaces what was registered before: allowed only where the variant is not indexed yet
                known = ("atom", f"{var} in self.variant_nodes")
                for i, s in v.stmts(lambda s: isinstance(s, ast.Assign) and ast.unparse(s.targets[0]) == f"self.variant_nodes[{var}]"):
                    before = norm.conj([v.cond_formula(j) for j, st in enumerate(v.steps[:i]) if st.kind == "cond"])
                    if not norm.implies(before, norm.neg(known)):
                        ok = False
                        detail["index_entry_reset"] = first_line(s)
                if norm.implies(conds, norm.neg(has)):
                    if not (len(created) == 1 and ast.unparse(created[0].value) == f"PrefixTreeNode({var})" and len(sets) == 1
                            and [ast.unparse(a) for a in sets[0].args] == [var, created[0].targets[0].id] and ast.unparse(sets[0].func.value) == cur
                            and len(regs) == 1 and [ast.unparse(a) for a in regs[0].args] == [created[0].targets[0].id]):
                        ok = False
                        detail["bad_create_path"] = v.path.describe()
                elif norm.implies(conds, has):
                    if created or sets or regs:
                        ok = False
                else:
                    ok = False
                if len(steps_cur) != 1 or ast.unparse(steps_cur[0].value) != f"{cur}.get_child({var})":
                    ok = False
            tail = [s for s in o.body if s is not inner[0]]
            ok = ok and len(tail) == 1 and ast.unparse(tail[0]) == f"{cur}.end_test_node = {fn.params()[1]}" and o.body.index(tail[0]) > o.body.index(inner[0])
    first = [s for s in inl.body if isinstance(s, ast.If)]
    ok_first = len(first) == 1 and norm.formula(first[0].test) in (("not", ("atom", "variants[0] in self.variant_nodes.keys()")), ("not", ("atom", "variants[0] in self.variant_nodes"))) \
        and [ast.unparse(x) for x in first[0].body] == ["self.variant_nodes[variants[0]] = [PrefixTreeNode(variants[0])]"]
    vdef = [s for s in fn.node.body if isinstance(s, ast.Assign) and ast.unparse(s.targets[0]) == "variants"]
    ok_v = len(vdef) == 1 and ast.unparse(vdef[0].value) == f"{fn.params()[1]}.params['name'].split('.')"
    ctx.record(rule + "i", "COUNT", fref, "insert: from every start node of the first variant, each missing child is created, linked and indexed under its variant; the end node is marked",
               ok and ok_first and ok_v, detail, "" if ok and ok_first and ok_v else "insert no longer registers every created trie node / marks the end of the name from every start node")


def lookup_siblings(ctx: Ctx, rule: str) -> None:
    fc = ctx.repo.func(f"{PT}.__contains__")
    fg = ctx.repo.func(f"{PT}.get")
    ctx.touch(fc.ref)
    ctx.touch(fg.ref)

    def parts(fn):
        body = [s for s in fn.node.body if not (isinstance(s, ast.Expr) and isinstance(s.value, ast.Constant))]
        vdef = [s for s in body if isinstance(s, ast.Assign) and ast.unparse(s.targets[0]) == "variants"]
        guard = [s for s in body if isinstance(s, ast.If)]
        loop = [s for s in body if isinstance(s, ast.For)]
        return vdef, guard, loop, body

    vc, gc, lc, bc = parts(fc)
    vg, gg, lg, bg = parts(fg)
    ok = len(vc) == len(vg) == 1 and ast.dump(vc[0].value) == ast.dump(vg[0].value) and ast.unparse(vc[0].value) == f"{fc.params()[1]}.split('.')"
    def start_set(guards, loops, empty):
        """Both spellings of 'the trie nodes of the first variant, none if it is unknown'."""
        if len(loops) != 1:
            return None
        it = ast.unparse(loops[0].iter)
        if len(guards) == 1 and ast.unparse(guards[0].test) == "variants[0] not in self.variant_nodes" and not guards[0].orelse \
                and [ast.unparse(x) for x in guards[0].body] == [f"return {empty}"] and it == "self.variant_nodes[variants[0]]":
            return "variant_nodes[variants[0]] or nothing"
        if not guards and it == "self.variant_nodes.get(variants[0], [])":
            return "variant_nodes[variants[0]] or nothing"
        return None

    ok = ok and start_set(gc, lc, "False") is not None and start_set(gc, lc, "False") == start_set(gg, lg, "[]")
    ok = ok and len(lc) == len(lg) == 1 and ast.dump(lc[0].target) == ast.dump(lg[0].target)
    detail = {}
    if ok:
        ic = [l for l in lc[0].body if isinstance(l, ast.For)]
        ig = [l for l in lg[0].body if isinstance(l, ast.For)]
        ok = len(ic) == len(ig) == 1 and len(lc[0].body) == len(lg[0].body) == 1
        if ok:
            a, b = copy.deepcopy(ic[0]), copy.deepcopy(ig[0])
            term_c, term_g = a.orelse, b.orelse
            a.orelse, b.orelse = [], []
            ok = ast.dump(a) == ast.dump(b)
            cur = lc[0].target.id
            var = ic[0].target.id
            want = [f"if not {cur}.check_child({var}):\n    break", f"{cur} = {cur}.get_child({var})"]
            ok = ok and [ast.unparse(s) for s in a.body] == want and ast.unparse(a.iter) == "variants[1:]"
            ok = ok and [ast.unparse(s) for s in term_c] == ["return True"]
            tg = [ast.unparse(s) for s in term_g]
            # terminal of get: every end node below, as a filter loop or as one extend() over the same generator
            if len(term_g) == 1 and isinstance(term_g[0], ast.Expr) and isinstance(term_g[0].value, ast.Call) and ast.unparse(term_g[0].value.func) == "test_nodes.extend" \
                    and len(term_g[0].value.args) == 1 and isinstance(term_g[0].value.args[0], (ast.GeneratorExp, ast.ListComp)) and len(term_g[0].value.args[0].generators) == 1:
                ge = term_g[0].value.args[0]
                g0 = ge.generators[0]
                n = ast.unparse(g0.target)
                ok = ok and ast.unparse(g0.iter) == f"{cur}.traverse()" and ast.unparse(ge.elt) == f"{n}.end_test_node" and [ast.unparse(c_) for c_ in g0.ifs] == [f"{n}.end_test_node is not None"]
            else:
                ok = ok and len(term_g) == 1 and isinstance(term_g[0], ast.For) and ast.unparse(term_g[0].iter) == f"{cur}.traverse()"
                if ok:
                    t = term_g[0]
                    n = t.target.id
                    ok = [ast.unparse(s) for s in t.body] == [f"if {n}.end_test_node is not None:\n    test_nodes.append({n}.end_test_node)"]
            detail["terminal_get"] = tg
    tail_c = [ast.unparse(s) for s in bc[bc.index(lc[0]) + 1:]] if lc else []
    tail_g = [ast.unparse(s) for s in bg[bg.index(lg[0]) + 1:]] if lg else []
    ok = ok and tail_c == ["return False"] and tail_g == ["return test_nodes"]
    ctx.record(rule, "SIBLING", f"{PT}.__contains__ / get", "same start set and descent (check_child / break / get_child over variants[1:]); terminal: True vs. all end nodes below",
               ok, detail, "" if ok else "membership test and lookup of the prefix tree no longer walk the trie identically")
    fr = "cartgraph/graph.py:TestGraph.get_nodes_by_name"
    f = ctx.repo.func(fr)
    ctx.touch(fr)
    d = [s for s in ast.walk(f.node) if isinstance(s, ast.Assign) and ast.unparse(s.targets[0]) == "nodes"]
    rets = [r for r in ast.walk(f.node) if isinstance(r, ast.Return)]
    ok2 = len(d) == 1 and ast.unparse(d[0].value) == f"self.nodes_index.get({f.params()[1]})" and len(rets) == 1 \
        and ast.unparse(rets[0].value) == "TestGraph._unique_filter(nodes) if unique else nodes"
    ctx.record(rule + "n", "PROV", fr, "get_nodes_by_name(name) = nodes_index.get(name), unfiltered", ok2, {}, "" if ok2 else "get_nodes_by_name filters or alters the index lookup")
    uf = ctx.repo.func("cartgraph/graph.py:TestGraph._unique_filter")
    src = ast.unparse(uf.node)
    ok3 = "len(items) == 0" in src and "len(items) > 1" in src and src.count("raise RuntimeError") == 2 and "return items[0]" in src
    ctx.record(rule + "u", "TABLE", uf.ref, "unique lookup: none -> RuntimeError; several -> RuntimeError; else the single element", ok3, {},
               "" if ok3 else "the unique-lookup filter no longer rejects missing or ambiguous results")


def node_primitives(ctx: Ctx, rule: str) -> None:
    want = {
        "check_child": ["return variant in self.children"],
        "get_child": ["return self.children[variant]"],
        "set_child": ["self.children[variant] = child"],
        "traverse": ["yield self", "for child in self.children.values():\n    yield from child.traverse()"],
    }
    bad = {}
    for name, body in want.items():
        f = ctx.repo.func(f"{PTN}.{name}")
        ctx.touch(f.ref)
        got = [ast.unparse(s) for s in f.node.body if not (isinstance(s, ast.Expr) and isinstance(s.value, ast.Constant))]
        # parameter names are free: compare after renaming to the reference names
        params = f.params()[1:]
        ren = dict(zip(params, ["variant", "child"]))
        got = [ast.unparse(norm.substitute(s, None, ren)) for s in f.node.body if not (isinstance(s, ast.Expr) and isinstance(s.value, ast.Constant))]
        if got != body:
            bad[name] = got
    init = ctx.repo.func(f"{PTN}.__init__")
    stores = {ast.unparse(s.targets[0]): ast.unparse(s.value) for s in ast.walk(init.node) if isinstance(s, ast.Assign)}
    ok_i = stores.get("self.children") == "{}" and stores.get("self.end_test_node") == "None"
    ctx.record(rule, "TABLE", PTN, "trie node: membership / lookup / link by variant key; traversal yields the node and every descendant; fresh node has no children and no end marker",
               not bad and ok_i, {"changed": bad}, "" if not bad and ok_i else f"a trie node primitive changed: {bad or stores}")


def graph_lookups(ctx: Ctx, rule: str) -> None:
    """The graph-level query helpers: node and object variants agree with each other; 'unique' means exactly one."""
    G = "cartgraph/graph.py:TestGraph"

    def canon(fref, ren):
        f = ctx.repo.func(fref)
        ctx.touch(fref)
        body = [s_ for s_ in f.node.body if not (isinstance(s_, ast.Expr) and isinstance(s_.value, ast.Constant))]
        # drop debug output, rename the role-specific identifiers
        body = [s_ for s_ in body if not (isinstance(s_, ast.Expr) and isinstance(s_.value, ast.Call) and ast.unparse(s_.value.func).startswith("logging."))]
        text = "\n".join(ast.unparse(s_) for s_ in body)
        for a, b in ren:
            text = re.sub(rf"\b{a}\b", b, text)
        return text

    from .. import semtab

    def tab(fref, ren, part="all", outs=()):
        f = ctx.repo.func(fref)
        ctx.touch(fref)
        body = semtab.strip(f.node.body)
        loops = [s_ for s_ in body if isinstance(s_, ast.For)]
        if part == "all":
            return semtab.block_table(body, outs, ren)
        if len(loops) != 1:
            raise AnalysisError(f"{fref}: expected one filter loop")
        if part == "loop":
            return semtab.block_table(loops[0].body, outs, ren), ast.unparse(semtab.renamed(loops[0].iter, ren)), ast.unparse(loops[0].target)
        return semtab.block_table([s_ for s_ in body if s_ is not loops[0]], outs, ren)

    a = tab(f"{G}.get_nodes", {"nodes": "ITEMS", "n": "IT", ".nodes": ".ITEMS"})
    b = tab(f"{G}.get_objects", {"objects": "ITEMS", "o": "IT", ".objects": ".ITEMS"})
    want = semtab.reference_table("""
        regex = re.compile(param_val)
        subset = self.ITEMS if subset is None else subset
        ITEMS = [IT for IT in subset if param_key in IT.params and regex.search(IT.params[param_key])]
        return TestGraph._unique_filter(ITEMS) if unique else ITEMS
    """)
    why = semtab.mismatch(a, b) or semtab.mismatch(a, want)
    ctx.record(rule, "SIBLING", f"{G}.get_nodes / get_objects", "both: every element of the subset (default: all) whose parameter exists and matches the regex (search); unique -> exactly one", not why,
               {"rows": len(a)}, "" if not why else f"get_nodes and get_objects no longer select 'parameter present and regex found' alike: {why}")
    rn = {"filtered_nodes": "ITEMS", "get_nodes": "GET", ".get_nodes": ".GET"}
    ro = {"filtered_objects": "ITEMS", "get_objects": "GET", ".get_objects": ".GET"}
    (la, ia, va), (lb, ib, vb) = tab(f"{G}.get_nodes_by_restr", rn, "loop", ("ITEMS",)), tab(f"{G}.get_objects_by_restr", ro, "loop", ("ITEMS",))
    la = semtab.block_table(semtab.strip([s_ for s_ in ctx.repo.func(f"{G}.get_nodes_by_restr").node.body if isinstance(s_, ast.For)][0].body), ("ITEMS",), {**rn, va: "LINE"})
    lb = semtab.block_table(semtab.strip([s_ for s_ in ctx.repo.func(f"{G}.get_objects_by_restr").node.body if isinstance(s_, ast.For)][0].body), ("ITEMS",), {**ro, vb: "LINE"})
    wl = semtab.reference_table(r"""
        if LINE.startswith("only "):
            or_restriction = LINE.replace("only ", "").replace(" ", "").strip()
            regex = "(\\.|^)(" + or_restriction.replace(",", "|") + ")(\\.|$)"
        elif LINE.startswith("no "):
            or_restriction = LINE.replace("no ", "").replace(" ", "").strip()
            regex = "^(?!.*(\\.|^)(" + or_restriction.replace(",", "|") + ")(\\.|$))"
        ITEMS = self.GET(param_val=regex, subset=ITEMS)
    """, ("ITEMS",))
    ra, rb = tab(f"{G}.get_nodes_by_restr", rn, "rest", ("ITEMS",)), tab(f"{G}.get_objects_by_restr", ro, "rest", ("ITEMS",))
    wr = semtab.reference_table("""
        ITEMS = subset
        return TestGraph._unique_filter(ITEMS) if unique else ITEMS
    """, ("ITEMS",))
    why2 = semtab.mismatch(la, lb) or semtab.mismatch(la, wl) or semtab.mismatch(ra, rb) or semtab.mismatch(ra, wr) or \
        ("" if ia == ib == "restriction.splitlines()" else f"the filters iterate over {ia} / {ib}")
    ctx.record(rule + "r", "SIBLING", f"{G}.get_nodes_by_restr / get_objects_by_restr", "both: per line `only a,b` keeps names containing a or b as whole variants, `no a,b` drops them "
               "(blanks inside the list ignored); filters are applied successively starting from the subset", not why2,
               {"loop_rows": len(la)}, "" if not why2 else f"the restriction filters for nodes and objects differ or no longer match whole variants: {why2}")
    f = ctx.repo.func(f"{G}._unique_filter")
    ctx.touch(f.ref)
    got_u = semtab.function_table(f.node, effects=False)
    want_u = semtab.reference_table("""
        if len(items) == 0:
            raise RuntimeError("none")
        if len(items) > 1:
            raise RuntimeError("several")
        return items[0]
    """, effects=False)
    ok3 = semtab.mismatch(got_u, want_u) is None
    ctx.record(rule + "u", "TABLE", f.ref, "unique lookup: none -> RuntimeError, more than one -> RuntimeError, else the one element", ok3, {}, "" if ok3 else "a 'unique' lookup no longer insists on exactly one result")
    f = ctx.repo.func(f"{G}.get_nodes_by_name")
    ctx.touch(f.ref)
    d = [ast.unparse(s_.value) for s_ in f.node.body if isinstance(s_, ast.Assign) and ast.unparse(s_.targets[0]) == "nodes"]
    r = [ast.unparse(s_.value) for s_ in f.node.body if isinstance(s_, ast.Return)]
    ok4 = d == ["self.nodes_index.get(name)"] and r == ["TestGraph._unique_filter(nodes) if unique else nodes"]
    ctx.record(rule + "n", "PROV", f.ref, "get_nodes_by_name returns exactly what the index returns for the name (unique -> exactly one)", ok4, {"nodes": d}, "" if ok4 else "get_nodes_by_name filters or extends the index lookup")


def run(ctx: Ctx) -> None:
    ctx.call(graph_lookups, "8")
    ctx.call(register_cells, "1")
    ctx.call(GR.bridge_table, "2")
    # direction matters: the freshly created node adopts the registers of the existing ones (the reverse empties their visit history)
    ctx.call(GR.bridging_sites, "2s")
    ctx.call(additive_trie, "3")
    ctx.call(lookup_siblings, "4")
    ctx.call(node_primitives, "6")
    ctx.call(GR.index_consistency, "5")
    from . import atoms as A

    ctx.call(A.drop_registrations, "7")
    ctx.call(A.fresh_state, "7f")


MUTANTS = [
    ("index-entry-reset-on-every-insert", NODE, "                    if variant not in self.variant_nodes:\n                        self.variant_nodes[variant] = []\n", "                    if variant in self.variant_nodes or True:\n                        self.variant_nodes[variant] = []\n", "3i"),
    ("get-nodes-match-not-search", "cartgraph/graph.py", "            if param_key in n.params and regex.search(n.params[param_key])", "            if param_key in n.params and regex.match(n.params[param_key])", "8"),
    ("unique-tolerates-many", "cartgraph/graph.py", "        if len(items) > 1:\n            raise RuntimeError(\n                f\"Retrieved test node or object is not unique among {items}\"\n            )\n", "", "8u"),
    ("by-name-skips-flat", "cartgraph/graph.py", "        nodes = self.nodes_index.get(name)\n", "        nodes = [n for n in self.nodes_index.get(name) if not n.is_flat()]\n", "8n"),
    ("counter-keyed-by-name", NODE, "        if node.bridged_form not in self._registry:\n            self._registry[node.bridged_form] = {}\n        if worker.id not in self._registry[node.bridged_form]:\n            self._registry[node.bridged_form][worker.id] = 0\n        self._registry[node.bridged_form][worker.id] += 1",
     "        if node.params[\"name\"] not in self._registry:\n            self._registry[node.params[\"name\"]] = {}\n        if worker.id not in self._registry[node.params[\"name\"]]:\n            self._registry[node.params[\"name\"]][worker.id] = 0\n        self._registry[node.params[\"name\"]][worker.id] += 1", "1"),
    ("counter-reset", NODE, "        if worker.id not in self._registry[node.bridged_form]:\n            self._registry[node.bridged_form][worker.id] = 0", "        self._registry[node.bridged_form][worker.id] = 0", "1"),
    ("counters-first-worker-only", NODE, "            for worker_key in worker_keys:\n                counter += self._registry.get(node_key, {}).get(worker_key, 0)", "            for worker_key in worker_keys:\n                counter += self._registry.get(node_key, {}).get(worker_key, 0)\n                break", "1r"),
    ("new-child-not-indexed", NODE, "                    if variant not in self.variant_nodes:\n                        self.variant_nodes[variant] = []\n                    self.variant_nodes[variant] += [new_child]",
     "                    if variant not in self.variant_nodes:\n                        self.variant_nodes[variant] = [new_child]", "3i"),
    ("end-marker-first-start-only", NODE, "                current = current.get_child(variant)\n            current.end_test_node = test_node", "                current = current.get_child(variant)\n            current.end_test_node = test_node\n            break", "3i"),
    ("contains-prefix-only", NODE, "            for variant in variants[1:]:\n                if not current.check_child(variant):\n                    break\n                current = current.get_child(variant)\n            else:\n                return True\n        return False",
     "            for variant in variants[1:-1]:\n                if not current.check_child(variant):\n                    break\n                current = current.get_child(variant)\n            else:\n                return True\n        return False", "4"),
    ("get-end-nodes-only-at-match", NODE, "                for node in current.traverse():\n                    if node.end_test_node is not None:\n                        test_nodes.append(node.end_test_node)", "                if current.end_test_node is not None:\n                    test_nodes.append(current.end_test_node)", "4"),
    ("trie-node-removed", NODE, "        self._dropped_cleanup_nodes.register(test_node, worker)", "        self._dropped_cleanup_nodes.register(test_node, worker)\n        PrefixTreeNode().unset_child(\"x\")", "3"),
    ("traverse-children-only-one-level", NODE, "        for child in self.children.values():\n            yield from child.traverse()", "        for child in self.children.values():\n            yield child", "6"),
]
