"""C10 — retry, stop, replay and verdict rules are followed exactly."""

from __future__ import annotations

import ast

from .. import norm
from ..ctx import Ctx
from ..facts import PathView, is_call_named
from ..kinds import expr_formula, function_views, loop_iteration_views, names_interesting, the_loop
from ..paths import PathEnum, Step, first_line
from ..repo import AnalysisError, call_name, calls_in
from . import nodetables as N
from . import traversal as T
from .c02 import bounded_wait

RUNNER = "plugins/runner.py"
OK_FN = f"{RUNNER}:TestRunner.all_results_ok"

EXPLANATION = (
    "Decides the complete should_rerun decision table (incl. invalid settings raising and the replay defaults), that "
    "a retried execution gets a distinct identifier derived from the number of shared results before its first "
    "suspension and that its result is looked up by (name, uid), the quantifier shape of the verdict (for every test "
    "name some acceptable result), how the verdict is reported, and that replay results are loaded (or raise) and "
    "added before the run decision. Behaviour over outcome sequences and schedules is not decided."
)
DECIDED = [
    "C10.1 should_rerun decision table, status universe, defaults",
    "C10.2 retry identifier: prefix + 'r<number of shared results>' set before uid is read, both before the first suspension; prefix restored",
    "C10.3 result lookup filters on both name and uid",
    "C10.4 verdict: for every executed test name at least one acceptable result; reported as FAIL / exit code 1 otherwise",
    "C10.5 replay: missing/invalid previous results raise; previous results are added to an empty node only, before the decision",
    "C10.6 run_test_node success mapping (False iff error/fail); lost result defaults to error",
    "C10.7 the configuration step of an object creation inherits the root's results (distinct retry identifiers for both steps)",
    "C10.12 manual tools: every run flag replacing should_run keeps the retry rule (`not finished or should_rerun`)",
    "C10.11 shared_results = own + every bridged node's results (the retry counter and identifiers are derived from its length)",
    "C10.1i the in-flight placeholder is not held against rerun_status; C10.4n/4s verdict grouping key and summary (known findings F35/F36); C10.5b replay try budget (known finding F37)",
    'C10.4z a job result entry is rewritten to an acceptable status only where the status read is acceptable already',
]
NOT_DECIDED = ["execution sequences over outcome sequences and schedules", "stale results when two runs legitimately share (name, uid)"]
MIN_INSTANCES = 18


def retry_ids(ctx: Ctx, rule: str) -> None:
    ctx.require_locals(T.RTN, ["uid", "run_times", "original_prefix", "name", "node_result"])
    views = function_views(ctx, T.RTN, names_interesting({"prefix", "shared_results", "id_test", "uid", "run_test_task", "results", "sleep"}),
                           roles=["node", "status_timeout"])
    n, problems = 0, []
    n_retry = 0
    for v in views:
        aws = [i for i, _ in v.awaits()]
        if not aws:
            continue
        n += 1
        first_aw = min(aws)
        uid_defs = [(i, s) for i, s in v.stmts(lambda s: isinstance(s, ast.Assign) and ast.unparse(s.targets[0]) == "uid")]
        if len(uid_defs) != 1 or ast.unparse(uid_defs[0][1].value) != "node.id_test.uid":
            problems.append(("uid is not read once from node.id_test.uid", v))
            continue
        ui = uid_defs[0][0]
        stores = [(i, s) for i, s in v.stmts(lambda s: isinstance(s, ast.Assign) and ast.unparse(s.targets[0]) == "node.prefix")]
        rt = v.canon_text(ast.Name(id="run_times", ctx=ast.Load()), ui)
        if rt != "len(node.shared_results)":
            problems.append((f"the retry counter is {rt}, not the number of shared results", v))
        pre = [(i, s) for i, s in stores if i < ui]
        nonempty = norm.formula(ast.parse("len(node.shared_results) > 0", mode="eval").body)
        retried = any(st.kind == "cond" and norm.implies(v.cond_formula(k), nonempty) for k, st in enumerate(v.steps))
        if retried:
            n_retry += 1
            if len(pre) != 1:
                problems.append(("a retried execution reads its uid without first extending the prefix", v))
            else:
                parts = norm.concat_parts(v.canon(pre[0][1].value, pre[0][0]))
                if parts != ["node.prefix", "'r'", "len(node.shared_results)"]:
                    problems.append((f"retry prefix is built from {parts}", v))
        elif pre:
            problems.append(("the prefix is changed although this is the first execution", v))
        if ui > first_aw:
            problems.append(("uid is read after a suspension point (another worker may have changed the prefix)", v))
        if v.path.exit != "raise":
            post = [(i, s) for i, s in stores if i > first_aw]
            if not post or v.canon_text(post[-1][1].value, post[-1][0]) != "node.prefix" and ast.unparse(post[-1][1].value) != "original_prefix":
                problems.append(("the original prefix is not restored on a normal exit", v))
    if n_retry == 0 and not problems and views:
        problems.append(("no path gives a retried execution (run_times > 0) a prefix of its own: retries share the identifier of the first execution", views[0]))
    ctx.expect_sites(rule, n, 2, T.RTN, False, "awaiting path of run_test_node")
    ctx.record(rule, "PROV", T.RTN, "run_times = len(node.shared_results); retried: node.prefix = original + 'r' + run_times; uid read afterwards, before the first await; prefix restored",
               not problems, {"paths": n, **({"path": problems[0][1].path.describe()} if problems else {})},
               "" if not problems else problems[0][0])
    fn = ctx.repo.func(T.RTN)
    orig = [s for s in ast.walk(fn.node) if isinstance(s, ast.Assign) and ast.unparse(s.targets[0]) == "original_prefix"]
    ok = len(orig) == 1 and ast.unparse(orig[0].value) == "node.prefix"
    ctx.record(rule + "o", "PROV", T.RTN, "original_prefix = node.prefix saved once on entry", ok, {}, "" if ok else "the saved original prefix changed")


def lookup(ctx: Ctx, rule: str) -> None:
    fn = ctx.repo.func(T.RTN)
    ctx.touch(T.RTN)
    gens = [g for g in ast.walk(fn.node) if isinstance(g, (ast.GeneratorExp, ast.ListComp)) and "job.result.tests" in ast.unparse(g.generators[0].iter)]
    ok = len(gens) == 1 and isinstance(gens[0].generators[0].target, ast.Name)
    detail = {}
    if ok:
        g = gens[0].generators[0]
        x = g.target.id
        f = norm.conj([norm.formula(c) for c in g.ifs])
        want = norm.conj([("atom", f"{x}['name'].name == name"), ("atom", f"{x}['name'].uid == uid")])
        ok = norm.equivalent(f, want) and ast.unparse(gens[0].elt) == x
        detail = {"filter": norm.show(f)}
        nd = [s for s in ast.walk(fn.node) if isinstance(s, ast.Assign) and ast.unparse(s.targets[0]) == "name"]
        ok = ok and len(nd) == 1 and ast.unparse(nd[0].value) == "node.params['name']"
    ctx.record(rule, "GUARD", T.RTN, "result lookup: x['name'].name == name and x['name'].uid == uid over job.result.tests", ok, detail,
               "" if ok else "an execution may read a result that is not its own (lookup no longer filters on both name and uid)")


def verdict(ctx: Ctx, rule: str, tools_only: bool = False) -> None:
    fn = ctx.repo.func(OK_FN)
    ctx.touch(OK_FN)
    anys = [c for c in calls_in(fn.node) if isinstance(c.func, ast.Name) and c.func.id == "any" and c.args
            and isinstance(c.args[0], (ast.GeneratorExp, ast.ListComp))]
    if len(anys) != 1:
        ctx.record(rule, "TABLE", OK_FN, "verdict = for every executed test: any acceptable result among the results with the same name", False,
                   {"any_calls": len(anys)}, "the verdict is no longer an existential (any) over the results of the same test name")
        return
    gen = anys[0].args[0]
    g = gen.generators[0]
    loops = [l for l in ast.walk(fn.node) if isinstance(l, ast.For)]
    alls = [c for c in calls_in(fn.node) if isinstance(c.func, ast.Name) and c.func.id == "all"]
    outer_iter = outer_var = None
    if loops and any(anys[0] is x for x in ast.walk(loops[0])):
        outer_iter, outer_var = ast.unparse(loops[0].iter), ast.unparse(loops[0].target)
    elif alls and isinstance(alls[0].args[0], (ast.GeneratorExp, ast.ListComp)):
        og = alls[0].args[0].generators[0]
        outer_iter, outer_var = ast.unparse(og.iter), ast.unparse(og.target)
    t = ast.unparse(g.target)
    # "same test": equality of one key computed alike for the inner and the outer result
    same_key, raw_name = False, False
    if len(g.ifs) == 1 and isinstance(g.ifs[0], ast.Compare) and len(g.ifs[0].ops) == 1 and isinstance(g.ifs[0].ops[0], ast.Eq) and outer_var:
        a, b = g.ifs[0].left, g.ifs[0].comparators[0]
        ka = ast.unparse(norm.substitute(a, None, {t: "_R", outer_var: "_R"}))
        kb = ast.unparse(norm.substitute(b, None, {t: "_R", outer_var: "_R"}))
        uses = {n_.id for x in (a, b) for n_ in ast.walk(x) if isinstance(n_, ast.Name)}
        same_key = ka == kb and {t, outer_var} <= uses
        raw_name = ka == "_R['name'].name"
    ok_inner = (ast.unparse(g.iter) == "self.job.result.tests" and outer_iter == "self.job.result.tests"
                and ast.unparse(gen.elt) == f"STATUSES_MAPPING[{t}['status']]" and same_key)
    ctx.record(rule, "TABLE", OK_FN, "inner: any(STATUSES_MAPPING[t['status']] for t in all results if same test as the outer test (one key of the result name, computed alike for both))", ok_inner,
               {"inner": ast.unparse(gen), "outer": outer_iter}, "" if ok_inner else "the per-test acceptance of the verdict changed")
    if not tools_only:
      ctx.record(rule + "n", "TABLE", OK_FN, "the tries of a test are grouped by a worker-invariant key (tries are shared among workers: a retry may run on another worker)", ok_inner and not raw_name,
                 {"key": "full result name" if raw_name else "derived"},
                 "" if ok_inner and not raw_name else "the verdict groups the tries by the full test name, which carries the worker's net: FAIL on one worker and the retry PASS on another "
                 "(tries are shared) leaves the first name without an acceptable result and the run is judged failed")
    # outer quantifier: False as soon as one test has no acceptable result, True otherwise
    ok_outer = False
    if alls and not loops:
        rets = [r for r in ast.walk(fn.node) if isinstance(r, ast.Return)]
        ok_outer = len(rets) == 1 and rets[0].value is alls[0] and isinstance(alls[0].args[0].elt, ast.Call) and alls[0].args[0].elt is anys[0]
    elif loops:
        loop = loops[0]
        pre = [Step("stmt", s) for s in fn.node.body if isinstance(s, ast.Assign) and fn.node.body.index(s) < fn.node.body.index(loop)]
        views = loop_iteration_views(ctx, OK_FN, loop, None, pre_steps=pre)
        any_atom = norm.formula(anys[0])
        good = True
        n_false = n_next = 0
        for v in views:
            prem = v.premise(len(v.steps), 0)
            if v.path.exit == "return":
                val = v.path.exit_node.value
                if not (isinstance(val, ast.Constant) and val.value is False) or not norm.implies(prem, norm.neg(any_atom)):
                    good = False
                n_false += 1
            elif v.path.exit in ("fall", "continue"):
                if not norm.implies(prem, any_atom):
                    good = False
                n_next += 1
            else:
                good = False
        tail = fn.node.body[fn.node.body.index(loop) + 1:]
        ok_outer = good and n_false >= 1 and n_next >= 1 and len(tail) == 1 and isinstance(tail[0], ast.Return) \
            and isinstance(tail[0].value, ast.Constant) and tail[0].value.value is True
    ctx.record(rule + "o", "TABLE", OK_FN, "outer: a test without an acceptable result -> False; all tests have one -> True", ok_outer, {},
               "" if ok_outer else "the verdict is no longer 'every executed test has at least one acceptable result'")
    # how the verdict is reported
    fr = f"{RUNNER}:TestRunner.run_suite"
    f2 = ctx.repo.func(fr)
    ctx.touch(fr)
    views = function_views(ctx, fr, names_interesting({"all_results_ok", "add", "run_workers"}))
    n, bad = 0, None
    for v in views:
        for i, c in v.calls(lambda c: call_name(c) == "add" and c.args and isinstance(c.args[0], ast.Constant) and c.args[0].value == "FAIL"):
            n += 1
            if not norm.implies(v.premise(i, 0), ("not", ("atom", "self.all_results_ok()"))):
                bad = v
    ok_r = n >= 1 and bad is None
    # and a negative verdict does add FAIL: the `if not ok` body is exactly the add
    ifs = [i for i in ast.walk(f2.node) if isinstance(i, ast.If) and norm.formula(i.test) == ("not", ("atom", "self.all_results_ok()"))]
    ok_r = ok_r and len(ifs) == 1 and any(isinstance(x, ast.Call) and call_name(x) == "add" for x in ast.walk(ifs[0]))
    ctx.record(rule + "r", "GUARD", fr, "summary gets 'FAIL' iff not all_results_ok() (after the workers ran)", ok_r, {"sites": n},
               "" if ok_r else "the job summary no longer reflects the verdict")
    # ... and nothing else makes the run fail: statuses copied into the summary are acceptable ones unless the verdict was negative
    ups = [c for c in calls_in(f2.node) if call_name(c) == "update" and ast.unparse(c.func.value) == "summary"]
    unfiltered = [c for c in ups if "STATUSES_MAPPING" not in ast.unparse(c) and not any(
        "STATUSES_MAPPING" in ast.unparse(d.value) for a in c.args for nm in ast.walk(a) if isinstance(nm, ast.Name)
        for d in ast.walk(f2.node) if isinstance(d, ast.Assign) and any(isinstance(t_, ast.Name) and t_.id == nm.id for t_ in d.targets))]
    if not tools_only:
      ctx.record(rule + "s", "GUARD", fr, "the statuses of single tries reach the summary (= exit code) only through the verdict: raw try statuses copied into it are filtered by acceptability",
                 not unfiltered, {"summary_updates": [ast.unparse(c)[:120] for c in ups]},
                 "" if not unfiltered else "run_suite copies the status of every executed try into the summary: a FAIL that was retried successfully still makes avocado exit with "
                 "AVOCADO_TESTS_FAIL although all_results_ok() is True")
    fr2 = "intertest_setup.py:with_cartesian_graph.<locals>.wrapper"
    f3 = ctx.repo.func(fr2)
    ctx.touch(fr2)
    rets = [r for r in ast.walk(f3.node) if isinstance(r, ast.Return)]
    ok_w = len(rets) == 1 and ast.unparse(rets[0].value) == "0 if runner.all_results_ok() else 1"
    ctx.record(rule + "w", "TABLE", fr2, "manual tools return 0 if runner.all_results_ok() else 1", ok_w, {}, "" if ok_w else "the exit code of the manual tools no longer reflects the verdict")
    # the acceptance mapping used is avocado's own
    imp = ctx.repo.imports.get(RUNNER, {}).get("STATUSES_MAPPING", "")
    ctx.record(rule + "m", "CONST", RUNNER, "STATUSES_MAPPING is imported from avocado.core (not redefined locally)", imp.startswith("avocado.core"), {"import": imp},
               "" if imp.startswith("avocado.core") else "the acceptable-status mapping is no longer avocado's")


def replay_loading(ctx: Ctx, rule: str) -> None:
    fref = f"{RUNNER}:TestRunner.results_from_previous_jobs"
    fn = ctx.repo.func(fref)
    # the two rejections and the one skip, by the test that guards them (semantic, on the guarding `if` itself)
    n_raise = {"missing": 0, "notests": 0, "empty_name_skipped": 0}
    for i in ast.walk(fn.node):
        if not isinstance(i, ast.If) or i.orelse:
            continue
        f = norm.formula(i.test)
        if len(i.body) == 1 and isinstance(i.body[0], ast.Raise) and PathEnum._raised_name(i.body[0]) == "RuntimeError":
            if norm.equivalent(f, norm.formula(ast.parse("not os.path.isfile(replay_results)", mode="eval").body)):
                n_raise["missing"] += 1
            if norm.equivalent(f, norm.formula(ast.parse("'tests' not in data", mode="eval").body)):
                n_raise["notests"] += 1
        if len(i.body) == 1 and isinstance(i.body[0], ast.Continue) and norm.equivalent(f, norm.formula(ast.parse("not replay_job", mode="eval").body)):
            n_raise["empty_name_skipped"] += 1
    other_exits = [x for x in ast.walk(fn.node) if isinstance(x, (ast.Continue, ast.Break, ast.Return))]
    ok = n_raise["missing"] == 1 and n_raise["notests"] == 1 and n_raise["empty_name_skipped"] == 1 and len(other_exits) == 1
    from .graphrules import _added_to

    adds = [s for s in ast.walk(fn.node) if isinstance(s, ast.stmt) and _added_to(s, "self.previous_results") is not None]
    ok = ok and len(adds) == 1
    # the collected results only ever grow: every test detail of every listed job is kept
    from ..kinds import attribute_stores, owner_rule

    writes = list(attribute_stores(ctx.repo, "previous_results", ("plugins/", "cartgraph/", "intertest_setup.py")))
    shrinking = [(f, n, how) for f, n, how in writes if not (how == "augassign" or how in ("mutator:append", "mutator:extend") or (f is not None and f.name == "__init__"))]
    loop = next((l for l in ast.walk(fn.node) if isinstance(l, ast.For) and ast.unparse(l.iter) == "data['tests']"), None)
    unconditional = loop is not None and any(a is x for a in adds for x in loop.body)
    ctx.record(rule + "k", "OWNER", fref, "previous results are only ever appended (every test result of every replayed job is kept, unconditionally)",
               not shrinking and unconditional, {"writes": [f"{f.ref if f else None}: {how}" for f, n, how in writes]},
               "" if not shrinking and unconditional else "results of replayed jobs can be dropped or replaced: an acceptable previous result may get lost and the test be executed again")
    ctx.record(rule, "TABLE", fref, "replay job without results.json -> RuntimeError; results without 'tests' -> RuntimeError; else every test detail is kept",
               ok, n_raise, "" if ok else "a missing or invalid previous job result file is silently ignored")
    callers = [c for f in ctx.repo.all_functions() for c in calls_in(f.node) if call_name(c) == "results_from_previous_jobs"]
    fw = ctx.repo.func(f"{RUNNER}:TestRunner.run_workers")
    body = [ast.unparse(s) for s in fw.node.body]
    idx_load = next((i for i, s in enumerate(body) if "results_from_previous_jobs()" in s), None)
    idx_run = next((i for i, s in enumerate(body) if "run_until_complete" in s), None)
    ok2 = len(callers) == 1 and idx_load is not None and idx_run is not None and idx_load < idx_run
    ctx.record(rule + "o", "ORDER", fw.ref, "previous results are loaded before the traversals start", ok2, {}, "" if ok2 else "replay results are loaded after (or never before) the traversal")
    # the filter used when adding them to a node
    ft = ctx.repo.func(T.TN)
    comps = [c for c in ast.walk(ft.node) if isinstance(c, ast.ListComp) and "previous_results" in ast.unparse(c.generators[0].iter)]
    ok3 = len(comps) == 1 and [ast.unparse(c) for c in comps[0].generators[0].ifs] == [
        f"re.search(test_node.bridged_form, {comps[0].generators[0].target.id}['name'])"] if comps else False
    ctx.record(rule + "f", "PROV", T.TN, "a node receives the previous results whose name matches its worker-invariant form", bool(ok3), {},
               "" if ok3 else "the selection of previous results for a node changed")


def creation_ids(ctx: Ctx, rule: str) -> None:
    fn = ctx.repo.func(T.TTN)
    ctx.touch(T.TTN)
    runs = [c for c in calls_in(fn.node) if call_name(c) == "run_test_node"]
    if len(runs) < 2:
        raise AnalysisError(f"{T.TTN}: expected two run_test_node calls")
    pre, root = ast.unparse(runs[0].args[0]), ast.unparse(runs[-1].args[0])
    inits = [s for s in ast.walk(fn.node) if isinstance(s, ast.Assign) and ast.unparse(s.targets[0]) == f"{pre}.results"]
    ok = len(inits) == 1 and ast.unparse(inits[0].value) in (f"list({root}.results)", f"{root}.results", f"{root}.results.copy()", f"{root}.results[:]") \
        and inits[0].lineno < runs[0].lineno
    ctx.record(rule, "PROV", T.TTN, "the configuration node starts with the object root's results (its retry suffix follows the root's history)", ok,
               {"found": [first_line(s) for s in inits]},
               "" if ok else "the configuration step of a retried object creation reuses the same test identifier (its results no longer start from the root's)")


ISETUP = "intertest_setup.py"


def replaced_run_policies(ctx: Ctx, rule: str) -> None:
    """C10.12: the manual tools replace TestNode.should_run by a flag; a replacement that lets a finished test run must keep the retry rule."""
    mod = ctx.repo.module(ISETUP)
    found, bad = [], []
    once = 0
    for c in ast.walk(mod):
        if not isinstance(c, ast.Call):
            continue
        kw = {k.arg: k.value for k in c.keywords}
        if not (isinstance(kw.get("flag_type"), ast.Constant) and kw["flag_type"].value == "run" and isinstance(kw.get("flag"), ast.Lambda)):
            continue
        lam = kw["flag"]
        params = [a.arg for a in lam.args.args]
        if len(params) != 2:
            bad.append(f"line {c.lineno}: run flag with parameters {params}")
            continue
        me, slot = params
        f = norm.formula(lam.body, None, {me: "self", slot: "slot"})
        found.append(f"line {c.lineno}: {norm.show(f)[:100]}")
        if isinstance(lam.body, ast.Constant) and lam.body.value is False:
            continue
        atoms = set(norm.atoms_of(f))
        if "self.is_finished(slot)" in atoms:
            want = norm.formula(ast.parse("not self.is_finished(slot) or self.should_rerun(slot)", mode="eval").body)
            if not norm.equivalent(f, want):
                bad.append(f"line {c.lineno}: a finished test is flagged to run by `{ast.unparse(lam.body)[:120]}` instead of `not finished or should_rerun` "
                           "(tries left, statuses in the rerun set, none in the stop set)")
        elif atoms == {"self.is_shared_root()", "slot in self.shared_finished_workers"}:
            once += 1  # single-step tools: every node exactly once per worker, by design ("the run policy is also simpler")
        else:
            bad.append(f"line {c.lineno}: unrecognised run policy `{ast.unparse(lam.body)[:120]}`")
    if len(found) < 6:
        raise AnalysisError(f"{ISETUP}: only {len(found)} replaced run policies found")
    ctx.record(rule, "SIBLING", f"{ISETUP}:update", "every run flag that replaces should_run in the manual tools is constant False, the once-per-worker policy of the "
               "single-step tools, or `not is_finished(slot) or should_rerun(slot)` (the retry rule survives the replacement)", not bad,
               {"flags": found, "once_per_worker": once}, "" if not bad else bad[0])


def inflight_not_a_status(ctx: Ctx, rule: str) -> None:
    """The UNKNOWN placeholder of a try that is still running counts as a spent try but is not a status 'so far': it must not be held
    against a user-given rerun_status (a worker with a try left would otherwise refuse to retry and walk past the unfinished setup)."""
    fref = "cartgraph/node.py:TestNode.should_rerun"
    fn = ctx.repo.func(fref)
    ctx.touch(fref)
    defs = [s_ for s_ in ast.walk(fn.node) if isinstance(s_, ast.Assign) and ast.unparse(s_.targets[0]) == "rerun_statuses_violated"]
    ok, found = False, None
    if len(defs) == 1:
        found = ast.unparse(defs[0].value)
        ops, cur = [], defs[0].value
        while isinstance(cur, ast.BinOp) and isinstance(cur.op, ast.Sub):
            ops.append(cur.right)
            cur = cur.left
        excluded = any(isinstance(o, ast.Set) and any(isinstance(e, ast.Constant) and e.value == "unknown" for e in o.elts) for o in ops)
        filtered = all("unknown" in ast.unparse(s_.value) for s_ in ast.walk(fn.node) if isinstance(s_, ast.Assign) and ast.unparse(s_.targets[0]) == "test_statuses") and \
            any(isinstance(s_, ast.Assign) and ast.unparse(s_.targets[0]) == "test_statuses" for s_ in ast.walk(fn.node))
        ok = ast.unparse(cur) == "{*test_statuses}" and any(ast.unparse(o) == "{*rerun_status}" for o in ops) and (excluded or filtered)
    ctx.record(rule, "TABLE", fref, "statuses outside the rerun set stop the retries, the in-flight 'unknown' placeholder excepted", ok, {"definition": found},
               "" if ok else f"the placeholder of a try still running elsewhere is held against rerun_status ({found}): with a user-given rerun set a worker that still has a try "
               "refuses to retry and treats the unfinished setup as done")


def replay_budget(ctx: Ctx, rule: str) -> None:
    """Replay: a test without an acceptable previous result is executed.  Previous results count as spent tries, so the default number of
    tries under replay must exceed the number of replayed results (or they must not be counted)."""
    fref = "cartgraph/node.py:TestNode.should_rerun"
    fn = ctx.repo.func(fref)
    ctx.touch(fref)
    mt = [s_ for s_ in ast.walk(fn.node) if isinstance(s_, ast.Assign) and ast.unparse(s_.targets[0]) == "max_tries"]
    ok, found = False, None
    if len(mt) == 1 and isinstance(mt[0].value, ast.Call) and len(mt[0].value.args) == 2:
        default = mt[0].value.args[1]
        found = ast.unparse(default)
        dtext = found
        for nm in {n_.id for n_ in ast.walk(default) if isinstance(n_, ast.Name)}:
            ds = [s_ for s_ in ast.walk(fn.node) if isinstance(s_, ast.Assign) and len(s_.targets) == 1 and isinstance(s_.targets[0], ast.Name) and s_.targets[0].id == nm]
            dtext += " ; " + " ; ".join(ast.unparse(d_.value) for d_ in ds)
        ok = "results" in dtext
        if not ok:
            # or: the counted statuses exclude replayed results
            ts = [ast.unparse(s_.value) for s_ in ast.walk(fn.node) if isinstance(s_, ast.Assign) and ast.unparse(s_.targets[0]) == "test_statuses"]
            ok = bool(ts) and all("replay" in x for x in ts)
    ctx.record(rule, "CONST", fref, "under replay the default number of tries exceeds the tries already spent in the replayed jobs (or replayed results are not counted as tries)", ok,
               {"default_max_tries": found}, "" if ok else f"under replay max_tries defaults to `{found}` while every replayed result counts as a spent try: a test that failed in two replayed "
               "jobs (or was retried twice in one) has no try left, is not executed and stays without an acceptable result")


ACCEPTABLE = ("PASS", "WARN", "SKIP", "CANCEL")


def status_rewrites(ctx: Ctx, rule: str) -> None:
    """run_test_node edits the status of the entry of `job.result.tests` it has just read (the duration check turns a slow PASS into WARN); the
    verdict (all_results_ok, hence the exit code of a run and of every manual step) is computed from those entries.  A rewrite into an
    acceptable status is therefore only allowed where the status read is acceptable already - otherwise a failed test counts as a success."""
    fref = "plugins/runner.py:TestRunner.run_test_node"
    fn = ctx.repo.func(fref)
    ctx.touch(fref)
    entries = set()
    for a in ast.walk(fn.node):
        if isinstance(a, ast.Assign) and len(a.targets) == 1 and isinstance(a.targets[0], ast.Name) and "self.job.result.tests" in ast.unparse(a.value):
            entries.add(a.targets[0].id)
    if not entries:
        raise AnalysisError(f"{fref}: the job result entry of the finished test is no longer read into a local")
    loop = the_loop(ctx, fref, ast.For, lambda l: any(isinstance(x, ast.Name) and x.id in entries for t in ast.walk(l) if isinstance(t, ast.Assign) for x in t.targets),
                    "loop polling the job results for the finished test")
    views = loop_iteration_views(ctx, fref, loop, None)
    n_sites, bad = 0, None

    def is_rewrite(s):
        return isinstance(s, ast.Assign) and len(s.targets) == 1 and isinstance(s.targets[0], ast.Subscript) and isinstance(s.targets[0].value, ast.Name) \
            and s.targets[0].value.id in entries and ast.unparse(s.targets[0].slice) == "'status'"

    for v in views:
        for i, s in v.stmts(is_rewrite):
            n_sites += 1
            e = s.targets[0].value.id
            if not (isinstance(s.value, ast.Constant) and isinstance(s.value.value, str)):
                bad = bad or (s, "a computed status is written into the job result entry")
                continue
            if s.value.value not in ACCEPTABLE:
                continue
            need = norm.disj([expr_formula(v, i, f"{e}['status'] == '{a}'") for a in ACCEPTABLE])
            if not norm.implies(v.premise(i, 0), need):
                bad = bad or (s, f"`{ast.unparse(s)}` is reachable while the status read from the job results may be FAIL / ERROR / INTERRUPTED "
                                 f"(not guarded by {e}['status'] being acceptable)")
    ok = bad is None
    ctx.record(rule, "GUARD", fref, "a job result entry is rewritten to an acceptable status (slow run -> WARN) only where the status read is acceptable already",
               ok, {"rewrite_sites_on_paths": n_sites, "entries": sorted(entries)},
               "" if ok else f"a failed test is turned into an acceptable result, the verdict and the exit code then report success: {bad[1]}")


def run(ctx: Ctx) -> None:
    ctx.call(N.should_rerun_table, "1")
    ctx.call(retry_ids, "2")
    ctx.call(N.run_decision_table, "9r")
    ctx.call(lookup, "3")
    ctx.call(verdict, "4")
    ctx.call(status_rewrites, "4z")
    ctx.call(replay_loading, "5")
    ctx.call(T.t_o1, "5t/T.O1")
    ctx.call(bounded_wait, "6")
    ctx.call(creation_ids, "7")
    from . import graphrules as GR

    ctx.call(GR.identity_forms, "8")
    from . import atoms as A

    ctx.call(A.definitions, "11", only=('shared_results','id'))
    ctx.call(replaced_run_policies, "12")
    ctx.call(inflight_not_a_status, "1i")
    ctx.call(replay_budget, "5b")
    # a failed configuration step of an object creation is a spent try of the creation ("executed again exactly while tries remain")
    ctx.call(T.t_a2b, "13/T.A2b")


NODE = "cartgraph/node.py"
G = "cartgraph/graph.py"
MUTANTS = [
    ("slow-failure-becomes-warn", RUNNER, "                    if (\n                        test_result[\"status\"] == \"PASS\"\n                        and float(duration) > 1.25 * max_allowed\n                    ):", "                    if float(duration) > 1.25 * max_allowed:", "4z"),
    ("inflight-held-against-rerun-status", "cartgraph/node.py", "rerun_statuses_violated = {*test_statuses} - {*rerun_status} - {\"unknown\"}", "rerun_statuses_violated = {*test_statuses} - {*rerun_status}", "1i"),
    ("replay-existing-file-rejected", "plugins/runner.py", "            if not os.path.isfile(replay_results):", "            if os.path.isfile(replay_results):", "5"),
    ("replay-named-jobs-skipped", "plugins/runner.py", "            if not replay_job:\n                continue", "            if replay_job:\n                continue", "5"),
    ("rerun-defaults-swapped", "cartgraph/node.py", "        if self.params.get(\"replay\"):\n            rerun_status = self.params.get_list(", "        if not self.params.get(\"replay\"):\n            rerun_status = self.params.get_list(", "d"),
    ("rerun-default-not-all", "cartgraph/node.py", "rerun_status = self.params.get_list(\"rerun_status\", []) or all_statuses", "rerun_status = self.params.get_list(\"rerun_status\", [])", "d"),
    ("retry-prefix-dropped", "plugins/runner.py", "        if run_times > 0:\n            node.prefix = original_prefix + f\"r{run_times}\"\n", "", "2"),
    ("uid-before-prefix", RUNNER, "        if run_times > 0:\n            node.prefix = original_prefix + f\"r{run_times}\"\n        uid = node.id_test.uid",
     "        uid = node.id_test.uid\n        if run_times > 0:\n            node.prefix = original_prefix + f\"r{run_times}\"", "2"),
    ("own-results-count", RUNNER, "run_times = len(node.shared_results)", "run_times = len(node.results)", "2"),
    ("lookup-by-name-only", RUNNER, "if x[\"name\"].name == name and x[\"name\"].uid == uid", "if x[\"name\"].name == name", "3"),
    ("verdict-last-try", RUNNER, "            shared_status &= any(\n                STATUSES_MAPPING[t[\"status\"]]\n                for t in self.job.result.tests\n                if t[\"name\"].name == test[\"name\"].name\n            )",
     "            shared_status &= STATUSES_MAPPING[test[\"status\"]]", "4"),
    ("verdict-all-instead-of-any", RUNNER, "            shared_status &= any(\n                STATUSES_MAPPING", "            shared_status &= all(\n                STATUSES_MAPPING", "4"),
    ("missing-replay-ignored", RUNNER, "                raise RuntimeError(\n                    \"Cannot find replay job results file %s\" % replay_results\n                )", "                continue", "5"),
    ("only-last-status", NODE, "        rerun_statuses_violated = {*test_statuses} - {*rerun_status}", "        rerun_statuses_violated = {*test_statuses[-1:]} - {*rerun_status}", "1"),
    ("replay-dedupe", RUNNER, "                    self.previous_results += [test_details]", "                    self.previous_results = [r for r in self.previous_results if r[\"name\"] != test_details[\"name\"]]\n                    self.previous_results += [test_details]", "5k"),
    ("stop-status-ignored", NODE, "        stop_statuses_found = {*stop_status} & {*test_statuses}\n        if len(stop_statuses_found) > 0:", "        stop_statuses_found = {*stop_status} & {*test_statuses}\n        if len(stop_statuses_found) > 1:", "1"),
    ("negative-tries-accepted", NODE, "        if max_tries < 0:\n            raise ValueError(\"Number of max_tries cannot be less than zero\")\n", "", "1"),
    ("replay-default-tries", NODE, "        # ignore the retry parameters for nodes that cannot be re-run (need to run at least once)\n        max_tries = self.params.get_numeric(\n            \"max_tries\", 2 if self.params.get(\"replay\") else 1\n        )",
     "        max_tries = self.params.get_numeric(\n            \"max_tries\", 1\n        )", "1d"),
    ("config-node-fresh-results", G, "        pre_node.results = list(test_node.results)\n", "", "7"),
    ("update-from-state-no-retry", "intertest_setup.py", "                            flag=lambda self, slot: not self.is_finished(slot)\n                            or self.should_rerun(slot),\n                            skip_children=True,",
     "                            flag=lambda self, slot: not self.is_finished(slot),\n                            skip_children=True,", "12"),
    ("fail-summary-inverted", RUNNER, "            if not self.all_results_ok():", "            if self.all_results_ok():", "4r"),
    ("P-verdict-all-any", RUNNER, "        shared_status = True\n        for test in self.job.result.tests:\n            shared_status &= any(\n                STATUSES_MAPPING[t[\"status\"]]\n                for t in self.job.result.tests\n                if t[\"name\"].name == test[\"name\"].name\n            )\n            if not shared_status:\n                return False\n        return True",
     "        return all(\n            any(\n                STATUSES_MAPPING[t[\"status\"]]\n                for t in self.job.result.tests\n                if t[\"name\"].name == test[\"name\"].name\n            )\n            for test in self.job.result.tests\n        )", None),
]
