"""C02 — traversal terminates and every selected test gets a definite result."""

from __future__ import annotations

import ast

from .. import norm
from ..ctx import Ctx
from ..facts import PathView, is_call_named, recv_text
from ..kinds import function_views, names_interesting
from ..paths import first_line, step_awaits, step_calls
from ..repo import AnalysisError, call_name, calls_in
from . import nodetables as N
from . import traversal as T

EXPLANATION = (
    "Termination and deadlock-freedom are not decidable statically; the check decides their structural necessary "
    "conditions: every iteration of the traversal loop makes progress (push, pop, reset or bounded sleep), a node is "
    "picked from only when the readiness predicate says a candidate exists (predicate/filter agreement), the occupied "
    "bounce resets and sleeps a positive bounded time, the result wait is a bounded loop, the UNKNOWN placeholder is "
    "resolved on every exit, dry-run rows come first in all three decision tables, the retry budget is consumed."
)
DECIDED = [
    "C02.1 every loop iteration pushes/pops/resets/sleeps or raises",
    "C02.2 pick filters mirror the readiness predicates; pick call sites guarded (T.G2, T.G3) => no pick from an exhausted node",
    "C02.3 occupied bounce: reset to [root], bounded positive sleep, continue, no traversal in that iteration",
    "C02.4 loop exit shape (root cleanup-ready; single shared root; final path assertion)",
    "C02.5 bounded result wait in run_test_node",
    "C02.6 UNKNOWN placeholder resolved on every normal exit of run_test_node",
    "C02.7 dry run: all three decisions return False before anything else",
    "C02.8 retry budget strictly consumed (should_rerun table + result list ownership)",
    "C02.9 a traversed parent that needs no more running is dropped (progress of the inverse DFS)",
    "C02.11 the postponement of cleanups consults a freshly computed list of unexplored flat nodes (a stale list postpones forever: busy loop)",
    "C02.10 recovery from a hung occupant: the re-entrancy limit strictly grows each time the waiting budget is exhausted",
    "C02.12 definitions of the aggregated views and predicates the loop conditions rest on; fresh per-node bookkeeping",
    "C02.14 wait budget at an occupied node >= test_timeout x max(max_tries, 1), doubled for object roots (two test runs per creation); poll interval; re-entrancy only beyond the budget",
]
NOT_DECIDED = [
    "termination / absence of livelock between bouncing workers as such",
    "that every compatible test is executed at least once",
    "behaviour under persistent creation failure",
]
MIN_INSTANCES = 30


def loop_progress(ctx: Ctx, rule: str) -> None:
    views = T.loop_views(ctx)
    n, bad = 0, []
    for v in views:
        if v.path.exit == "raise":
            continue
        n += 1
        progress = []
        for i, c in v.calls(lambda c: call_name(c) in ("append", "pop") and recv_text(c) == "traverse_path"):
            progress.append(ast.unparse(c)[:60])
        for i, s in v.stmts(lambda s: isinstance(s, ast.Assign) and any(isinstance(t, ast.Name) and t.id == "traverse_path" for t in s.targets)):
            progress.append(first_line(s))
        for i, a in v.awaits():
            if isinstance(a.value, ast.Call) and call_name(a.value) == "sleep":
                progress.append("await sleep")
        if not progress:
            bad.append(v)
    ctx.expect_sites(rule, n, 8, T.TOT, False, "non-raising path through one loop iteration")
    ctx.record(rule, "COUNT", T.TOT, "every non-raising path through one iteration of the traversal loop pushes, pops, resets the path or sleeps",
               not bad, {"paths": n, **({"path": bad[0].path.describe()} if bad else {})},
               "" if not bad else "an iteration of the traversal loop can complete without changing the traverse path or sleeping (busy loop)")


def occupied_bounce(ctx: Ctx, rule: str) -> None:
    views = T.loop_views(ctx)
    n, problems = 0, []
    for v in views:
        occ = [i for i, s in enumerate(v.steps) if s.kind == "cond" and s.pol and isinstance(s.node, ast.Call)
               and call_name(s.node) == "is_occupied"]
        if not occ:
            continue
        n += 1
        o = occ[0]
        after_calls = [call_name(c) for i, c in v.calls() if i > o]
        if any(x in ("traverse_node", "reverse_node", "pick_parent", "pick_child", "drop_parent", "drop_child") for x in after_calls):
            problems.append(("the occupied branch goes on to traverse/reverse/pick in the same iteration", v))
        resets = [i for i, s in v.stmts(lambda s: isinstance(s, ast.Assign) and ast.unparse(s.targets[0]) == "traverse_path") if i > o]
        sleeps = [i for i, a in v.awaits() if i > o and isinstance(a.value, ast.Call) and call_name(a.value) == "sleep"]
        if not resets:
            problems.append(("the occupied branch does not reset the traverse path to the root", v))
        if not sleeps:
            problems.append(("the occupied branch does not sleep before looking for other work", v))
        if v.path.exit != "continue":
            problems.append(("the occupied branch falls through instead of restarting the iteration", v))
        for i in sleeps:
            a = [a for k, a in v.awaits() if k == i][0]
            arg0 = a.value.args[0] if a.value.args else None
            c = v.canon(arg0, i) if arg0 is not None else None
            # round(max(<expr>, <positive literal>), n)
            ok = (isinstance(c, ast.Call) and call_name(c) == "round" and c.args and isinstance(c.args[0], ast.Call)
                  and call_name(c.args[0]) == "max"
                  and any(isinstance(x, ast.Constant) and isinstance(x.value, (int, float)) and x.value > 0 for x in c.args[0].args))
            if not ok:
                problems.append((f"the bounce sleep is not round(max(<permill of the test duration>, <positive constant>), n): {ast.unparse(c) if c is not None else None}", v))
            # the time accounted as waited is the time actually slept
            incs = [s_ for k, s_ in v.stmts(lambda s_: isinstance(s_, ast.AugAssign) and ast.unparse(s_.target) == "occupied_wait")]
            for s_ in incs:
                if c is not None and ast.unparse(v.canon(s_.value, i)) != ast.unparse(c):
                    problems.append(("the waiting budget is charged with a different amount than is actually slept "
                                     f"({ast.unparse(v.canon(s_.value, i))} vs {ast.unparse(c)})", v))
    ctx.expect_sites(rule, n, 2, T.TOT, True, "path through the occupied branch")
    ctx.record(rule, "GUARD", T.TOT, "occupied -> traverse_path = [root]; await asyncio.sleep(round(max(.., positive), ..)); continue; no traversal",
               not problems, {"paths": n, **({"path": problems[0][1].path.describe()} if problems else {})},
               "" if not problems else problems[0][0])


def exit_shape(ctx: Ctx, rule: str) -> None:
    fn = ctx.repo.func(T.TOT)
    loop = T.main_loop(ctx)
    root = T._root_name(ctx)
    f = norm.formula(loop.test, rename={fn.params()[1]: "worker"})
    want = ("not", ("atom", f"{root}.is_cleanup_ready(worker)"))
    ctx.record(rule, "TABLE", T.TOT, f"loop condition is `not {root}.is_cleanup_ready(worker)`", f == want, {"extracted": norm.show(f)},
               "" if f == want else "the traversal loop's exit condition is no longer 'the shared root is cleanup-ready for this worker'")
    asserts = [a for a in fn.node.body if isinstance(a, ast.Assert)]
    txt = [ast.unparse(a.test) for a in asserts]
    ok1 = any(t == "len(shared_roots) == 1" for t in txt)
    ok2 = any(t == f"traverse_path == [{root}]" for t in txt) and fn.node.body.index(
        next(a for a in asserts if ast.unparse(a.test) == f"traverse_path == [{root}]")) > fn.node.body.index(loop) if any(
        t == f"traverse_path == [{root}]" for t in txt) else False
    ctx.record(rule + "b", "TABLE", T.TOT, "exactly one shared root asserted before, and traverse_path == [root] asserted after the loop",
               ok1 and ok2, {"asserts": txt}, "" if ok1 and ok2 else "the single-root / back-at-the-root assertions around the traversal loop changed")
    # the loop is the only loop statement at function level and contains no `break`
    breaks = [b for b in ast.walk(loop) if isinstance(b, ast.Break)]
    inner_loops = [l for l in ast.walk(loop) if isinstance(l, (ast.For, ast.While)) and l is not loop]
    escaping = [b for b in breaks if not any(any(x is b for x in ast.walk(l)) for l in inner_loops)]
    rets = [r for r in ast.walk(loop) if isinstance(r, ast.Return)]
    ctx.record(rule + "c", "COUNT", T.TOT, "the traversal loop is left only through its condition (no break/return)", not escaping and not rets, {},
               "" if not escaping and not rets else "the traversal loop can be left without the root being cleanup-ready")


def bounded_wait(ctx: Ctx, rule: str) -> None:
    fn = ctx.repo.func(T.RTN)
    ctx.touch(T.RTN)
    whiles = [w for w in ast.walk(fn.node) if isinstance(w, ast.While)]
    fors = [f for f in ast.walk(fn.node) if isinstance(f, ast.For) and any(isinstance(x, ast.Await) for x in ast.walk(f))]
    ok = not whiles and len(fors) == 1 and isinstance(fors[0].iter, ast.Call) and call_name(fors[0].iter) == "range"
    awaits_ok = ok and all(isinstance(a.value, ast.Call) and call_name(a.value) == "sleep"
                           for a in ast.walk(fors[0]) if isinstance(a, ast.Await))
    ctx.record(rule, "COUNT", T.RTN, "result polling is a for-loop over range(<timeout>) whose only awaits are sleeps; no while-loop",
               ok and awaits_ok, {"while_loops": len(whiles), "polling_loops": len(fors)},
               "" if ok and awaits_ok else "the wait for a test result in run_test_node is no longer bounded")
    if ok:
        # the miss path assigns a default status, the exhausted loop falls through to the return
        handler_assigns = [h for h in ast.walk(fors[0]) if isinstance(h, ast.ExceptHandler)
                           and any(isinstance(s, ast.Assign) and ast.unparse(s.targets[0]) == "test_status" and
                                   isinstance(s.value, ast.Constant) and s.value.value == "error" for s in h.body)]
        ctx.record(rule + "b", "TABLE", T.RTN, "a missing result defaults the status to 'error' (never to an ok status)",
                   len(handler_assigns) == 1, {}, "" if len(handler_assigns) == 1 else "the default status for a lost result is no longer 'error'")
    rets = [r for r in ast.walk(fn.node) if isinstance(r, ast.Return)]
    # False iff error/fail
    # the value returned at the end: true exactly for the statuses other than error / fail (any of the equivalent spellings)
    ok_ret = False
    last = fn.node.body[-1]
    universe = ["pass", "warn", "fail", "error", "skip", "cancel", "interrupted", "unknown"]
    if isinstance(last, ast.Return) and last.value is not None:
        ts = norm.truth_set(last.value, "test_status", universe)
        ok_ret = ts is not None and set(universe) - ts == {"error", "fail"}
    ctx.record(rule + "c", "TABLE", T.RTN, "run_test_node returns False iff the status is 'error' or 'fail'", ok_ret, {},
               "" if ok_ret else "the status to success mapping of run_test_node changed")


def placeholder_resolved(ctx: Ctx, rule: str) -> None:
    views = function_views(ctx, T.RTN, names_interesting({"results", "run_test_task", "sleep", "is_flat", "remove"}),
                           roles=["node", "status_timeout"])
    n = 0
    unresolved = []
    for v in views:
        if v.path.exit == "raise":
            continue
        ph = T.placeholder_index(v)
        if ph is None:
            continue
        n += 1
        removed = [i for i, c in v.calls(lambda c: call_name(c) in ("remove", "pop", "clear") and isinstance(c.func.value, ast.Attribute)
                                          and c.func.value.attr == "results") if i > ph]
        replaced = [i for i, s in v.stmts(lambda s: isinstance(s, ast.Assign) and any(
            isinstance(t, ast.Subscript) and isinstance(t.value, ast.Name) for t in s.targets) and '"status"' in ast.unparse(s).replace("'", '"')) if i > ph]
        if not removed and not replaced:
            unresolved.append(v)
    ctx.expect_sites(rule, n, 2, T.RTN, False, "normal path recording the placeholder")
    kinds = {}
    for v in unresolved:
        exhausted = any(s.kind == "iter" and s.extra == "exhausted" for s in v.steps)
        key = "result never found within the bounded wait (polling loop exhausted)" if exhausted else "other"
        kinds.setdefault(key, v)
    if not unresolved:
        ctx.record(rule, "PAIR", T.RTN, "UNKNOWN placeholder removed or replaced on every normal exit", True, {"paths": n})
    for key, v in kinds.items():
        ctx.record(rule, "PAIR", T.RTN, f"UNKNOWN placeholder left in node.results: {key}", False,
                   {"path": v.path.describe()},
                   "a normal exit of run_test_node leaves the pending UNKNOWN placeholder in the node's results "
                   f"({key}); the node then has a pending status forever")


def wait_budget(ctx: Ctx, rule: str) -> None:
    """How long a worker bounces off an occupied node before it may join in.  From the property: a node may stay occupied, with no test
    overrunning its timeout, for (number of test runs one execution consists of) x (number of tries, at least one) x test_timeout; the
    waiter's budget must not be smaller than that.  Polled every permille of the budget (at least 0.1 s)."""
    fn = ctx.repo.func(T.TOT)
    ctx.touch(T.TOT)
    d = {}
    for s_ in ast.walk(fn.node):
        if isinstance(s_, ast.Assign) and len(s_.targets) == 1 and isinstance(s_.targets[0], ast.Name):
            d.setdefault(s_.targets[0].id, []).append(s_.value)
    td = d.get("test_duration", [])
    base = td[0] if td else None
    why = ""
    tries = None
    if base is None or not (isinstance(base, ast.BinOp) and isinstance(base.op, ast.Mult)):
        why = "the wait budget is no longer test_timeout x tries"
    else:
        fs = [base.left, base.right]
        tmo = [x for x in fs if ast.unparse(x) == "next.params.get_numeric('test_timeout', 3600)"]
        rest = [x for x in fs if x not in tmo]
        if len(tmo) != 1 or len(rest) != 1:
            why = f"the wait budget is not the node's test_timeout (default 3600) times its tries: {ast.unparse(base)}"
        else:
            tries = rest[0]
    # (B1) the tries factor is at least 1 for every accepted max_tries (should_rerun rejects only negative values: 0 means 'no retries')
    if not why:
        def is_mt(a):
            # the node's max_tries, whatever its default (the agreement of the defaults is rule C04.13)
            return isinstance(a, ast.Call) and ast.unparse(a.func) == "next.params.get_numeric" and a.args and isinstance(a.args[0], ast.Constant) and a.args[0].value == "max_tries"

        mt = "next.params.get_numeric('max_tries', ...)"
        t = tries
        floor_ok = (isinstance(t, ast.Call) and isinstance(t.func, ast.Name) and t.func.id == "max" and len(t.args) == 2 and not t.keywords
                    and [is_mt(a) for a in t.args if not isinstance(a, ast.Constant)] == [True]
                    and any(isinstance(a, ast.Constant) and isinstance(a.value, (int, float)) and a.value >= 1 for a in t.args))
        if not floor_ok:
            neg = ctx.repo.func("cartgraph/node.py:TestNode.should_rerun")
            rejects_zero = any(isinstance(c, ast.Compare) and ast.unparse(c) in ("max_tries < 1", "max_tries <= 0") for c in ast.walk(neg.node))
            if not is_mt(t) or not rejects_zero:
                why = (f"the tries factor of the wait budget is `{ast.unparse(t)}`: max_tries=0 is an accepted setting (only negative values are rejected, 0 runs the test once) "
                       "and makes the budget zero, so a waiting worker joins a running test after its second poll")
    # (B2) an execution that consists of k consecutive test runs keeps the node occupied for k timeouts
    ttn = ctx.repo.func(T.TTN)
    k = len([c for c in calls_in(ttn.node) if call_name(c) == "run_test_node"])
    if k < 2:
        raise AnalysisError(f"{T.TTN}: expected the two test runs of an object creation, found {k}")
    why1, why = why, ""
    if base is not None:
        scaled = 1
        for n_ in ast.walk(fn.node):
            if isinstance(n_, ast.If) and ast.unparse(n_.test) == "next.is_object_root()":
                for s_ in n_.body:
                    if isinstance(s_, ast.AugAssign) and isinstance(s_.op, ast.Mult) and ast.unparse(s_.target) == "test_duration" and isinstance(s_.value, ast.Constant):
                        scaled = s_.value.value
                    if isinstance(s_, ast.Assign) and ast.unparse(s_.targets[0]) == "test_duration" and isinstance(s_.value, ast.BinOp) and isinstance(s_.value.op, ast.Mult):
                        cs = [x.value for x in (s_.value.left, s_.value.right) if isinstance(x, ast.Constant)]
                        if cs and "test_duration" in ast.unparse(s_.value):
                            scaled = cs[0]
        if not (isinstance(scaled, (int, float)) and scaled >= k):
            why = (f"creating an object runs {k} tests in a row while its root stays occupied (traverse_terminal_node), but the wait budget of an object root is one test_timeout x tries: "
                   "a waiter joins after one timeout although neither test overran its own, and the object is created twice at the same time")
    why2, why = why, ""
    ot = d.get("occupied_timeout", [])
    if not (len(ot) == 1 and ast.unparse(ot[0]) == "round(max(test_duration / 1000, 0.1), 2)"):
        why = "the poll interval is no longer max(budget / 1000, 0.1) s"
    esc = [c for c in ast.walk(fn.node) if isinstance(c, ast.Compare) and ast.unparse(c) in ("occupied_wait > test_duration", "test_duration < occupied_wait")]
    if not why and len(esc) != 1:
        why = "re-entrancy is no longer granted only after waiting longer than the budget"
    ctx.record(rule, "CONST", T.TOT, "occupied-wait budget = test_timeout x tries with tries >= 1 for every accepted max_tries (0 included)", not why1,
               {"test_duration": [ast.unparse(x) for x in td]}, why1)
    ctx.record(rule + "r", "CONST", T.TOT, f"the budget of an object root covers the {k} consecutive test runs of one creation (x{k})", not why2, {"runs_per_creation": k}, why2)
    ctx.record(rule + "p", "CONST", T.TOT, "poll interval = max(budget / 1000, 0.1) s; re-entrancy only after waiting longer than the budget", not why, {}, why)


def sync_errors(ctx: Ctx, rule: str) -> None:
    """A failing sync / cleanup request is reported, never raised: an exception out of reverse_node would end the worker's
    traversal and leave every remaining test without a result."""
    fref = "cartgraph/node.py:TestNode.sync_states"
    fn = ctx.repo.func(fref)
    ctx.touch(fref)
    tries = [t for t in ast.walk(fn.node) if isinstance(t, ast.Try) and any(call_name(c) == "run_subcontrol" for s_ in t.body for c in calls_in(s_))]
    ok = len(tries) == 1
    if ok:
        hs = tries[0].handlers
        ok = len(hs) == 1 and hs[0].type is not None and ast.unparse(hs[0].type).endswith("ShellCmdError") and not any(isinstance(x, (ast.Raise, ast.Return)) for x in ast.walk(hs[0]))
    ctx.record(rule, "TABLE", fref, "the sync/cleanup request: ShellCmdError -> logged, nothing raised", ok, {}, "" if ok else "a failed state sync or cleanup raises out of sync_states: the traversal of that worker ends and the remaining tests never run")


def run(ctx: Ctx) -> None:
    ctx.call(wait_budget, "14")
    # is_occupied is built on is_started: a started/finished mix-up makes a worker bounce off its own finished nodes for ever
    ctx.call(T.t_s1, "18/T.S1")
    ctx.call(T.t_s1c, "18c/T.S1c")
    from . import graphrules as GR2

    ctx.call(GR2.object_root_value, "17")
    from .c04 import tries_default_agreement

    ctx.call(tries_default_agreement, "14d")
    ctx.call(sync_errors, "15")
    from .c10 import creation_ids

    ctx.call(creation_ids, "16")
    ctx.call(loop_progress, "1")
    ctx.call(N.pick_agreement, "2", "setup")
    ctx.call(N.pick_agreement, "2c", "cleanup")
    ctx.call(T.t_g2, "2/T.G2")
    ctx.call(T.t_g3, "2/T.G3")
    ctx.call(occupied_bounce, "3")
    ctx.call(exit_shape, "4")
    ctx.call(bounded_wait, "5")
    from ..kinds import signature_defaults

    ctx.call(signature_defaults, "5d", {"plugins/runner.py:TestRunner.run_test_node": {"status_timeout": "10"}}, "bounded result wait")
    ctx.call(placeholder_resolved, "6")
    ctx.call(N.run_decision_table, "7r")
    ctx.call(N.clean_decision_table, "7c")
    ctx.call(N.should_rerun_table, "8")
    ctx.call(T.t_r1, "8/T.R1")
    ctx.call(T.t_g4, "9/T.G4")
    ctx.call(T.t_g5, "11/T.G5")
    from .c04 import reentrancy_rule

    ctx.call(reentrancy_rule, "10")
    ctx.call(T.t_a2b, "13/T.A2b")
    from . import atoms as A

    ctx.call(A.definitions, "12")
    ctx.call(A.involved_workers, "12i")
    ctx.call(A.drop_registrations, "12d")
    ctx.call(A.fresh_state, "12f")
    # the drop must exist: otherwise the child picks the same finished parent forever
    sites = [c for c in calls_in(ctx.repo.func(T.TOT).node) if call_name(c) == "drop_parent"]
    ctx.record("9", "COUNT", T.TOT, "a traversed parent that needs no more running is dropped for the child", len(sites) >= 1, {},
               "" if sites else "no drop_parent call remains in the traversal loop")


G = "cartgraph/graph.py"
NODE = "cartgraph/node.py"
R = "plugins/runner.py"
MUTANTS = [
    ("wait-budget-one-timeout", G, "                test_duration = next.params.get_numeric(\"test_timeout\", 3600) * max(\n                    next.params.get_numeric(\n                        \"max_tries\", 2 if next.params.get(\"replay\") else 1\n                    ),\n                    1,\n                )", "                test_duration = next.params.get_numeric(\"test_timeout\", 3600)", "14"),
    ("wait-budget-zero-tries", G, "                test_duration = next.params.get_numeric(\"test_timeout\", 3600) * max(\n                    next.params.get_numeric(\n                        \"max_tries\", 2 if next.params.get(\"replay\") else 1\n                    ),\n                    1,\n                )", "                test_duration = next.params.get_numeric(\"test_timeout\", 3600) * next.params.get_numeric(\"max_tries\", 2 if next.params.get(\"replay\") else 1)", "14"),
    ("wait-budget-root-single", G, "                if next.is_object_root():\n                    # each try at creating an object consists of two consecutive test runs\n                    test_duration *= 2\n", "", "14r"),
    ("P-wait-budget-root-inline", G, "                if next.is_object_root():\n                    # each try at creating an object consists of two consecutive test runs\n                    test_duration *= 2\n", "                if next.is_object_root():\n                    test_duration = test_duration * 2\n", None),
    ("sync-failure-raises", NODE, "            except ShellCmdError as error:\n                logging.warning(\n                    f\"{action} {self} for {self.started_worker.id} could not be completed \"", "            except ShellCmdError as error:\n                if \"AssertionError\" not in error.output:\n                    raise RuntimeError(\"sync failed\")\n                logging.warning(\n                    f\"{action} {self} for {self.started_worker.id} could not be completed \"", "15"),
    ("shared-results-own-only", NODE, "        results = list(self.results)\n        for bridged_node in self.bridged_nodes:\n            results += bridged_node.results\n        return results",
     "        results = list(self.results)\n        return results", "12v"),
    ("finished-workers-skip-self", NODE, "        if self.finished_worker is not None:\n            workers.add(self.finished_worker)\n        for bridged_node in self.bridged_nodes:\n            if bridged_node.finished_worker",
     "        for bridged_node in self.bridged_nodes:\n            if bridged_node.finished_worker", "12v"),
    ("started-workers-filtered", NODE, "            if bridged_node.started_worker is not None:\n                workers.add(bridged_node.started_worker)",
     "            if bridged_node.started_worker is not None and not bridged_node.is_flat():\n                workers.add(bridged_node.started_worker)", "12v"),
    ("involved-only-setup-picks", NODE, "            self._picked_by_setup_nodes.get_workers()\n            | self._picked_by_cleanup_nodes.get_workers()", "            self._picked_by_setup_nodes.get_workers()", "12i"),
    ("drop-parent-registers-self", NODE, "self._dropped_setup_nodes.register(test_node, worker)", "self._dropped_setup_nodes.register(self, worker)", "12d"),
    ("drop-child-unguarded", NODE, "        if test_node not in self.cleanup_nodes:\n            raise ValueError(\n                f\"Invalid child to drop: {test_node} not a child of {self}\"\n            )\n", "", "12d"),
    ("class-level-results", NODE, "        self.objects = []\n        self.results = []\n", "        self.objects = []\n", "12f"),
    ("flat-means-no-vms", NODE, "        return len(self.objects) == 0", "        return len(self.objects) <= 1", "12p"),
    ("P-shared-results-comprehension", NODE, "        results = list(self.results)\n        for bridged_node in self.bridged_nodes:\n            results += bridged_node.results\n        return results",
     "        results = list(self.results)\n        for other in self.bridged_nodes:\n            results.extend(other.results)\n        return results", None),
    ("P-finished-workers-reordered", NODE, "        if self.finished_worker is not None:\n            workers.add(self.finished_worker)\n        for bridged_node in self.bridged_nodes:\n            if bridged_node.finished_worker is not None:\n                workers.add(bridged_node.finished_worker)\n        return workers",
     "        for b in self.bridged_nodes:\n            if b.finished_worker is None:\n                continue\n            workers.add(b.finished_worker)\n        if not (self.finished_worker is None):\n            workers.add(self.finished_worker)\n        return workers", None),
    ("P-flat-not-objects", NODE, "        return len(self.objects) == 0", "        return not self.objects", None),
    ("no-pop-after-traverse", G, "                        previous.drop_parent(next, worker)\n                    traverse_path.pop()",
     "                        previous.drop_parent(next, worker)\n                        traverse_path.pop()", "1"),
    ("pick-filter-loosened", NODE, "            n for n in self.setup_nodes if worker.id in n.params[\"name\"] or n.is_flat()\n        ]",
     "            n for n in self.setup_nodes if worker.id in n.params[\"name\"]\n        ]", "2"),
    ("bounce-no-sleep", G, "                await asyncio.sleep(occupied_timeout)\n                continue", "                continue", "3"),
    ("bounce-zero-sleep", G, "occupied_timeout = round(max(test_duration / 1000, 0.1), 2)", "occupied_timeout = round(test_duration / 1000, 2)", "3"),
    ("while-wait", R, "        for i in range(status_timeout):\n            try:", "        i = 0\n        while True:\n            try:", "5"),
    ("dry-run-after-worker-check", NODE, "        if self.params.get(\"dry_run\", \"no\") == \"yes\":\n            logging.info(f\"Should not run via dry test run {self}\")\n            return False\n        elif self.is_flat():",
     "        if self.is_flat():", "7r"),
    ("budget-not-consumed", NODE, "reruns_left = 0 if max_tries == 1 else max_tries - total_runs", "reruns_left = 0 if max_tries == 1 else max_tries", "8"),
    ("pick-parent-when-ready", G, "                if not next.is_setup_ready(worker):\n                    traverse_path.append(next.pick_parent(worker))\n                    continue",
     "                if next.is_setup_ready(worker):\n                    traverse_path.append(next.pick_parent(worker))\n                    continue", "2/T.G2"),
    ("default-pass", R, "                test_status = \"error\"\n", "                test_status = \"pass\"\n", "5b"),
    ("P-sleep-var", G, "                await asyncio.sleep(occupied_timeout)\n                continue",
     "                nap = occupied_timeout\n                await asyncio.sleep(nap)\n                continue", None),
    ("P-loop-debug", G, "            next = traverse_path[-1]\n", "            next = traverse_path[-1]\n            logging.debug('loop')\n", None),
]
