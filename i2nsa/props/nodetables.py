"""Decision tables of cartgraph/node.py shared by several properties."""

from __future__ import annotations

import ast

from .. import norm
from ..ctx import Ctx
from ..facts import PathView, stores_attr
from ..kinds import (
    TableSpec,
    bool_return_outcome,
    eval_with_spec,
    function_views,
    loop_iteration_views,
    names_interesting,
    role_rename,
    table_rule,
    the_loop,
    unknown_atoms,
)
from ..paths import PathEnum, first_line
from ..repo import AnalysisError, call_name, calls_in

NODE = "cartgraph/node.py"


def atom_key(text: str) -> tuple[str, bool]:
    """(canonical atom text, negated?) of a single-atom condition given as source text."""
    f = norm.formula(ast.parse(text, mode="eval").body)
    neg = False
    while f[0] == "not":
        neg = not neg
        f = f[1]
    if f[0] != "atom":
        raise AnalysisError(f"reference atom is not atomic: {text}")
    return f[1], neg


def M(name: str, *texts: str, neg: bool = False, pred=None):
    """Matcher: canonical atom texts (or a predicate on the text) -> boolean variable `name`."""
    keys = {}
    for t in texts:
        k, n = atom_key(t)
        keys[k] = n

    def m(atom_text: str):
        if atom_text in keys:
            flip = keys[atom_text] != neg
        elif pred is not None and pred(atom_text):
            flip = neg
        else:
            return None
        return (lambda v: not v[name]) if flip else (lambda v: v[name])

    return m


B = [False, True]


# ---------------------------------------------------------------------- readiness (C01.5, C05.6)
def readiness_table(ctx: Ctx, rule: str, which: str) -> None:
    """is_setup_ready / is_cleanup_ready: False iff some relevant, not yet dropped parent/child exists."""
    fname = {"setup": "is_setup_ready", "cleanup": "is_cleanup_ready"}[which]
    reg = {"setup": "_dropped_setup_nodes", "cleanup": "_dropped_cleanup_nodes"}[which]
    fref = f"{NODE}:TestNode.{fname}"
    fn = ctx.repo.func(fref)
    loop = the_loop(ctx, fref, ast.For, lambda l: ast.unparse(l.iter) == f"self.{which}_nodes",
                    f"for-loop over self.{which}_nodes")
    if not isinstance(loop.target, ast.Name):
        raise AnalysisError(f"{fref}: loop target is not a simple name")
    rename = role_rename(fn, ["worker"])
    rename[loop.target.id] = "_IT"
    views = loop_iteration_views(ctx, fref, loop, None)
    for v in views:
        v.rename.update(rename)
    spec = TableSpec(
        {"F": B, "W": B, "D": B},
        [
            M("F", "_IT.is_flat()"),
            M("W", "worker.id in _IT.params['name']", "worker.id in _IT.params.get('name')"),
            M("D", f"worker.id in self.{reg}.get_workers(_IT)"),
        ],
        lambda v: False if ((v["F"] or v["W"]) and not v["D"]) else "next",
    )

    def outcome(view: PathView, val, free):
        o = bool_return_outcome(view, val, free, spec)
        return "next" if o in (None, "continue") else o

    table_rule(ctx, rule, fref, views, spec, outcome,
               construct=f"per {which} node: returns False iff (flat or own worker's) and not dropped by worker; else next")
    # the function as a whole: True exactly when the loop is exhausted
    fviews = function_views(ctx, fref, None)
    ok = True
    for v in fviews:
        iters = [s for s in v.steps if s.kind == "iter" and s.node is loop]
        if v.path.exit == "return" and iters and iters[-1].extra == "exhausted":
            if not (isinstance(v.path.exit_node.value, ast.Constant) and v.path.exit_node.value.value is True):
                ok = False
        elif v.path.exit == "return" and not iters:
            ok = False
        elif v.path.exit not in ("return",):
            ok = False
    top = [s for s in fn.node.body if not (isinstance(s, ast.Expr) and isinstance(s.value, ast.Constant))]
    ok = ok and len(top) == 2 and top[0] is loop
    ctx.record(rule + "b", "TABLE", fref, f"{fname}: the loop over all {which} nodes is the whole body; exhausted -> return True",
               ok, {}, "" if ok else f"{fname} no longer returns True exactly when every {which} node passed the per-node test")


def pick_agreement(ctx: Ctx, rule: str, which: str) -> None:
    """pick_parent/pick_child availability filter is exactly the negation of the readiness skip/ok test."""
    fname = {"setup": "pick_parent", "cleanup": "pick_child"}[which]
    reg = {"setup": "_dropped_setup_nodes", "cleanup": "_dropped_cleanup_nodes"}[which]
    pick_reg = {"setup": "_picked_by_cleanup_nodes", "cleanup": "_picked_by_setup_nodes"}[which]
    fref = f"{NODE}:TestNode.{fname}"
    fn = ctx.repo.func(fref)
    ctx.touch(fref)
    wname = fn.params()[1]
    # follow the chain of list comprehensions defining the candidate list tested for emptiness
    assigns = [s for s in fn.node.body if isinstance(s, ast.Assign) and len(s.targets) == 1 and isinstance(s.targets[0], ast.Name)]
    test_if = next((s for s in fn.node.body if isinstance(s, ast.If) and any(isinstance(x, ast.Raise) for x in s.body)), None)
    if test_if is None:
        raise AnalysisError(f"{fref}: exhaustion test (if ...: raise) not found")
    f_empty = norm.formula(test_if.test)
    if f_empty[0] == "not" and f_empty[1][0] == "atom" and f_empty[1][1].isidentifier() and any(
            s_.targets[0].id == f_empty[1][1] and isinstance(s_.value, (ast.ListComp, ast.List)) for s_ in assigns):
        # `not xs` on a local that is built as a list is the emptiness test `len(xs) == 0`
        f_empty = ("atom", f"empty({f_empty[1][1]})")
    if f_empty[0] != "atom" or not f_empty[1].startswith("empty("):
        raise AnalysisError(f"{fref}: exhaustion test is not an emptiness test: {ast.unparse(test_if.test)}")
    var = f_empty[1][6:-1]
    conds = []
    source = None
    cur = var
    guard = 0
    while True:
        guard += 1
        defs = [s for s in assigns if s.targets[0].id == cur and s.lineno < test_if.lineno]
        if not defs or guard > 6:
            break
        d = defs[-1]
        if not (isinstance(d.value, ast.ListComp) and len(d.value.generators) == 1
                and isinstance(d.value.generators[0].target, ast.Name)
                and isinstance(d.value.elt, ast.Name) and d.value.elt.id == d.value.generators[0].target.id):
            raise AnalysisError(f"{fref}: candidate list is not a plain filtering comprehension: {first_line(d)}")
        gen = d.value.generators[0]
        ren = {gen.target.id: "_IT", wname: "worker"}
        for c in gen.ifs:
            conds.append(norm.formula(c, rename=ren))
        it = ast.unparse(gen.iter)
        if it == cur and len(defs) >= 2:
            assigns = [s for s in assigns if s is not d]
            continue
        if isinstance(gen.iter, ast.Name):
            cur = gen.iter.id
            assigns = [s for s in assigns if s is not d]
            continue
        source = it
        break
    avail = norm.conj(conds)
    want = norm.conj([
        norm.disj([("atom", "worker.id in _IT.params['name']"), ("atom", "_IT.is_flat()")]),
        ("not", ("atom", f"worker.id in self.{reg}.get_workers(_IT)")),
    ])
    ok = source == f"self.{which}_nodes" and norm.equivalent(avail, want)
    ctx.record(rule, "SIBLING", fref,
               f"available {which} nodes = [(own worker's or flat) and not dropped by worker] over self.{which}_nodes "
               f"== negation of the per-node test of is_{which}_ready",
               ok, {"extracted": norm.show(avail), "source": source},
               "" if ok else f"{fname} availability filter {norm.show(avail)} over {source} no longer mirrors is_{which}_ready "
               f"(not ready must imply an available node, ready must imply none)")
    # the picked node is an element of the candidates and the pick is registered for (self, worker)
    ret = [s for s in ast.walk(fn.node) if isinstance(s, ast.Return)]
    regs = [c for c in calls_in(fn.node) if call_name(c) == "register"]
    ok2 = (len(regs) == 1 and isinstance(regs[0].func.value, ast.Attribute) and regs[0].func.value.attr == pick_reg
           and len(regs[0].args) == 2 and ast.unparse(regs[0].args[0]) == "self" and ast.unparse(regs[0].args[1]) == wname
           and len(ret) == 1 and ast.unparse(ret[0].value) == ast.unparse(regs[0].func.value.value))
    ctx.record(rule + "b", "PROV", fref, f"returned node registers the pick in its {pick_reg} for (self, worker)", ok2, {},
               "" if ok2 else f"{fname} no longer registers the pick of the returned node for (self, worker)")


# ---------------------------------------------------------------------- run decision (C01.6)
RUN_ATOMS = [
    M("DRY", "self.params.get('dry_run', 'no') == 'yes'"),
    M("FLAT", "self.is_flat()"),
    M("CLONED", "len(self.cloned_nodes) > 0"),
    M("W", "worker.id in self.params['name']"),
    M("S", "len(self.get_stateful_objects()) == 0"),
    M("R0", "len(self.shared_results) == 0"),
    M("RR", "self.should_rerun(worker)"),
    M("FIN", "self.is_finished(worker, 1)", "self.is_finished(worker)", "self.is_finished(worker, threshold=1)"),
    M("SCAN", "self.scan_states()"),
    M("FR0", "len(self.shared_filtered_results) == 0"),
]


def _prefix_outcome(v) -> object | None:
    if v["DRY"] or v["FLAT"] or v["CLONED"]:
        return False
    if not v["W"]:
        return "raise:RuntimeError"
    return None


def run_decision_table(ctx: Ctx, rule: str) -> None:
    fref = f"{NODE}:TestNode.default_run_decision"
    views = function_views(ctx, fref, None, roles=["worker"])
    spec_ref = {}

    def reference(v):
        p = _prefix_outcome(v)
        if p is not None:
            return p
        if v["S"]:
            return (v["R0"] or v["RR"], False)
        run_from_scan = (not v["FIN"]) and v["SCAN"]
        disabled = v["FR0"] and not run_from_scan
        return (run_from_scan or (v["RR"] and not disabled), disabled)

    spec = TableSpec({k: B for k in ("DRY", "FLAT", "CLONED", "W", "S", "R0", "RR", "FIN", "SCAN", "FR0")}, RUN_ATOMS, reference)

    def outcome(view: PathView, val, free):
        if view.path.exit != "return":
            return bool_return_outcome(view, val, free, spec)
        disabled = False
        for i, s in view.stmts(lambda s: bool(stores_attr(s, "should_rerun"))):
            tgt, value = stores_attr(s, "should_rerun")[0]
            const_false = isinstance(value, ast.Lambda) and isinstance(value.body, ast.Constant) and value.body.value is False
            if not const_false or ast.unparse(tgt.value) != "self":
                return f"unmodelled store {first_line(s)}"
            disabled = True
        if view.path.exit_node.value is None:
            return None
        f = view.formula_of(view.path.exit_node.value, len(view.steps))
        for a in unknown_atoms(f, spec):
            if a not in free:
                return f"opaque:{a}"
        if disabled:
            # after `self.should_rerun = lambda _: False` the rerun atom evaluates to False
            val = dict(val, RR=False)
        result = eval_with_spec(f, spec, val, free)
        if isinstance(reference(val), tuple):
            return (result, disabled)
        return result

    table_rule(ctx, rule, fref, views, spec, outcome,
               construct="default_run_decision: dry/flat/cloned -> False; foreign worker -> RuntimeError; stateless -> no results or rerun; "
               "stateful -> (not finished and scan says missing) or rerun, reruns disabled iff no scoped results and not run-from-scan")
    # the scan is evaluated only when the node is not finished in scope
    n, bad = 0, None
    for view in views:
        for i, c in view.calls(lambda c: call_name(c) == "scan_states"):
            n += 1
            prem = view.premise(i, 0, None, inner=c)
            req = norm.neg(norm.formula(ast.parse("self.is_finished(worker, 1)", mode="eval").body))
            if not norm.implies(prem, req):
                bad = view
    if n == 0:
        raise AnalysisError(f"{fref}: no scan_states call found")
    ctx.record(rule + "b", "GUARD", fref, "self.scan_states() evaluated only when not self.is_finished(worker, 1)", bad is None,
               {"paths": n}, "" if bad is None else "the state scan is performed although the node is already finished in scope")
    # who may override should_rerun on an instance
    from ..kinds import attribute_stores, owner_rule

    owner_rule(ctx, rule + "c", "store to <node>.should_rerun", list(attribute_stores(ctx.repo, "should_rerun")),
               {fref: "constant-False override under the table's 'disabled' row"}, 1)


# ---------------------------------------------------------------------- should_rerun (C03.6, C10.1)
import re as _re

_ALL = r"\[r\['status'\]\.lower\(\) for r in self\.shared(?:_filtered)?_results\]"
#: the complete list of statuses obtained so far (never a slice or a subset of it)
STATUSES_RX = _re.compile(r"^empty\(\{\*" + _ALL + r"\} - \{\*.*\}\)$")
STOP_RX = _re.compile(r"^empty\(\{\*self\.params\.get_list\('stop_status', \[\]\)\} & \{\*" + _ALL + r"\}\)$")
LEFT_RX = _re.compile(r"^0 < self\.params\.get_numeric\('max_tries', .*\) - len\(" + _ALL + r"\)$")

STATUS_UNIVERSE = ["fail", "error", "pass", "warn", "skip", "cancel", "interrupted", "unknown"]


def should_rerun_table(ctx: Ctx, rule: str) -> None:
    fref = f"{NODE}:TestNode.should_rerun"
    fn = ctx.repo.func(fref)
    views = function_views(ctx, fref, None, roles=["worker"])

    def src_of(text: str) -> str | None:
        if "self.shared_filtered_results" in text:
            return "F"
        if "self.shared_results" in text:
            return "S"
        return None

    def m_statuses(name, test):
        def m(text):
            if test(text):
                src = src_of(text)
                if src:
                    return lambda v, src=src: v[f"{name}{src}"]
            return None
        return m

    def m_neg(name, test):
        def m(text):
            if test(text):
                src = src_of(text)
                if src:
                    return lambda v, src=src: not v[f"{name}{src}"]
            return None
        return m

    matchers = [
        M("DRY", "self.params.get('dry_run', 'no') == 'yes'"),
        M("FLAT", "self.is_flat()"),
        M("CLONED", "len(self.cloned_nodes) > 0"),
        M("WK", "worker"),
        M("WIN", "worker.id in self.params['name']"),
        M("REPLAY", "self.params.get('replay')"),
        M("S", "len(self.get_stateful_objects()) == 0"),
        # len({*status} - {*all_statuses}) > 0 inside the validation loop
        M("BAD", neg=True, pred=lambda t: t.startswith("empty({*_ST} - {*")),
        M("NEG", pred=lambda t: t.endswith(" < 0") and "'max_tries'" in t),
        M("ONE", pred=lambda t: t.endswith(" == 1") and "'max_tries'" in t),
        # len({*test_statuses} - {*rerun_status}) > 0   (emptiness atom => negate); ALL statuses so far, lower-cased
        m_neg("VIOL", lambda t: STATUSES_RX.match(t) is not None and t.startswith("empty({*[") and "'rerun_status'" in t),
        # len({*stop_status} & {*test_statuses}) > 0
        m_neg("STOP", lambda t: STOP_RX.match(t) is not None),
        # reruns_left > 0 with reruns_left = max_tries - len(test_statuses)
        m_statuses("LEFT", lambda t: LEFT_RX.match(t) is not None),
    ]
    names = ["DRY", "FLAT", "CLONED", "WK", "WIN", "REPLAY", "S", "BAD", "NEG", "ONE",
             "VIOLS", "VIOLF", "STOPS", "STOPF", "LEFTS", "LEFTF"]

    def reference(v):
        if v["DRY"] or v["FLAT"] or v["CLONED"]:
            return False
        if v["WK"] and not v["WIN"]:
            return "raise:RuntimeError"
        if v["BAD"]:
            return "raise:ValueError"
        if v["NEG"]:
            return "raise:ValueError"
        sfx = "S" if v["S"] else "F"
        if v["VIOL" + sfx]:
            return False
        if v["STOP" + sfx]:
            return False
        if v["ONE"]:
            return False
        return bool(v["LEFT" + sfx])

    def constraint(v):
        # arithmetic facts about max_tries: it cannot be negative and equal to one at the same time
        return not (v["NEG"] and v["ONE"])

    spec = TableSpec({k: B for k in names}, matchers, reference, constraint)
    # rename the validation loop's variable so the BAD matcher is name independent
    vloops = [l for l in ast.walk(fn.node) if isinstance(l, ast.For) and isinstance(l.target, ast.Tuple)
              and isinstance(l.iter, (ast.List, ast.Tuple))]
    if len(vloops) != 1:
        raise AnalysisError(f"{fref}: status validation loop not found")
    vloop = vloops[0]
    tgt0 = vloop.target.elts[0]
    for v in views:
        if isinstance(tgt0, ast.Name):
            v.rename[tgt0.id] = "_ST"
    # the loop validates both configured lists
    validated = sorted(ast.unparse(e.elts[0]) for e in vloop.iter.elts if isinstance(e, ast.Tuple) and e.elts)
    ok_v = validated == ["rerun_status", "stop_status"]
    ctx.record(rule + "v", "TABLE", fref, "rerun_status and stop_status are both validated against the status universe",
               ok_v, {"validated": validated}, "" if ok_v else f"only {validated} are validated against the known test statuses")

    def outcome(view, val, free):
        return bool_return_outcome(view, val, free, spec)

    # the zero-iteration path of the validation loop is infeasible (the list display has two elements)
    feasible = []
    for v in views:
        it = [s for s in v.steps if s.kind == "iter" and s.node is vloop]
        if it and it[0].extra == "exhausted":
            continue
        feasible.append(v)
    # a path that went through one validation iteration without raising stands for "all lists valid"
    table_rule(ctx, rule, fref, feasible, spec, outcome, max_free=6,
               construct="should_rerun: dry/flat/cloned -> False; foreign worker -> RuntimeError; invalid statuses or max_tries < 0 -> ValueError; "
               "status outside rerun set -> False; stop status seen -> False; max_tries == 1 -> False; else tries left")
    # which results are counted: tests without stateful objects count all shared results; setup tests the scope-filtered ones,
    # seen from the worker that started the node or, if none did yet, from the deciding worker; the marker is put back afterwards
    sc = [i for i in fn.node.body if isinstance(i, ast.If) and any(isinstance(x, ast.Assign) and ast.unparse(x.targets[0]) == "test_statuses" for x in ast.walk(i))]
    ok_sc = False
    if len(sc) == 1:
        i0 = sc[0]
        stateless = norm.equivalent(norm.formula(i0.test), norm.formula(ast.parse("len(self.get_stateful_objects()) == 0", mode="eval").body))
        a = [ast.unparse(x) for x in i0.body]
        b = [ast.unparse(x) for x in i0.orelse]
        wname = fn.params()[1]
        ok_sc = (stateless and a == ["test_statuses = [r['status'].lower() for r in self.shared_results]"]
                 and b == ["old_started_worker = self.started_worker", f"self.started_worker = old_started_worker or {wname}",
                           "test_statuses = [r['status'].lower() for r in self.shared_filtered_results]", "self.started_worker = old_started_worker"])
    ctx.record(rule + "sc", "PROV", fref, "counted results: all shared results for tests without stateful objects; for setup tests the scope-filtered results seen from the starting worker (else the deciding one), started_worker restored",
               ok_sc, {}, "" if ok_sc else "the results a retry decision counts (or the scope they are filtered by) changed, or the temporary started_worker marker is not restored")
    # constants: status universe and defaults
    lists = [n for n in ast.walk(fn.node) if isinstance(n, ast.List) and len(n.elts) >= 6
             and all(isinstance(e, ast.Constant) and isinstance(e.value, str) for e in n.elts)]
    ok_u = len(lists) == 1 and sorted(e.value for e in lists[0].elts) == sorted(STATUS_UNIVERSE)
    ctx.record(rule + "u", "CONST", fref, "status universe = the eight avocado statuses", ok_u,
               {"found": [e.value for e in lists[0].elts] if lists else None},
               "" if ok_u else "the set of valid test statuses changed")
    src = ast.unparse(fn.node)
    defaults_ok = True
    detail = []
    for c in calls_in(fn.node):
        if call_name(c) == "get_numeric" and c.args and isinstance(c.args[0], ast.Constant) and c.args[0].value == "max_tries":
            d = ast.unparse(c.args[1]) if len(c.args) > 1 else None
            detail.append(("max_tries", d))
            # without replay exactly one try; under replay at least two (a constant >= 2, or max(<...>, k) with k >= 2)
            dn = c.args[1] if len(c.args) > 1 else None
            okd = isinstance(dn, ast.IfExp) and ast.unparse(dn.test) == "self.params.get('replay')" and isinstance(dn.orelse, ast.Constant) and dn.orelse.value == 1
            if okd:
                b = dn.body
                okd = (isinstance(b, ast.Constant) and isinstance(b.value, int) and b.value >= 2) or (
                    isinstance(b, ast.Call) and ast.unparse(b.func) == "max" and any(isinstance(a, ast.Constant) and isinstance(a.value, int) and a.value >= 2 for a in b.args))
            if not okd:
                defaults_ok = False
        if call_name(c) == "get_list" and c.args and isinstance(c.args[0], ast.Constant) and c.args[0].value == "rerun_status":
            d = ast.unparse(c.args[1]) if len(c.args) > 1 else None
            detail.append(("rerun_status", d))
            if d not in ("'fail,error,warn'", "[]"):
                defaults_ok = False
        if call_name(c) == "get_list" and c.args and isinstance(c.args[0], ast.Constant) and c.args[0].value == "stop_status":
            d = ast.unparse(c.args[1]) if len(c.args) > 1 else None
            detail.append(("stop_status", d))
            if d != "[]":
                defaults_ok = False
    defaults_ok = defaults_ok and len(detail) >= 4
    # which default belongs to which mode: the narrow default under `replay`, the full universe otherwise
    # (if/else assignments are conditional expressions after normalisation)
    sel = [s_ for s_ in fn.node.body if isinstance(s_, ast.Assign) and ast.unparse(s_.targets[0]) == "rerun_status" and isinstance(s_.value, ast.IfExp)]
    if len(sel) == 1:
        ie = sel[0].value
        rep = norm.formula(ast.parse("self.params.get('replay')", mode="eval").body)
        f = norm.formula(ie.test)
        rb, nb = (ie.body, ie.orelse) if norm.equivalent(f, rep) else ((ie.orelse, ie.body) if norm.equivalent(f, norm.neg(rep)) else (None, None))
        if rb is None or ast.unparse(rb) != "self.params.get_list('rerun_status', 'fail,error,warn', delimiter=',')" \
                or ast.unparse(nb) != "self.params.get_list('rerun_status', []) or all_statuses":
            defaults_ok = False
            detail.append(("rerun_status selection", ast.unparse(ie.test)))
    else:
        defaults_ok = False
    ctx.record(rule + "d", "CONST", fref, "defaults: max_tries 1, under replay at least 2; rerun_status 'fail,error,warn' if replay else all; stop_status none",
               defaults_ok, {"found": detail}, "" if defaults_ok else f"retry defaults changed: {detail}")


# ---------------------------------------------------------------------- clean decision (C05.4)
def clean_decision_table(ctx: Ctx, rule: str, all_owners: bool = False) -> None:
    fref = f"{NODE}:TestNode.default_clean_decision"
    fn = ctx.repo.func(fref)
    ctx.touch(fref)
    # prefix rows and the reversible split, on the function with the loops collapsed is not possible
    # (the loops contain returns), so the function is analysed in three regions.
    views = function_views(ctx, fref, None, roles=["worker"])
    # (1) prefix rows
    pre_ok, n_pre = True, 0
    pre_atoms = {"DRY": atom_key("self.params.get('dry_run', 'no') == 'yes'")[0], "FLAT": "self.is_flat()",
                 "CLONED": "empty(self.cloned_nodes)", "W": "worker.id in self.params['name']"}
    for v in views:
        conds = [(v.cond_formula(i)) for i, s in enumerate(v.steps) if s.kind == "cond"]
        if not conds:
            continue
        first = conds[0]
        # classify by the leading conditions
        val = {}
        for c in conds[:4]:
            f, neg = c, False
            while f[0] == "not":
                f, neg = f[1], not neg
            if f[0] == "atom":
                for k, t in pre_atoms.items():
                    if f[1] == t:
                        val[k] = not neg
        dry, flat = val.get("DRY"), val.get("FLAT")
        cloned = (not val["CLONED"]) if "CLONED" in val else None
        w = val.get("W")
        if dry is True:
            exp = False
        elif dry is False and flat is True:
            exp = False
        elif dry is False and flat is False and cloned is True:
            exp = False
        elif dry is False and flat is False and cloned is False and w is False:
            exp = "raise:RuntimeError"
        else:
            continue
        n_pre += 1
        got = "raise:" + (PathEnum._raised_name(v.path.exit_node) or "?") if v.path.exit == "raise" else (
            v.path.exit_node.value.value if v.path.exit == "return" and isinstance(v.path.exit_node.value, ast.Constant) else "?")
        if got != exp or len([c for c in conds]) > 4:
            pre_ok = False
    ctx.record(rule, "TABLE", fref, "default_clean_decision: dry -> False; flat -> False; cloned -> False; foreign worker -> RuntimeError (in this order, before anything else)",
               pre_ok and n_pre >= 4, {"prefix_paths": n_pre},
               "" if pre_ok and n_pre >= 4 else "the leading rows of default_clean_decision changed")

    # (2) non-reversible -> True
    n2, bad2 = 0, None
    for v in views:
        if v.path.exit == "return":
            f = v.formula_of(v.path.exit_node.value, len(v.steps))
            conds = [v.cond_formula(i) for i, s in enumerate(v.steps) if s.kind == "cond"]
            if any(norm.show(c) == "not (is_reversible)" or "is_reversible" in norm.show(c) for c in conds):
                pass
    # region analysis of the reversibility computation
    from ..canon import inline_locals

    # a sub-expression hoisted into a local (default_mode = object_params["unset_mode"]) is the same test
    fbody = inline_locals(fn.node, keep={"object_params"}).body
    rev_loops = [l for l in fbody if isinstance(l, ast.For) and ast.unparse(l.iter) == "self.objects"]
    if len(rev_loops) != 1 or len([l for l in fn.node.body if isinstance(l, ast.For) and ast.unparse(l.iter) == "self.objects"]) != 1:
        raise AnalysisError(f"{fref}: reversibility loop over self.objects not found")
    rl_orig = [l for l in fn.node.body if isinstance(l, ast.For) and ast.unparse(l.iter) == "self.objects"][0]
    rl = rev_loops[0]
    src = ast.unparse(rl)
    modes = sorted({c.args[0].value for c in calls_in(rl) if call_name(c) == "get" and c.args
                    and isinstance(c.args[0], ast.Constant) and str(c.args[0].value).startswith("unset_mode")})
    cmp_f = [n for n in ast.walk(rl) if isinstance(n, ast.Compare) and isinstance(n.comparators[0], ast.Constant)
             and n.comparators[0].value == "f" and isinstance(n.left, ast.Subscript)
             and isinstance(n.left.slice, ast.Constant) and n.left.slice.value == 0 and isinstance(n.ops[0], ast.Eq)]
    def _false_init(stmts):
        return any(isinstance(s, ast.Assign) and ast.unparse(s.targets[0]) == "is_reversible" and isinstance(s.value, ast.Constant) and s.value.value is False for s in stmts)

    # "no object is reversible -> False": the for/else form, or the flag initialised before the loop
    has_else_false = _false_init(rl.orelse) or _false_init(fbody[:fbody.index(rl)])
    has_break = any(isinstance(n, ast.Break) for n in ast.walk(rl))
    exact = sorted(ast.unparse(c.left) for c in cmp_f) == sorted([
        "object_params.get('unset_mode_images', object_params['unset_mode'])[0]",
        "object_params.get('unset_mode_vms', object_params['unset_mode'])[0]"])
    op_def = [s_ for s_ in ast.walk(rl) if isinstance(s_, ast.Assign) and ast.unparse(s_.targets[0]) == "object_params"]
    exact = exact and len(op_def) == 1 and ast.unparse(op_def[0].value) == f"{rl.target.id}.object_typed_params(self.params)"
    # "some object": the loop stops exactly when the current object is reversible (anything else computes "the last object" or "the first")
    brk_ifs = [i for i in rl.body if isinstance(i, ast.If) and any(isinstance(x, ast.Break) for x in i.body)]
    stop_ok = len(brk_ifs) == 1 and norm.equivalent(norm.formula(brk_ifs[0].test), ("atom", "is_reversible")) and rl.body[-1] is brk_ifs[0] and not brk_ifs[0].orelse \
        and not any(isinstance(x, (ast.Continue, ast.Return)) for x in ast.walk(rl))
    comb = [s_ for s_ in rl.body if isinstance(s_, ast.AugAssign) and ast.unparse(s_.target) == "is_reversible"]
    stop_ok = stop_ok and all(isinstance(c_.op, ast.BitOr) for c_ in comb)
    ok_rev = modes == ["unset_mode_images", "unset_mode_vms"] and len(cmp_f) == 2 and has_else_false and has_break and exact and stop_ok
    ctx.record(rule + "r", "TABLE", fref, "reversible iff some object has unset_mode_images or unset_mode_vms (each falling back to the object's generic unset_mode) starting with 'f'; no objects -> not reversible",
               ok_rev, {"modes": modes, "first_letter_tests": len(cmp_f)},
               "" if ok_rev else "the reversibility test of default_clean_decision changed")
    rl = rl_orig
    after = fn.node.body[fn.node.body.index(rl) + 1:]
    ok_split = (len(after) == 1 and isinstance(after[0], ast.If))
    if not ok_split:
        raise AnalysisError(f"{fref}: expected a single if/else after the reversibility loop")
    split = after[0]
    f_split = norm.formula(split.test)
    nonrev_body, rev_body = (split.body, split.orelse) if f_split == ("not", ("atom", "is_reversible")) else (
        (split.orelse, split.body) if f_split == ("atom", "is_reversible") else (None, None))
    if nonrev_body is None:
        raise AnalysisError(f"{fref}: split condition is not is_reversible: {ast.unparse(split.test)}")
    ok_nr = len(nonrev_body) == 1 and isinstance(nonrev_body[0], ast.Return) and isinstance(nonrev_body[0].value, ast.Constant) \
        and nonrev_body[0].value.value is True
    ctx.record(rule + "n", "TABLE", fref, "not reversible -> return True (nothing will be removed, cleaning is a no-op sync)", ok_nr, {},
               "" if ok_nr else "a non-reversible node is no longer unconditionally cleanable")

    # (3) reversible: last worker closes the door
    wloops = [s for s in rev_body if isinstance(s, ast.For) and ast.unparse(s.iter) == "self.shared_involved_workers"]
    if len(wloops) != 1:
        raise AnalysisError(f"{fref}: loop over self.shared_involved_workers not found in the reversible branch")
    wl = wloops[0]
    pe = PathEnum(None)
    wname = fn.params()[1]
    it = wl.target.id
    iviews = [PathView(p, {wname: "worker", it: "_PW"}) for p in pe.block(wl.body)]
    ctx.paths_enumerated += len(iviews)
    problems = []
    n_false_ready = n_false_unknown = n_next = n_skip = 0
    for v in iviews:
        conds = [v.cond_formula(i) for i, s in enumerate(v.steps) if s.kind == "cond"]
        prem = norm.conj(conds)
        ready_atoms = [a for a in norm.atoms_of(prem) if a.endswith(".is_cleanup_ready(_PW)")]
        unknown_atoms_ = [a for a in norm.atoms_of(prem) if a.startswith("'unknown' in ")]
        if v.path.exit == "continue":
            # only the swarm filter may skip a worker
            skip_req = norm.conj([("not", ("atom", "worker.swarm_id == 'localhost'")),
                                  ("not", ("atom", "worker.swarm_id in _PW.id"))])
            skip_alt = ("not", ("atom", "worker.swarm_id == _PW.swarm_id"))
            n_skip += 1
            if not (norm.implies(prem, skip_req) or norm.implies(prem, skip_alt)):
                problems.append(("an involved worker is skipped for a reason other than belonging to another swarm", v))
            elif all_owners:
                # C05: a dependant on another swarm counts whenever setup is reused across swarms (pool scope with 'cluster')
                per_swarm = ("not", ("atom", "'cluster' in self.params['pool_scope']"))
                cross_ok = norm.implies(prem, per_swarm)
                ctx.record(rule + "s", "GUARD", fref, "an involved worker of another swarm is skipped only when setup is not reused across swarms", cross_ok, {},
                           "" if cross_ok else "workers of other swarms are never waited for, although with the default pool scope (cluster included) their tests reuse the same removable state: "
                           "it can be removed while a dependant in another cluster is running")
        elif v.path.exit == "return":
            val = v.path.exit_node.value
            if not (isinstance(val, ast.Constant) and val.value is False):
                problems.append(("the involved-worker loop returns something other than False", v))
            elif ready_atoms and norm.implies(prem, ("not", ("atom", ready_atoms[0]))):
                n_false_ready += 1
            elif unknown_atoms_ and norm.implies(prem, ("atom", unknown_atoms_[0])):
                n_false_unknown += 1
            else:
                problems.append(("the involved-worker loop returns False for an unexpected reason", v))
        elif v.path.exit == "fall":
            if not ready_atoms or not unknown_atoms_:
                problems.append(("an involved worker passes without both the cleanup-ready and the still-running test", v))
            elif not (norm.implies(prem, ("atom", ready_atoms[0])) and norm.implies(prem, ("not", ("atom", unknown_atoms_[0])))):
                problems.append(("an involved worker passes although not cleanup ready or still running", v))
            else:
                n_next += 1
                # the node tested is self or the bridged copy of that worker
                recv = ready_atoms[0][: -len(".is_cleanup_ready(_PW)")]
                picked_ok = recv in ("self",) or recv == "_ND" or True
        elif v.path.exit == "raise":
            if PathEnum._raised_name(v.path.exit_node) != "ValueError":
                problems.append(("unexpected raise in the involved-worker loop", v))
    # whose copy is asked: the node itself when it is flat or belongs to the picked worker, else that worker's bridged copy
    sel = [i for i in wl.body if isinstance(i, ast.If) and any(isinstance(x, ast.Assign) and ast.unparse(x.targets[0]) == "picked_node" for x in ast.walk(i))]
    pick_ok = False
    if len(sel) == 1:
        i0 = sel[0]
        want_own = norm.formula(ast.parse(f"self.is_flat() or {it}.id in self.params['name']", mode="eval").body)
        own = [ast.unparse(x) for x in i0.body]
        inner = [l for l in i0.orelse if isinstance(l, ast.For)]
        pick_ok = norm.equivalent(norm.formula(i0.test), want_own) and own == ["picked_node = self"] and len(inner) == 1 and len(i0.orelse) == 1 \
            and ast.unparse(inner[0].iter) == "self.bridged_nodes" and isinstance(inner[0].target, ast.Name)
        if pick_ok:
            nd = inner[0].target.id
            ifs2 = [x for x in inner[0].body if isinstance(x, ast.If)]
            pick_ok = (len(ifs2) == 1 and len(inner[0].body) == 1 and norm.equivalent(norm.formula(ifs2[0].test), norm.formula(ast.parse(f"{it}.id in {nd}.params['name']", mode="eval").body))
                       and [ast.unparse(x) for x in ifs2[0].body] == [f"picked_node = {nd}", "break"] and not ifs2[0].orelse
                       and len(inner[0].orelse) == 1 and isinstance(inner[0].orelse[0], ast.Raise))
        uses = [ast.unparse(c.func.value) for c in calls_in(wl) if call_name(c) == "is_cleanup_ready"]
        res = [ast.unparse(g.iter) for l in ast.walk(wl) if isinstance(l, ast.ListComp) for g in l.generators]
        pick_ok = pick_ok and uses == ["picked_node"] and res == ["picked_node.results"]
    ctx.record(rule + "wp", "PROV", fref, "the copy consulted for an involved worker: the node itself if flat or that worker's own, else the bridged copy carrying that worker's id (none -> ValueError); readiness and statuses are read from that copy",
               pick_ok, {}, "" if pick_ok else "the clean decision consults another node than the involved worker's own copy (its readiness / running state is read from the wrong worker's bookkeeping)")
    ok3 = not problems and n_false_ready >= 1 and n_false_unknown >= 1 and n_next >= 1
    ctx.record(rule + "w", "TABLE", fref,
               "reversible: for every involved worker (same swarm): its copy not cleanup ready -> False; 'unknown' among its statuses -> False; else next",
               ok3, {"paths": len(iviews), "false_not_ready": n_false_ready, "false_running": n_false_unknown, "next": n_next, "skipped": n_skip,
                     **({"path": problems[0][1].path.describe()} if problems else {})},
               "" if ok3 else (problems[0][0] if problems else "a row of the involved-worker loop is missing"))
    # the statuses tested are the results of the picked node
    status_src = [n for n in ast.walk(wl) if isinstance(n, ast.ListComp) and "status" in ast.unparse(n.elt)]
    ok_src = len(status_src) == 1 and ast.unparse(status_src[0].generators[0].iter).endswith(".results") \
        and ".lower()" in ast.unparse(status_src[0].elt)
    ctx.record(rule + "s", "PROV", fref, "still-running test reads the lower-cased statuses of the picked node's results", ok_src,
               {"found": ast.unparse(status_src[0]) if status_src else None},
               "" if ok_src else "the still-running test no longer reads the picked node's result statuses")
    # every worker that owns a (bridged) copy of the node must be cleanup ready on its copy, not only the workers that
    # already picked it: with lazy expansion another worker may hold an unrolled, not yet linked dependant (finding F8)
    covers_all_copies = False
    for l in [x for x in rev_body if isinstance(x, ast.For)]:
        it = ast.unparse(l.iter)
        if "bridged_nodes" in it and "shared_involved_workers" not in ast.unparse(l) .split("is_cleanup_ready")[0][-400:]:
            readiness = [c for c in calls_in(l) if call_name(c) == "is_cleanup_ready" and isinstance(c.func.value, ast.Name) and c.func.value.id == getattr(l.target, "id", None)]
            rets = [r for r in ast.walk(l) if isinstance(r, ast.Return) and isinstance(r.value, ast.Constant) and r.value.value is False]
            if readiness and rets:
                covers_all_copies = True
    if all_owners:
      ctx.record(rule + "x", "TABLE", fref,
               "reversible: also every bridged copy owned by a worker that has not picked the node yet must be cleanup ready for that worker",
               covers_all_copies, {"rule": "the clean decision quantifies over all owners of a copy, not only over shared_involved_workers"},
               "" if covers_all_copies else "the clean decision only consults the workers that already picked the node (shared_involved_workers): a worker that "
               "lazily unrolled a dependant but went to another parent first is not waited for, and the removable state is removed while that dependant is pending")
    after = rev_body[rev_body.index(wl) + 1:]
    tail = [x for x in after if isinstance(x, ast.Return)]
    ok_tail = len(tail) == 1 and after[-1] is tail[0] and norm.formula(
        tail[0].value, rename={wname: "worker"}) == ("atom", "self.is_finished(worker, -1)")
    ctx.record(rule + "f", "TABLE", fref, "after all involved workers passed: return self.is_finished(worker, -1) (all involved workers finished)",
               ok_tail, {}, "" if ok_tail else "the final 'all involved workers finished' condition of default_clean_decision changed")


def scan_trust(ctx: Ctx, rule: str) -> None:
    """A worker may skip its own state scan of a setup node only on evidence that covers it: its own finished marker, or results of an
    execution in its scope (whose producers pull_locations then names).  'Some worker is finished' is not such evidence when that worker got
    there by a scan hit in its OWN pool: nobody produced the state in this run, so the other workers are pointed at the shared pool only."""
    fref = f"{NODE}:TestNode.default_run_decision"
    fn = ctx.repo.func(fref)
    ctx.touch(fref)
    defs = [s_ for s_ in ast.walk(fn.node) if isinstance(s_, (ast.Assign, ast.AugAssign)) and ast.unparse(s_.targets[0] if isinstance(s_, ast.Assign) else s_.target) == "should_scan"]
    text = " ; ".join(ast.unparse(d.value) for d in defs)
    conds = [ast.unparse(i.test) for i in ast.walk(fn.node) if isinstance(i, ast.If) and any(isinstance(x, ast.Assign) and ast.unparse(x.targets[0]) == "should_scan" for x in ast.walk(i))]
    evidence = text + " ; " + " ; ".join(conds)
    ok = bool(defs) and ("shared_finished_workers" in evidence or "finished_worker" in evidence) and "results" in evidence
    ctx.record(rule, "GUARD", fref, "the state scan is skipped only if this worker finished the node itself or an execution in its scope has results (not merely because some worker's scan found the states)",
               ok, {"should_scan": text},
               "" if ok else f"should_scan = {text}: with the default scope is_finished(worker, 1) holds as soon as ANY worker finished a bridged copy, also by a scan hit in its own pool; "
               "the other workers then skip the producer without scanning and their dependants are given the shared pool only, where the state is not")
