"""C07 — graph dependencies are exactly those declared in the configuration."""
from . import graphrules as GR

EXPLANATION = (
    "That the attached setup tests equal those of the configuration for every selection is a statement about the Cartesian "
    "parser's output and is not decidable statically. Decided are the provenance rules that make the resolution faithful: "
    "the dependency handed to the parent parser describes the object asked about (the parameters are never re-bound), the "
    "parent restriction is 'all..<get>' of that object with the node's net, an already attached parent is reused only for the "
    "same object, edges are created from the resolved parents per (child, object) with cloning once per producer, clones get "
    "branch-specific state names and inherit the other dependencies, newly parsed parents are registered at once."
)
DECIDED = [
    "C07.1 dep_suffix/dep_type/dep_id and the object restriction derive from the parameter test_object (never re-bound)",
    "C07.2 parent restriction 'all..' + get of that object, node's net, prefix + 'a', require_existence",
    "C07.3 per (child, object): 0 parents no edge, >=1 descend from the first, >=2 clone per parent",
    "C07.4 one clone per producer; get_state/set_state/name renaming; inherited edges; grandchildren queued; reuse of equal clones",
    "C07.5 newly parsed parents registered before the next resolution",
    "C07.6 an attached setup node is reused only for the same object (long suffix) and matching name/state",
]
NOT_DECIDED = ["exactness of the attached setup w.r.t. the configuration for all selections and variant products", "consistency of clones of clones"]
MIN_INSTANCES = 14


def run(ctx):
    ctx.call(GR.dependency_provenance, "1")
    ctx.call(GR.branch_edges, "3")
    ctx.call(GR.cloning, "4")
    ctx.call(GR.reclone_source, "4r")
    ctx.call(GR.bridged_form_anchored, "7a")
    ctx.call(GR.dependency_lookup, "6")
    ctx.call(GR.index_consistency, "5")
    ctx.call(GR.name_forms, "7n")
    ctx.call(GR.node_objects, "8")
    ctx.call(GR.worker_symmetry, "9")
    # cloning re-links dependants through descend_from_node: both views of an edge carry the same objects
    ctx.call(GR.edge_symmetry, "9e")
    ctx.call(GR.flat_expansion, "10")
    ctx.call(GR.dependency_table, "11")


NODE = "cartgraph/node.py"
G = "cartgraph/graph.py"
MUTANTS = [
    ("no-dependency-means-parse", "cartgraph/graph.py", "        if not object_dependency:\n            return [], []", "        if object_dependency:\n            return [], []", "11"),
    ("attached-reuse-without-setup", "cartgraph/graph.py", "        if (len(test_node.cloned_nodes) > 0 or unique_new_node) and len(\n            test_node.setup_nodes\n        ) > 0:", "        if (len(test_node.cloned_nodes) > 0 or unique_new_node) or len(\n            test_node.setup_nodes\n        ) > 0:", "11"),
    ("single-candidate-test-inverted", "cartgraph/graph.py", "        if len(filtered_parents) == 1:\n            if len(filtered_parents[0].cloned_nodes) > 0:", "        if len(filtered_parents) != 1:\n            if len(filtered_parents[0].cloned_nodes) > 0:", "11"),
    ("fresh-parse-when-candidates-exist", "cartgraph/graph.py", "        if len(filtered_parents) == 0:\n            return [], self.parse_composite_nodes(", "        if len(filtered_parents) != 0:\n            return [], self.parse_composite_nodes(", "1"),
    ("param-shadowed", G, "            for node_object in test_node.objects:\n                object_parents = self.get_nodes(\n                    \"name\",\n                    rf\"(\\.|^){node_object.component_form}(\\.|$)\",",
     "            for test_object in test_node.objects:\n                object_parents = self.get_nodes(\n                    \"name\",\n                    rf\"(\\.|^){test_object.component_form}(\\.|$)\",", "1"),
    ("restriction-without-all", G, "            return [], self.parse_composite_nodes(\n                \"all..\" + setup_restr,", "            return [], self.parse_composite_nodes(\n                setup_restr,", "1c"),
    ("dep-of-first-object", G, "                \"dep_suffix\": test_object.long_suffix,", "                \"dep_suffix\": test_node.objects[-1].long_suffix,", "1d"),
    ("second-parent-dropped", G, "                if len(more_parents) > 1:\n                    children += self.parse_cloned_branches_for_node_and_object(", "                if len(more_parents) > 2:\n                    children += self.parse_cloned_branches_for_node_and_object(", "3"),
    ("late-registration", G, "                self.new_nodes(parse_parents)\n                parents += parse_parents", "                parents += parse_parents", "3"),
    ("clone-state-not-renamed", G, "                    child.params[\"set_state\" + state_suffixes] = (\n                        child_state + \".\" + parent_state\n                    )", "                    child.params[\"set_state\" + state_suffixes] = child_state", "4s"),
    ("clone-keeps-old-parent", G, "                            parent if clone_setup == parent_source else clone_setup", "                            clone_setup", "4i"),
    ("grandchildren-not-cloned", G, "            for grandchild in clone_source.cleanup_nodes:\n                to_clone.append((grandchild, clones, clone_source))\n", "", "4g"),
    ("single-candidate-always-reused", G, "            if unique_new_node and len(filtered_parents) == 1:\n                logging.debug(", "            if len(filtered_parents) == 1:\n                logging.debug(", "1u"),
    ("dependency-by-short-suffix", NODE, "node_object_suffices = [t.long_suffix for t in test_node.objects]", "node_object_suffices = [t.suffix for t in test_node.objects]", "6"),
]
